(* Spec: the klog file-format specification (/repo/Specification.md, version 1.4) as a formal object.
   Definitions only. A syntax tree that records every degree of freedom a conforming text has, with
     wf     : which trees satisfy the MUST rules,
     render : the text of a tree (runes per line, then UTF-8 bytes with LF / CRLF endings),
     denote : the data the text means (the model's value and record types are used as plain data).
   Nothing here mentions the parser: decimal values, the Gregorian rule, the timeline position of a time
   and the blank characters are defined from the specification's wording; Proofs/Spec*.v relate them to
   the model.  Texts that the implementation also accepts but the specification does not mention (a tab
   after an entry value, blanks inside the should-total parentheses) are outside the image of [render]. *)
From Klog Require Import Base.Prelude Base.Utf8 Model.Calendar Model.Values Model.Record Model.Lines.
Open Scope Z_scope.

(* a line of text is a list of runes (Unicode code points); the file holds its UTF-8 encoding *)
Definition text := list N.

(* ---------- glossary ---------- *)

(* Unicode scalar value: what a well-formed UTF-8 file can contain *)
Definition scalar (r : N) : bool := ((r <? 1114112) && negb ((55296 <=? r) && (r <=? 57343)))%N.

(* Unicode category Zs (Space Separator) *)
Definition space_separator (r : N) : bool :=
  ((r =? 32) || (r =? 160) || (r =? 5760) || ((8192 <=? r) && (r <=? 8202)) || (r =? 8239) || (r =? 8287)
   || (r =? 12288))%N.

(* "blank character": a tab, or a character of category Zs *)
Definition blank_char (r : N) : bool := ((r =? 9) || space_separator r)%N.

(* the blank lines of [render]: spaces and tabs only. Lines made of other Zs characters are blank lines by
   the glossary too, but the implementation rejects them (known finding K3); they are outside [render]. *)
Definition blank_text (t : text) : bool := forallb (fun c => ((c =? 32) || (c =? 9))%N) t.

(* a line's text: scalar values, no linefeed *)
Definition text_ok (t : text) : bool := forallb (fun c => scalar c && negb (c =? 10)%N) t.

Definition spaces (n : nat) : text := repeat 32%N n.

(* "digit", "integer": a non-empty string of digits; its value is positional *)
Definition digit (c : N) : bool := ((48 <=? c) && (c <=? 57))%N.
Definition integer_ok (ds : text) : bool := negb (Nat.eqb (length ds) 0) && forallb digit ds.
Definition integer_value (ds : text) : Z := fold_left (fun acc c => 10 * acc + (Z.of_N c - 48)) ds 0.

Definition dchar (d : Z) : N := Z.to_N (48 + d).
Definition two_digits (n : Z) : text := [dchar (n / 10); dchar (n mod 10)].
Definition four_digits (n : Z) : text :=
  [dchar (n / 1000); dchar ((n / 100) mod 10); dchar ((n / 10) mod 10); dchar (n mod 10)].

(* ---------- Date ---------- *)

Record s_date := { sd_year : Z; sd_month : Z; sd_day : Z; sd_dash : bool (* separator - (true) or / *) }.

Definition leap_year (y : Z) : bool := ((y mod 4 =? 0) && negb (y mod 100 =? 0)) || (y mod 400 =? 0).
Definition month_length (y m : Z) : Z :=
  match m with
  | 2 => if leap_year y then 29 else 28
  | 4 | 6 | 9 | 11 => 30
  | _ => 31
  end.

(* four digits for the year, Gregorian *)
Definition wf_date (d : s_date) : bool :=
  (0 <=? sd_year d) && (sd_year d <=? 9999) && (1 <=? sd_month d) && (sd_month d <=? 12)
  && (1 <=? sd_day d) && (sd_day d <=? month_length (sd_year d) (sd_month d)).

Definition render_date (d : s_date) : text :=
  let sep := if sd_dash d then 45%N else 47%N in
  four_digits (sd_year d) ++ [sep] ++ two_digits (sd_month d) ++ [sep] ++ two_digits (sd_day d).

Definition denote_date (d : s_date) : date :=
  {| dt := {| c_year := sd_year d; c_month := sd_month d; c_day := sd_day d |}; dt_dashes := sd_dash d |}.

(* ---------- Time ---------- *)

Inductive clock := C24 | CAm | CPm.

(* st_shift: -1 for the `<` prefix, 1 for the `>` suffix; st_pad: single-figure hour written with a 0 *)
Record s_time := { st_shift : Z; st_hh : Z; st_pad : bool; st_mm : Z; st_clock : clock }.

Definition wf_time (t : s_time) : bool :=
  (-1 <=? st_shift t) && (st_shift t <=? 1) && (0 <=? st_mm t) && (st_mm t <=? 59)
  && match st_clock t with
     | C24 => (0 <=? st_hh t) && (st_hh t <=? 24)
              && (if st_hh t =? 24 then (st_mm t =? 0) && (st_shift t <=? 0) else true)   (* 24:00> MUST NOT appear *)
     | _ => (1 <=? st_hh t) && (st_hh t <=? 12)
     end.

Definition render_time (t : s_time) : text :=
  (if st_shift t <? 0 then [60%N] else [])
  ++ (if st_pad t || (10 <=? st_hh t) then two_digits (st_hh t) else [dchar (st_hh t)])
  ++ [58%N] ++ two_digits (st_mm t)
  ++ match st_clock t with C24 => [] | CAm => [97; 109]%N | CPm => [112; 109]%N end
  ++ (if 0 <? st_shift t then [62%N] else []).

(* hour of the day on the 24-hour clock (24 only in the literal 24:00) *)
Definition hour24 (t : s_time) : Z :=
  match st_clock t with
  | C24 => st_hh t
  | CAm => if st_hh t =? 12 then 0 else st_hh t
  | CPm => if st_hh t =? 12 then 12 else st_hh t + 12
  end.

(* position on the time line, in minutes from the start of the record's date *)
Definition timeline (t : s_time) : Z := 1440 * st_shift t + 60 * hour24 t + st_mm t.

(* `<24:00` is `0:00`, `24:00` is `0:00>` *)
Definition denote_time (t : s_time) : time :=
  if hour24 t =? 24
  then {| t_hour := 0; t_min := 0; t_shift := st_shift t + 1; t_24h := true |}
  else {| t_hour := hour24 t; t_min := st_mm t; t_shift := st_shift t;
          t_24h := match st_clock t with C24 => true | _ => false end |}.

(* ---------- Duration ---------- *)

Inductive dsign := SNone | SPlus | SMinus.

(* the digit strings are kept as written (leading zeros) *)
Record s_dur := { du_sign : dsign; du_h : option text; du_m : option text }.

Definition opt_value (o : option text) : Z := match o with Some ds => integer_value ds | None => 0 end.
Definition opt_ok (o : option text) : bool := match o with Some ds => integer_ok ds | None => true end.
Definition present {A} (o : option A) : bool := match o with Some _ => true | None => false end.

(* unsigned amount in minutes *)
Definition dur_amount (d : s_dur) : Z := 60 * opt_value (du_h d) + opt_value (du_m d).

(* the MUST rules of section Duration *)
Definition dur_shape (d : s_dur) : bool :=
  (present (du_h d) || present (du_m d)) && opt_ok (du_h d) && opt_ok (du_m d)
  && (if present (du_h d) then opt_value (du_m d) <? 60 else true).

(* ... and the one guard the specification does not have (its "integer" is unbounded): the amount fits a
   64-bit signed integer. Beyond it the value constructor of the implementation panics (finding K5). *)
Definition wf_dur (d : s_dur) : bool := dur_shape d && (dur_amount d <=? 9223372036854775807).

Definition render_dur (d : s_dur) : text :=
  match du_sign d with SNone => [] | SPlus => [43%N] | SMinus => [45%N] end
  ++ match du_h d with Some ds => ds ++ [104%N] | None => [] end
  ++ match du_m d with Some ds => ds ++ [109%N] | None => [] end.

Definition sign_factor (s : dsign) : Z := match s with SMinus => -1 | _ => 1 end.

Definition denote_dur (d : s_dur) : duration :=
  {| d_mins := sign_factor (du_sign d) * dur_amount d;
     d_plus := match du_sign d with SPlus => true | _ => false end;
     d_zsign := if dur_amount d =? 0
                then match du_sign d with SNone => 0 | SPlus => 1 | SMinus => -1 end
                else 0 |}.

(* ---------- Entry ---------- *)

(* sp1 / sp2: spaces before / after the dash; extra: additional `?` after the first *)
Inductive s_value :=
| SDur (d : s_dur)
| SRange (a : s_time) (sp1 sp2 : nat) (b : s_time)
| SOpen (a : s_time) (sp1 sp2 : nat) (extra : nat).

Definition wf_value (v : s_value) : bool :=
  match v with
  | SDur d => wf_dur d
  | SRange a _ _ b => wf_time a && wf_time b && (timeline a <=? timeline b)     (* chronological order *)
  | SOpen a _ _ _ => wf_time a
  end.

Definition render_value (v : s_value) : text :=
  match v with
  | SDur d => render_dur d
  | SRange a sp1 sp2 b => render_time a ++ spaces sp1 ++ [45%N] ++ spaces sp2 ++ render_time b
  | SOpen a sp1 sp2 extra => render_time a ++ spaces sp1 ++ [45%N] ++ spaces sp2 ++ repeat 63%N (S extra)
  end.

Definition denote_value (v : s_value) : evalue :=
  match v with
  | SDur d => VDuration (denote_dur d)
  | SRange a sp1 _ b =>
    VRange {| r_start := denote_time a; r_end := denote_time b; r_spaces := negb (Nat.eqb sp1 0) |}
  | SOpen a sp1 _ extra =>
    VOpen {| o_start := denote_time a; o_spaces := negb (Nat.eqb sp1 0); o_extra := extra |}
  end.

Definition is_open_value (v : s_value) : bool := match v with SOpen _ _ _ _ => true | _ => false end.

(* se_first: summary text on the entry's own line, after ONE space (the text itself is arbitrary);
   se_more: the following lines, each written after the doubled indentation *)
Record s_entry := { se_value : s_value; se_first : option text; se_more : list text }.

Definition all_blank (t : text) : bool := forallb blank_char t.

Definition wf_entry (e : s_entry) : bool :=
  wf_value (se_value e)
  && match se_first e with Some t => text_ok t | None => true end
  && forallb (fun t => text_ok t && negb (all_blank t)) (se_more e).   (* MUST NOT only consist of blank characters *)

(* ---------- Record ---------- *)

Inductive indent := I4 | I3 | I2 | ITab.

Definition indent_text (i : indent) : text :=
  match i with I4 => spaces 4 | I3 => spaces 3 | I2 => spaces 2 | ITab => [9%N] end.

(* sr_should: additional spaces before the parenthesis (one is always there), and the duration;
   sr_trail: spaces / tabs at the end of the headline *)
Record s_record := {
  sr_date : s_date;
  sr_should : option (nat * s_dur);
  sr_trail : text;
  sr_summary : list text;
  sr_indent : indent;
  sr_entries : list s_entry
}.

(* a record summary line: not empty (it would be a blank line), MUST NOT start with a blank character *)
Definition summary_line_ok (t : text) : bool :=
  text_ok t && match t with c :: _ => negb (blank_char c) | [] => false end.

Definition count_open (es : list s_entry) : nat := length (filter (fun e => is_open_value (se_value e)) es).

Definition wf_record (r : s_record) : bool :=
  wf_date (sr_date r)
  && match sr_should r with Some (_, d) => wf_dur d | None => true end
  && blank_text (sr_trail r)
  && forallb summary_line_ok (sr_summary r)
  && forallb wf_entry (sr_entries r)
  && (count_open (sr_entries r) <=? 1)%nat.               (* open ranges MUST NOT appear more than once *)

Definition headline_text (r : s_record) : text :=
  render_date (sr_date r)
  ++ match sr_should r with
     | Some (extra, d) => spaces (S extra) ++ [40%N] ++ render_dur d ++ [33; 41]%N
     | None => []
     end
  ++ sr_trail r.

Definition entry_texts (ind : text) (e : s_entry) : list text :=
  (ind ++ render_value (se_value e) ++ match se_first e with Some t => 32%N :: t | None => [] end)
  :: map (fun t => ind ++ ind ++ t) (se_more e).

Definition record_texts (r : s_record) : list text :=
  headline_text r :: sr_summary r ++ flat_map (entry_texts (indent_text (sr_indent r))) (sr_entries r).

Definition denote_entry (e : s_entry) : entry :=
  {| e_value := denote_value (se_value e);
     e_summary := match se_first e with Some t => utf8_encode t | None => [] end :: map utf8_encode (se_more e) |}.

Definition denote_record (r : s_record) : record :=
  {| rec_date := denote_date (sr_date r);
     rec_should := match sr_should r with Some (_, d) => Some (d_mins (denote_dur d)) | None => None end;
     rec_summary := map utf8_encode (sr_summary r);
     rec_entries := map denote_entry (sr_entries r) |}.

(* ---------- Document ---------- *)

(* do_lead: blank lines before the first record; every record is followed by blank lines (at least one,
   except after the last record); do_crlf i: line i (0-based) ends in CRLF rather than LF;
   do_final_newline: the last line has its newline *)
Record s_doc := {
  do_lead : list text;
  do_records : list (s_record * list text);
  do_crlf : nat -> bool;
  do_final_newline : bool
}.

Definition doc_texts (d : s_doc) : list text :=
  do_lead d ++ flat_map (fun rg => record_texts (fst rg) ++ snd rg) (do_records d).

Definition ending (crlf : bool) : bytes := if crlf then [13; 10]%N else [10%N].

Fixpoint attach (crlf : nat -> bool) (final : bool) (i : nat) (ts : list text) : list line :=
  match ts with
  | [] => []
  | [t] => [{| l_text := utf8_encode t; l_ending := if final then ending (crlf i) else [] |}]
  | t :: r => {| l_text := utf8_encode t; l_ending := ending (crlf i) |} :: attach crlf final (S i) r
  end.

Definition doc_lines (d : s_doc) : list line := attach (do_crlf d) (do_final_newline d) 0 (doc_texts d).

Definition render (d : s_doc) : bytes := text_of_lines (doc_lines d).

Definition denote (d : s_doc) : list record := map (fun rg => denote_record (fst rg)) (do_records d).

(* the bytes of a line and its newline are told apart unambiguously: a text ending in CR must not be followed
   by a bare LF (it would read as CRLF); a last line without newline is not empty (it would not be a line) *)
Definition ends_in_cr (s : bytes) : bool := match rev s with 13%N :: _ => true | _ => false end.
Definition line_unambiguous (l : line) : bool :=
  match l_ending l with
  | [] => negb (Nat.eqb (length (l_text l)) 0)
  | [_] => negb (ends_in_cr (l_text l))
  | _ => true
  end.

Fixpoint gaps_ok (rs : list (s_record * list text)) : bool :=
  match rs with
  | [] => true
  | [rg] => forallb blank_text (snd rg)
  | rg :: rest => forallb blank_text (snd rg) && negb (Nat.eqb (length (snd rg)) 0) && gaps_ok rest
  end.

Definition wf_doc (d : s_doc) : bool :=
  forallb blank_text (do_lead d)
  && forallb (fun rg => wf_record (fst rg)) (do_records d)
  && gaps_ok (do_records d)
  && forallb line_unambiguous (doc_lines d).

Definition wf (d : s_doc) : Prop := wf_doc d = true.

(* ---------- canonical documents (what `klog print` emits) ---------- *)

Definition canon_time (t : time) : s_time :=
  let '(hh, ck) :=
    if t_24h t then (t_hour t, C24)
    else if t_hour t =? 12 then (12, CPm)
    else if 12 <? t_hour t then (t_hour t - 12, CPm)
    else if t_hour t =? 0 then (12, CAm)
    else (t_hour t, CAm) in
  {| st_shift := if t_shift t <? 0 then -1 else if 0 <? t_shift t then 1 else 0;
     st_hh := hh; st_pad := false; st_mm := t_min t; st_clock := ck |}.

(* decimal digits of a non-negative number, most significant first, no leading zeros *)
Fixpoint digits_fuel (fuel : nat) (z : Z) (acc : text) : text :=
  match fuel with
  | O => acc
  | S k => if z <? 10 then dchar z :: acc else digits_fuel k (z / 10) (dchar (z mod 10) :: acc)
  end.
Definition decimal (z : Z) : text := digits_fuel (S (Z.to_nat (Z.log2 z))) z [].

Definition canon_dur (d : duration) : s_dur :=
  if d_mins d =? 0 then
    {| du_sign := if d_zsign d <? 0 then SMinus else if 0 <? d_zsign d then SPlus else SNone;
       du_h := None; du_m := Some [48%N] |}
  else
    let a := Z.abs (d_mins d) in
    {| du_sign := if d_mins d <? 0 then SMinus else if d_plus d then SPlus else SNone;
       du_h := if 0 <? a / 60 then Some (decimal (a / 60)) else None;
       du_m := if 0 <? a mod 60 then Some (decimal (a mod 60)) else None |}.

Definition canon_date (d : date) : s_date :=
  {| sd_year := c_year (dt d); sd_month := c_month (dt d); sd_day := c_day (dt d); sd_dash := dt_dashes d |}.

Definition canon_value (v : evalue) : s_value :=
  match v with
  | VDuration d => SDur (canon_dur d)
  | VRange r => let n := if r_spaces r then 1%nat else 0%nat in SRange (canon_time (r_start r)) n n (canon_time (r_end r))
  | VOpen o => let n := if o_spaces o then 1%nat else 0%nat in SOpen (canon_time (o_start o)) n n (o_extra o)
  end.

(* summary lines are held as UTF-8 bytes in a record *)
Definition canon_entry (e : entry) : s_entry :=
  {| se_value := canon_value (e_value e);
     se_first := match e_summary e with
                 | [] => None
                 | f :: _ => match f with [] => None | _ => Some (utf8_decode f) end
                 end;
     se_more := map utf8_decode (tl (e_summary e)) |}.

Definition canon_record (r : record) : s_record :=
  {| sr_date := canon_date (rec_date r);
     sr_should := if should_minutes r =? 0 then None else Some (O, canon_dur (mk_dur (should_minutes r)));
     sr_trail := [];
     sr_summary := map utf8_decode (rec_summary r);
     sr_indent := I4;
     sr_entries := map canon_entry (rec_entries r) |}.

Fixpoint canon_records (rs : list record) : list (s_record * list text) :=
  match rs with
  | [] => []
  | [r] => [(canon_record r, [])]
  | r :: rest => (canon_record r, [[]]) :: canon_records rest
  end.

Definition canon (rs : list record) : s_doc :=
  {| do_lead := []; do_records := canon_records rs; do_crlf := fun _ => false; do_final_newline := true |}.

(* what survives printing: a should-total of zero is printed as absent; an entry without summary lines reads
   back as an entry with one empty summary line *)
Definition normalise_entry (e : entry) : entry :=
  {| e_value := e_value e; e_summary := match e_summary e with [] => [[]] | s => s end |}.
Definition normalise_record (r : record) : record :=
  {| rec_date := rec_date r;
     rec_should := if should_minutes r =? 0 then None else rec_should r;
     rec_summary := rec_summary r;
     rec_entries := map normalise_entry (rec_entries r) |}.
Definition normalise (rs : list record) : list record := map normalise_record rs.

(* ---------- well-formed records (the guard of the print theorems, C09) ---------- *)

Definition time_ok (t : time) : bool :=
  (0 <=? t_hour t) && (t_hour t <=? 23) && (0 <=? t_min t) && (t_min t <=? 59) && (-1 <=? t_shift t) && (t_shift t <=? 1).

(* the notation flags of a duration are those its own printed form shows *)
Definition duration_flags_ok (d : duration) : bool :=
  if d_mins d =? 0
  then (-1 <=? d_zsign d) && (d_zsign d <=? 1) && Bool.eqb (d_plus d) (0 <? d_zsign d)
  else (d_zsign d =? 0) && (if d_mins d <? 0 then negb (d_plus d) else true).

Definition fits_int64 (m : Z) : bool := (-9223372036854775807 <=? m) && (m <=? 9223372036854775807).

Definition value_ok (v : evalue) : bool :=
  match v with
  | VDuration d => fits_int64 (d_mins d) && duration_flags_ok d
  | VRange r => time_ok (r_start r) && time_ok (r_end r) && (time_offset (r_start r) <=? time_offset (r_end r))
  | VOpen o => time_ok (o_start o)
  end.

(* a summary line held in a record: well-formed UTF-8 without a linefeed *)
Definition bytes_line_ok (s : bytes) : bool := bytes_eqb (utf8_encode (utf8_decode s)) s && text_ok (utf8_decode s).

Definition entry_ok (e : entry) : bool :=
  value_ok (e_value e)
  && match e_summary e with
     | [] => true
     | f :: more => bytes_line_ok f && forallb (fun s => bytes_line_ok s && negb (all_blank (utf8_decode s))) more
     end.

Definition record_ok (r : record) : bool :=
  valid_cdate (dt (rec_date r))
  && fits_int64 (should_minutes r)
  && forallb (fun s => bytes_line_ok s && summary_line_ok (utf8_decode s)) (rec_summary r)
  && forallb entry_ok (rec_entries r)
  && (length (filter is_open (rec_entries r)) <=? 1)%nat.

Definition wf_records (rs : list record) : Prop := forallb record_ok rs = true.

(* no summary line ends in a carriage return (printing such a line and reading it back loses the CR: finding K2) *)
Definition no_cr (s : bytes) : bool := negb (ends_in_cr s).
Definition no_trailing_cr (rs : list record) : bool :=
  forallb (fun r => forallb no_cr (rec_summary r) && forallb (fun e => forallb no_cr (e_summary e)) (rec_entries r)) rs.

(* ---------- raw documents and fault injection (the rejection half of C01) ---------- *)

(* a document whose record places hold arbitrary non-blank lines *)
Record r_doc := {
  rd_lead : list text;
  rd_groups : list (list text * list text);      (* (lines of a would-be record, blank lines after it) *)
  rd_crlf : nat -> bool;
  rd_final_newline : bool
}.

Definition raw_texts (rd : r_doc) : list text := rd_lead rd ++ flat_map (fun g => fst g ++ snd g) (rd_groups rd).
Definition raw_doc_lines (rd : r_doc) : list line := attach (rd_crlf rd) (rd_final_newline rd) 0 (raw_texts rd).
Definition render_raw (rd : r_doc) : bytes := text_of_lines (raw_doc_lines rd).

Definition raw_of (d : s_doc) : r_doc :=
  {| rd_lead := do_lead d; rd_groups := map (fun rg => (record_texts (fst rg), snd rg)) (do_records d);
     rd_crlf := do_crlf d; rd_final_newline := do_final_newline d |}.

Fixpoint raw_gaps_ok (gs : list (list text * list text)) : bool :=
  match gs with
  | [] => true
  | [g] => forallb blank_text (snd g)
  | g :: rest => forallb blank_text (snd g) && negb (Nat.eqb (length (snd g)) 0) && raw_gaps_ok rest
  end.

(* the layout is that of a document: blank lines where blank lines belong, non-blank lines in the record places,
   every line a line (no linefeed inside, unambiguous ending) *)
Definition raw_ok (rd : r_doc) : bool :=
  forallb blank_text (rd_lead rd)
  && forallb text_ok (raw_texts rd)
  && forallb (fun g => negb (Nat.eqb (length (fst g)) 0) && forallb (fun t => negb (blank_text t)) (fst g)) (rd_groups rd)
  && raw_gaps_ok (rd_groups rd)
  && forallb line_unambiguous (raw_doc_lines rd).

Fixpoint replace_nth {A} (n : nat) (x : A) (l : list A) : list A :=
  match l, n with
  | [], _ => []
  | _ :: r, O => x :: r
  | y :: r, S k => y :: replace_nth k x r
  end.

(* replace line j (0 = headline) of record k by the text t *)
Definition inject_raw (k j : nat) (t : text) (d : s_doc) : r_doc :=
  let rd := raw_of d in
  {| rd_lead := rd_lead rd;
     rd_groups := match nth_error (rd_groups rd) k with
                  | Some g => replace_nth k (replace_nth j t (fst g), snd g) (rd_groups rd)
                  | None => rd_groups rd
                  end;
     rd_crlf := rd_crlf rd; rd_final_newline := rd_final_newline rd |}.

Definition inject (k j : nat) (t : text) (d : s_doc) : bytes := render_raw (inject_raw k j t d).
