(* SpecFaultLines — document level of the fault classes: a faulted document is rejected AND its first reported error is
   on the faulted line (C10 first_error_at_fault; the C01 rejection theorems of these classes are corollaries). *)
From Klog Require Import Base.Prelude Base.Utf8 Model.Calendar Model.Values Model.Record Model.Lines Model.Parser
  Proofs.TagsUtf8 Spec.Spec Spec.SpecInject Proofs.SpecValues Proofs.SpecEntry Proofs.SpecRecord Proofs.SpecDoc
  Proofs.SpecReject Proofs.SpecFaults.
From Coq Require Import ZifyBool.
Open Scope Z_scope.

(* ================= the first error of a document ================= *)

Definition sig_parses (ts : list text) : Prop :=
  forall b head sig tail, b_lines b = head ++ sig ++ tail ->
  forallb is_blank head = true -> forallb is_blank tail = true ->
  map l_text sig = map utf8_encode ts -> exists r, parse_record b = Ok (inl r).

Lemma parse_blocks_first_err gs tgs : Forall2 raw_group_of gs tgs -> groups_ok gs = true ->
  forall k tg j, nth_error tgs k = Some tg ->
  Forall (fun tg => sig_parses (fst tg)) (firstn k tgs) -> sig_fails_at (fst tg) j ->
  forall p head rs, forallb is_blank head = true ->
  exists rs' e es', parse_blocks (expect_blocks p head gs) rs [] = Ok (rs', e :: es')
    /\ re_line e = (p + length head + length (flat_map group_lines (firstn k gs)) + j)%nat.
Proof.
  intros F. induction F as [|g tg0 gs tgs [Hs Hg] F IH]; intros Gok k tg j Hk Hpre Hf p head rs Hh.
  - destruct k; discriminate.
  - destruct (groups_ok_cons g gs Gok) as [Hg1 Hgs]. cbn [expect_blocks parse_blocks].
    assert (Cb : forallb is_blank (snd g) = true) by (apply group_ok_inv in Hg1 as (_ & _ & C & _); exact C).
    destruct k as [|k].
    + cbn [nth_error] in Hk. injection Hk as <-.
      destruct (Hf {| b_preceding := p; b_lines := head ++ fst g ++ snd g |} head (fst g) (snd g) eq_refl Hh Cb Hs)
        as (errs & P & (e0 & rest0 & -> & He0)).
      rewrite P. cbn [map app].
      destruct (parse_blocks_total _ (expect_blocks_total gs Hgs (p + length (head ++ fst g ++ snd g)) [] eq_refl) rs
                  (report {| b_preceding := p; b_lines := head ++ fst g ++ snd g |} e0
                   :: map (report {| b_preceding := p; b_lines := head ++ fst g ++ snd g |}) rest0))
        as (rs' & es' & P' & [x ->] & _).
      exists rs'. eexists. eexists. split; [exact P'|].
      cbn [report re_line firstn flat_map length]. rewrite He0. unfold overall_line_index. cbn [b_preceding]. lia.
    + cbn [nth_error firstn] in Hk, Hpre. inversion Hpre as [|? ? Hp0 Hpre']; subst.
      destruct (Hp0 {| b_preceding := p; b_lines := head ++ fst g ++ snd g |} head (fst g) (snd g) eq_refl Hh Cb Hs) as [r P].
      rewrite P.
      destruct (IH Hgs k tg j Hk Hpre' Hf (p + length (head ++ fst g ++ snd g))%nat [] (rs ++ [r]) eq_refl)
        as (rs' & e & es' & P' & He).
      exists rs', e, es'. split; [exact P'|]. rewrite He.
      cbn [firstn flat_map length]. unfold group_lines at 2. rewrite !app_length. cbn [length]. lia.
Qed.

Lemma group_lengths gs tgs : Forall2 raw_group_of gs tgs -> forall k,
  length (flat_map group_lines (firstn k gs)) = length (flat_map (fun g => fst g ++ snd g) (firstn k tgs)).
Proof.
  induction 1 as [|g tg gs tgs [Hs Hg] F IH]; intros k; [destruct k; reflexivity|].
  destruct k as [|k]; [reflexivity|]. cbn [firstn flat_map]. unfold group_lines at 1. rewrite !app_length, (IH k).
  rewrite <- (map_length l_text (fst g)), Hs, map_length, <- (map_length l_text (snd g)), Hg, map_length. reflexivity.
Qed.

(* general form: the groups before the k-th are records, the k-th makes its block fail with its first error on line j *)
Theorem reject_raw_at rd k tg j : raw_ok rd = true -> nth_error (rd_groups rd) k = Some tg ->
  Forall (fun tg => sig_parses (fst tg)) (firstn k (rd_groups rd)) -> sig_fails_at (fst tg) j ->
  exists e es, parse_text (render_raw rd) = Ok (Failed (e :: es))
    /\ re_line e = (length (rd_lead rd) + length (flat_map (fun g => fst g ++ snd g) (firstn k (rd_groups rd))) + j)%nat.
Proof.
  intros W Hk Hpre Hf. unfold raw_ok in W. apply andb_true_iff in W as [W U]. apply andb_true_iff in W as [W G].
  apply andb_true_iff in W as [W Sg]. apply andb_true_iff in W as [Wl T].
  unfold parse_text, blocks_of, render_raw.
  rewrite (lines_of_text_of_lines (raw_doc_lines rd)) by (apply lines_ok_attach; assumption).
  pose proof (map_l_text_attach (rd_crlf rd) (rd_final_newline rd) (raw_texts rd) 0) as M. fold (raw_doc_lines rd) in M.
  unfold raw_texts in M. rewrite map_app in M. apply map_eq_app in M as (Llead & L2 & EL & Ml & M2).
  destruct (split_raw_groups (rd_groups rd) L2 M2) as (gs & -> & F).
  rewrite EL. unfold blocks_of_lines.
  assert (Hlead : forallb is_blank Llead = true) by (apply (blank_lines_of_texts _ _ Ml Wl)).
  pose proof (raw_groups_ok gs _ F Sg G) as Gok.
  rewrite (blocks_fuel_groups gs Gok _ 0 Llead Hlead (le_n _)).
  unfold parse_lines_blocks.
  destruct (parse_blocks_first_err gs _ F Gok k tg j Hk Hpre Hf 0%nat Llead [] Hlead) as (rs' & e & es' & P & He).
  rewrite P. exists e, es'. split; [reflexivity|]. rewrite He, (group_lengths gs _ F k).
  rewrite <- (map_length l_text Llead), Ml, map_length. reflexivity.
Qed.

(* ================= injections into a well-formed document ================= *)

Lemma wf_doc_records d : wf d -> forallb (fun rg => wf_record (fst rg)) (do_records d) = true /\ gaps_ok (do_records d) = true.
Proof.
  unfold wf, wf_doc. intros W. apply andb_true_iff in W as [W _]. apply andb_true_iff in W as [W G]. apply andb_true_iff in W as [_ Wr].
  split; assumption.
Qed.

Lemma record_sig_parses r : wf_record r = true -> sig_parses (record_texts r).
Proof. intros W b head sig tail Hb Hh Ht M. eexists. apply (parse_record_spec r b head sig tail W Hb Hh Ht M). Qed.

Definition raw_group (rg : s_record * list text) : list text * list text := (record_texts (fst rg), snd rg).

Lemma In_firstn {A} k (l : list A) x : In x (firstn k l) -> In x l.
Proof. revert l. induction k as [|k IH]; intros l H; [destruct H|]. destruct l as [|y l]; [destruct H|]. destruct H as [->|H]; [left; reflexivity|right; apply IH, H]. Qed.

Lemma prefix_parses d k : wf d -> Forall (fun tg => sig_parses (fst tg)) (firstn k (map raw_group (do_records d))).
Proof.
  intros W. destruct (wf_doc_records d W) as [Wr _]. rewrite firstn_map. apply Forall_forall. intros tg Hin.
  apply in_map_iff in Hin as (rg & <- & Hin). cbn [raw_group fst]. apply record_sig_parses.
  rewrite forallb_forall in Wr. apply Wr. eapply (In_firstn k). exact Hin.
Qed.

Lemma firstn_replace_nth {A} k (x : A) l : firstn k (replace_nth k x l) = firstn k l.
Proof. revert k. induction l as [|y l IH]; intros k; [destruct k; reflexivity|]. destruct k as [|k]; [reflexivity|]. cbn [replace_nth firstn]. rewrite IH. reflexivity. Qed.

Lemma flat_map_map_f {A B C} (f : B -> list C) (g : A -> B) l : flat_map f (map g l) = flat_map (fun x => f (g x)) l.
Proof. induction l as [|x l IH]; [reflexivity|]. cbn [map flat_map]. rewrite IH. reflexivity. Qed.

Lemma fault_line_groups d k j :
  (length (do_lead d) + length (flat_map (fun g => fst g ++ snd g) (firstn k (map raw_group (do_records d)))) + j)%nat = fault_line d k j.
Proof. unfold fault_line. rewrite firstn_map, flat_map_map_f. reflexivity. Qed.

Lemma In_replace_nth {A} j (x : A) l : (j < length l)%nat -> In x (replace_nth j x l).
Proof.
  revert j. induction l as [|y l IH]; intros j H; [cbn in H; lia|]. destruct j as [|j]; [left; reflexivity|].
  right. apply IH. cbn [length] in H. lia.
Qed.

(* a single-line injection: line j of record k replaced by t *)
Lemma inject_at d k rg j t j' : wf d -> nth_error (do_records d) k = Some rg ->
  raw_ok (inject_raw k j t d) = true ->
  sig_fails_at (replace_nth j t (record_texts (fst rg))) j' ->
  exists e es, parse_text (inject k j t d) = Ok (Failed (e :: es)) /\ re_line e = fault_line d k j'.
Proof.
  intros W Hk Rok Hf.
  pose proof (map_nth_error raw_group k (do_records d) Hk) as Hk'.
  destruct (reject_raw_at (inject_raw k j t d) k (replace_nth j t (record_texts (fst rg)), snd rg) j' Rok) as (e & es & P & He).
  - rewrite (inject_group k j t d rg Hk). apply (nth_error_replace_nth _ k _ _ Hk').
  - rewrite (inject_group k j t d rg Hk). change (fun rg0 : s_record * list text => (record_texts (fst rg0), snd rg0)) with raw_group.
    rewrite firstn_replace_nth. apply prefix_parses. exact W.
  - exact Hf.
  - exists e, es. split; [exact P|]. rewrite He. rewrite (inject_group k j t d rg Hk).
    change (fun rg0 : s_record * list text => (record_texts (fst rg0), snd rg0)) with raw_group.
    rewrite firstn_replace_nth. apply fault_line_groups.
Qed.

Lemma injected_facts d k rg j t : nth_error (do_records d) k = Some rg -> raw_ok (inject_raw k j t d) = true ->
  (j < length (record_texts (fst rg)))%nat ->
  text_ok t = true /\ forallb (fun t => negb (blank_text t)) (replace_nth j t (record_texts (fst rg))) = true.
Proof.
  intros Hk Rok Hj.
  pose proof (map_nth_error raw_group k (do_records d) Hk) as Hk'.
  unfold raw_ok in Rok. apply andb_true_iff in Rok as [W' _]. apply andb_true_iff in W' as [W' _].
  apply andb_true_iff in W' as [W' Sg]. apply andb_true_iff in W' as [_ T].
  rewrite (inject_group k j t d rg Hk) in Sg.
  pose proof (forallb_nth_error _ _ k _ Sg (nth_error_replace_nth _ k _ _ Hk')) as Sk.
  cbn [fst] in Sk. apply andb_true_iff in Sk as [_ Nb]. split; [|exact Nb].
  unfold raw_texts in T. rewrite forallb_app in T. apply andb_true_iff in T as [_ T].
  rewrite forallb_forall in T. apply T. apply in_flat_map.
  exists (replace_nth j t (record_texts (fst rg)), snd rg). split.
  - rewrite (inject_group k j t d rg Hk). eapply nth_error_In. apply (nth_error_replace_nth _ k _ _ Hk').
  - cbn [fst snd]. apply in_or_app. left. apply In_replace_nth. exact Hj.
Qed.

Lemma wf_record_nth d k rg : wf d -> nth_error (do_records d) k = Some rg -> wf_record (fst rg) = true.
Proof. intros W Hk. destruct (wf_doc_records d W) as [Wr _]. apply (forallb_nth_error _ _ k rg Wr Hk). Qed.

Lemma record_texts_length_entries r es1 e es2 : sr_entries r = es1 ++ e :: es2 ->
  (entry_line_index r es1 < length (record_texts r))%nat.
Proof.
  intros Ee. unfold record_texts, entry_line_index. rewrite Ee, flat_map_app. cbn [length flat_map].
  rewrite !app_length.
  assert (1 <= length (entry_texts (indent_text (sr_indent r)) e))%nat by (unfold entry_texts; cbn [length]; lia). lia.
Qed.

(* ---- (a) text after the headline ---- *)
Theorem first_error_headline_text d k rg c x : wf d -> nth_error (do_records d) k = Some rg ->
  is_space_or_tab c = false ->
  match sr_should (fst rg) with Some _ => True | None => sr_trail (fst rg) <> [] /\ (c =? ch_lpar)%N = false end ->
  let t := headline_text (fst rg) ++ c :: x in
  raw_ok (inject_raw k 0 t d) = true ->
  exists e es, parse_text (inject k 0 t d) = Ok (Failed (e :: es)) /\ re_line e = fault_line d k 0.
Proof.
  intros W Hk Hc Hsep t Rok. pose proof (wf_record_nth d k rg W Hk) as Wr.
  destruct (injected_facts d k rg 0 t Hk Rok ltac:(unfold record_texts; cbn [length]; lia)) as [Tok Nb].
  apply (inject_at d k rg 0 t 0 W Hk Rok). unfold record_texts in *. cbn [replace_nth] in *.
  apply headline_text_at; try assumption.
  unfold t in Tok. rewrite text_ok_app in Tok. apply andb_true_iff in Tok as [_ Tok]. exact Tok.
Qed.

(* ---- malformed / non-Gregorian date ---- *)
Theorem first_error_bad_date d k rg dtxt : wf d -> nth_error (do_records d) k = Some rg ->
  let t := dtxt ++ skipn 10 (headline_text (fst rg)) in
  raw_ok (inject_raw k 0 t d) = true ->
  match dtxt with c :: _ => is_space_or_tab c = false | [] => False end ->
  forallb (fun c => negb (is_space_or_tab c)) dtxt = true ->
  (forall x, parse_date (utf8_encode dtxt) <> Ok x) ->
  match skipn 10 (headline_text (fst rg)) with c :: _ => is_space_or_tab c = true | [] => True end ->
  exists e es, parse_text (inject k 0 t d) = Ok (Failed (e :: es)) /\ re_line e = fault_line d k 0.
Proof.
  intros W Hk t Rok Hd0 Hd Hp Hr.
  destruct (injected_facts d k rg 0 t Hk Rok ltac:(unfold record_texts; cbn [length]; lia)) as [Tok Nb].
  apply (inject_at d k rg 0 t 0 W Hk Rok). unfold record_texts in *. cbn [replace_nth] in *.
  apply bad_date_at; assumption.
Qed.

(* ---- faults on an entry line ---- *)

Section EntryFaultAt.
  Variables (d : s_doc) (k : nat) (rg : s_record * list text) (es1 : list s_entry) (e : s_entry) (es2 : list s_entry) (t : text).
  Hypothesis W : wf d.
  Hypothesis Hk : nth_error (do_records d) k = Some rg.
  Hypothesis Ee : sr_entries (fst rg) = es1 ++ e :: es2.
  Let r := fst rg.
  Let ind := indent_text (sr_indent r).
  Let j := entry_line_index r es1.
  Let others := map (fun x => ind ++ ind ++ x) (se_more e) ++ flat_map (entry_texts ind) es2.
  Hypothesis Rok : raw_ok (inject_raw k j t d) = true.

  Lemma entries_split_wf : forallb wf_entry es1 = true /\ (count_open es1 <= 1)%nat /\ wf_entry e = true /\ forallb wf_entry es2 = true.
  Proof.
    destruct (wf_record_inv r (wf_record_nth d k rg W Hk)) as (_ & _ & _ & _ & H0 & H).
    fold r in Ee. rewrite Ee in H0, H. rewrite forallb_app in H0. apply andb_true_iff in H0 as [H01 H02].
    cbn [forallb] in H02. apply andb_true_iff in H02 as [He H02].
    unfold count_open in *. rewrite filter_app, app_length in H. repeat split; try assumption. lia.
  Qed.

  Lemma injected_entry_facts : text_ok t = true /\
    forallb (fun t => negb (blank_text t)) (headline_text r :: sr_summary r ++ flat_map (entry_texts ind) es1 ++ t :: others) = true.
  Proof.
    destruct (injected_facts d k rg j t Hk Rok (record_texts_length_entries r es1 e es2 Ee)) as [Tok Nb].
    split; [exact Tok|]. fold r in Nb. unfold j in Nb. rewrite (record_texts_split r es1 e es2 t Ee) in Nb. exact Nb.
  Qed.

  Lemma entry_fault_at :
    has_prefix (ind ++ ind) (utf8_encode t) = false ->
    (es1 = [] -> find_indentation (utf8_encode t) = Some ind) ->
    line_errs_at ind (map denote_entry es1) t others ->
    exists e0 es, parse_text (inject k j t d) = Ok (Failed (e0 :: es)) /\ re_line e0 = fault_line d k j.
  Proof.
    intros Hnd Hfirst Herr. destruct entries_split_wf as (H01 & Ho1 & _). destruct injected_entry_facts as [Tok Nb].
    apply (inject_at d k rg j t j W Hk Rok). fold r. unfold j at 1. rewrite (record_texts_split r es1 e es2 t Ee).
    apply (entry_line_at r es1 t others (wf_record_nth d k rg W Hk) H01 Ho1 Hnd Hfirst Herr Nb).
  Qed.

  (* (b) wrong or mixed indentation of an entry line that is not the record's first indented line: the line does not
     begin with the record's style, or has a further blank after it — but does not begin with style+style, which
     would make it a (legal) continuation line of the entry before *)
  Lemma indent_later_at : es1 <> [] ->
    has_prefix (ind ++ ind) (utf8_encode t) = false ->
    has_prefix ind (utf8_encode t) = false \/ is_space_or_tab (peek t (length ind)) = true ->
    exists e0 es, parse_text (inject k j t d) = Ok (Failed (e0 :: es)) /\ re_line e0 = fault_line d k j.
  Proof.
    intros Hne Hnd Hbad. destruct injected_entry_facts as [Tok _].
    apply entry_fault_at; [exact Hnd|intros E; congruence|apply indent_errs_at; assumption].
  Qed.

  (* (c), (d) a value text on which parse_entry_value reports an error, written after the record's indentation *)
  Lemma bad_value_at c x : t = ind ++ c :: x -> is_space_or_tab c = false -> (c <? 128)%N = true ->
    (forall ln, exists e0, parse_entry_value ln t (length ind) = EvErr e0) ->
    exists e0 es, parse_text (inject k j t d) = Ok (Failed (e0 :: es)) /\ re_line e0 = fault_line d k j.
  Proof.
    intros Et Hc Hasc Herr. destruct injected_entry_facts as [Tok _].
    assert (Eb : utf8_encode t = ind ++ c :: utf8_encode x).
    { rewrite Et. unfold ind. rewrite utf8_encode_app, (utf8_encode_ascii _ (indent_ascii _)), (encode_cons_ascii _ _ Hasc). reflexivity. }
    apply entry_fault_at.
    - rewrite Eb, has_prefix_app_same. apply has_prefix_indent_head. exact Hc.
    - intros _. rewrite Eb. apply find_indentation_entry. exact Hc.
    - apply everr_errs_at; assumption.
  Qed.
End EntryFaultAt.

(* (b) the record's first indented line: its indentation is no style at all (it starts with a blank character but
   find_indentation finds nothing: one space, a Zs character), or it is a style followed by a further blank *)
Theorem first_error_indent_first d k rg e es2 t : wf d -> nth_error (do_records d) k = Some rg ->
  sr_entries (fst rg) = e :: es2 ->
  let j := entry_line_index (fst rg) [] in
  raw_ok (inject_raw k j t d) = true ->
  (match t with c :: _ => blank_char c = true | [] => False end /\ find_indentation (utf8_encode t) = None)
  \/ (exists st, find_indentation (utf8_encode t) = Some st /\ is_space_or_tab (peek t (length st)) = true) ->
  exists e0 es, parse_text (inject k j t d) = Ok (Failed (e0 :: es)) /\ re_line e0 = fault_line d k j.
Proof.
  intros W Hk Ee j Rok Hbad. pose proof (wf_record_nth d k rg W Hk) as Wr.
  destruct (injected_entry_facts d k rg [] e es2 t Hk Ee Rok) as [Tok Nb]. cbn [flat_map app] in Nb.
  apply (inject_at d k rg j t j W Hk Rok). unfold j at 1. rewrite (record_texts_split (fst rg) [] e es2 t Ee). cbn [flat_map app].
  unfold j, entry_line_index. cbn [flat_map length]. rewrite Nat.add_0_r.
  destruct (wf_record_inv _ Wr) as (_ & _ & _ & H1 & _).
  destruct Hbad as [[Hc Hfi]|(st & Hfi & Hbl)].
  - apply (blank_start_at (fst rg) (sr_summary (fst rg)) t _ Wr H1 Tok Hc Hfi Nb).
  - apply (first_indent_at (fst rg) st t _ Wr Tok Hfi Hbl Nb).
Qed.

Theorem first_error_indent_later d k rg es1 e es2 t : wf d -> nth_error (do_records d) k = Some rg ->
  sr_entries (fst rg) = es1 ++ e :: es2 -> es1 <> [] ->
  let ind := indent_text (sr_indent (fst rg)) in
  let j := entry_line_index (fst rg) es1 in
  raw_ok (inject_raw k j t d) = true ->
  has_prefix (ind ++ ind) (utf8_encode t) = false ->
  has_prefix ind (utf8_encode t) = false \/ is_space_or_tab (peek t (length ind)) = true ->
  exists e0 es, parse_text (inject k j t d) = Ok (Failed (e0 :: es)) /\ re_line e0 = fault_line d k j.
Proof. intros W Hk Ee Hne ind j Rok Hnd Hbad. apply (indent_later_at d k rg es1 e es2 t W Hk Ee Rok Hne Hnd Hbad). Qed.

Theorem first_error_bad_value d k rg es1 e es2 c x : wf d -> nth_error (do_records d) k = Some rg ->
  sr_entries (fst rg) = es1 ++ e :: es2 ->
  let ind := indent_text (sr_indent (fst rg)) in
  let t := ind ++ c :: x in
  let j := entry_line_index (fst rg) es1 in
  raw_ok (inject_raw k j t d) = true ->
  is_space_or_tab c = false -> (c <? 128)%N = true ->
  (forall ln, exists e0, parse_entry_value ln t (length ind) = EvErr e0) ->
  exists e0 es, parse_text (inject k j t d) = Ok (Failed (e0 :: es)) /\ re_line e0 = fault_line d k j.
Proof. intros W Hk Ee ind t j Rok Hc Ha Herr. apply (bad_value_at d k rg es1 e es2 t W Hk Ee Rok c x eq_refl Hc Ha Herr). Qed.

Theorem first_error_bad_value_txt d k rg es1 e es2 txt : wf d -> nth_error (do_records d) k = Some rg ->
  sr_entries (fst rg) = es1 ++ e :: es2 ->
  let ind := indent_text (sr_indent (fst rg)) in
  let t := ind ++ txt in
  let j := entry_line_index (fst rg) es1 in
  raw_ok (inject_raw k j t d) = true ->
  match txt with c :: _ => is_space_or_tab c = false /\ (c <? 128)%N = true | [] => False end ->
  (forall ln, exists e0, parse_entry_value ln t (length ind) = EvErr e0) ->
  exists e0 es, parse_text (inject k j t d) = Ok (Failed (e0 :: es)) /\ re_line e0 = fault_line d k j.
Proof.
  intros W Hk Ee ind t j Rok Hh Herr. destruct txt as [|c x]; [contradiction|]. destruct Hh as [Hc Ha].
  apply (first_error_bad_value d k rg es1 e es2 c x W Hk Ee Rok Hc Ha Herr).
Qed.

Lemma time_head_ok s y : time_shape s = true -> ascii s = true ->
  match s ++ y with c :: _ => is_space_or_tab c = false /\ (c <? 128)%N = true | [] => False end.
Proof.
  intros Sh As. pose proof (time_shape_head _ Sh) as H. destruct s as [|c r]; [contradiction|].
  cbn [app]. cbn [ascii forallb] in As. apply andb_true_iff in As as [Hc _]. split; [apply H|exact Hc].
Qed.

Section ValueFamilies.
  Variables (d : s_doc) (k : nat) (rg : s_record * list text) (es1 : list s_entry) (e : s_entry) (es2 : list s_entry).
  Hypothesis W : wf d.
  Hypothesis Hk : nth_error (do_records d) k = Some rg.
  Hypothesis Ee : sr_entries (fst rg) = es1 ++ e :: es2.
  Let ind := indent_text (sr_indent (fst rg)).
  Let j := entry_line_index (fst rg) es1.
  Let conclusion (t : text) : Prop :=
    raw_ok (inject_raw k j t d) = true ->
    exists e0 es, parse_text (inject k j t d) = Ok (Failed (e0 :: es)) /\ re_line e0 = fault_line d k j.

  (* hour > 24, minute > 59, 24:01, 24:00>, 13:00pm, 0:30am ... as start time (or alone) *)
  Lemma family_bad_start st rest : time_fields_in_shape st = true -> wf_time st = false ->
    match rest with c :: _ => is_dash_or_space c = true | [] => True end ->
    conclusion (ind ++ render_time st ++ rest).
  Proof.
    intros F Wt Hr Rok. destruct (bad_time_facts st F Wt) as (Hp & Sh & Pl & _).
    apply (first_error_bad_value_txt d k rg es1 e es2 (render_time st ++ rest) W Hk Ee Rok).
    - apply time_head_ok; [exact Sh|apply plain_ascii; exact Pl].
    - intros ln. apply ev_bad_start; assumption.
  Qed.

  (* missing dash: `8:00 9:00`, `8:00` alone *)
  Lemma family_no_dash a sp1 rest : wf_time a = true ->
    match rest with c :: _ => is_space c = false /\ (c =? ch_minus)%N = false | [] => True end ->
    (sp1 = 0%nat -> rest = []) ->
    conclusion (ind ++ render_time a ++ spaces sp1 ++ rest).
  Proof.
    intros Wa Hr H0 Rok.
    apply (first_error_bad_value_txt d k rg es1 e es2 (render_time a ++ spaces sp1 ++ rest) W Hk Ee Rok).
    - apply time_head_ok; [apply render_time_shape; exact Wa|apply render_time_ascii; exact Wa].
    - intros ln. apply ev_no_dash; assumption.
  Qed.

  (* missing end time (s' empty), malformed or out-of-range end time, shifted placeholder `<?` *)
  Lemma family_bad_end a sp1 sp2 s' tail : wf_time a = true ->
    forallb (fun c => negb (is_space_or_tab c)) s' = true ->
    match tail with c :: _ => is_space_or_tab c = true | [] => True end ->
    match s' ++ tail with c :: _ => is_space c = false /\ (c =? ch_q)%N = false | [] => True end ->
    (forall t, parse_time (utf8_encode s') <> Ok t) ->
    conclusion (ind ++ render_time a ++ spaces sp1 ++ [45%N] ++ spaces sp2 ++ s' ++ tail).
  Proof.
    intros Wa Hs Ht Hh Hp Rok.
    apply (first_error_bad_value_txt d k rg es1 e es2 (render_time a ++ spaces sp1 ++ [45%N] ++ spaces sp2 ++ s' ++ tail) W Hk Ee Rok).
    - apply time_head_ok; [apply render_time_shape; exact Wa|apply render_time_ascii; exact Wa].
    - intros ln. apply ev_bad_end; assumption.
  Qed.

  (* placeholder followed by something else than `?`: `?>`, `?x`, `??>` *)
  Lemma family_bad_placeholder a sp1 sp2 rep tail : wf_time a = true ->
    forallb (fun c => negb (is_space_or_tab c)) rep = true ->
    match tail with c :: _ => is_space_or_tab c = true | [] => True end ->
    forallb (fun c => (c =? ch_q)%N) rep = false ->
    conclusion (ind ++ render_time a ++ spaces sp1 ++ [45%N] ++ spaces sp2 ++ 63%N :: rep ++ tail).
  Proof.
    intros Wa Hs Ht Hq Rok.
    apply (first_error_bad_value_txt d k rg es1 e es2 (render_time a ++ spaces sp1 ++ [45%N] ++ spaces sp2 ++ 63%N :: rep ++ tail) W Hk Ee Rok).
    - apply time_head_ok; [apply render_time_shape; exact Wa|apply render_time_ascii; exact Wa].
    - intros ln. apply ev_bad_placeholder; assumption.
  Qed.

  (* `1h60m` *)
  Lemma family_dur60 du tail : dur_minutes_overflow du = true -> tail_ok tail ->
    conclusion (ind ++ render_dur du ++ tail).
  Proof.
    intros Hd T Rok.
    apply (first_error_bad_value_txt d k rg es1 e es2 (render_dur du ++ tail) W Hk Ee Rok).
    - unfold dur_minutes_overflow in Hd. unfold render_dur.
      destruct (du_h du) as [hs|]; [|discriminate]. destruct (du_m du) as [ms|]; [|discriminate].
      apply andb_true_iff in Hd as [Hd _]. apply andb_true_iff in Hd as [Hd _]. apply andb_true_iff in Hd as [Hoh _].
      destruct (integer_ok_inv _ Hoh) as [Nh Dh]. destruct hs as [|h0 hs']; [congruence|].
      cbn [forallb] in Dh. apply andb_true_iff in Dh as [Dh0 _]. unfold is_digit in Dh0.
      destruct (du_sign du); cbn [app]; unfold is_space_or_tab; split; lia.
    - intros ln. apply ev_dur60; assumption.
  Qed.

  (* reversed range *)
  Lemma family_reversed a sp1 sp2 b tail : wf_time a = true -> wf_time b = true -> timeline b < timeline a -> tail_ok tail ->
    conclusion (ind ++ render_value (SRange a sp1 sp2 b) ++ tail).
  Proof.
    intros Wa Wb Hab T Rok.
    apply (first_error_bad_value_txt d k rg es1 e es2 (render_value (SRange a sp1 sp2 b) ++ tail) W Hk Ee Rok).
    - cbn [render_value]. rewrite <- app_assoc. apply time_head_ok; [apply render_time_shape; exact Wa|apply render_time_ascii; exact Wa].
    - intros ln. apply parse_entry_value_reversed; assumption.
  Qed.

  (* second open range *)
  Lemma family_second_open a sp1 sp2 extra tail : count_open es1 <> 0%nat -> wf_time a = true -> tail_ok tail -> text_ok tail = true ->
    conclusion (ind ++ render_value (SOpen a sp1 sp2 extra) ++ tail).
  Proof.
    intros Ho Wa T Tt Rok.
    destruct (entries_split_wf d k rg es1 e es2 _ W Hk Ee Rok) as (_ & _ & We & W2).
    destruct (entry_value_line_shape (sr_indent (fst rg)) (SOpen a sp1 sp2 extra) tail Wa Tt) as (Tok & (c & x & Eb & Hc) & _).
    apply (entry_fault_at d k rg es1 e es2 _ W Hk Ee Rok).
    - fold ind in Eb. rewrite Eb, has_prefix_app_same. apply has_prefix_indent_head. exact Hc.
    - intros _. fold ind in Eb. rewrite Eb. apply find_indentation_entry. exact Hc.
    - apply second_open_at; try assumption.
      + rewrite has_open_denote. destruct (count_open es1); [congruence|reflexivity].
      + unfold wf_entry in We. apply andb_true_iff in We as [_ Wm]. exact Wm.
  Qed.
End ValueFamilies.

(* ---- a record summary line that starts with a blank character ---- *)
Theorem first_error_blank_summary d k rg s1 s s2 t : wf d -> nth_error (do_records d) k = Some rg ->
  sr_summary (fst rg) = s1 ++ s :: s2 ->
  match t with c :: _ => blank_char c = true | [] => False end ->
  find_indentation (utf8_encode t) = None ->
  raw_ok (inject_raw k (summary_line_index s1) t d) = true ->
  exists e0 es, parse_text (inject k (summary_line_index s1) t d) = Ok (Failed (e0 :: es))
    /\ re_line e0 = fault_line d k (summary_line_index s1).
Proof.
  intros W Hk Es Hc Hfi Rok. pose proof (wf_record_nth d k rg W Hk) as Wr.
  assert (Esplit : replace_nth (summary_line_index s1) t (record_texts (fst rg))
           = headline_text (fst rg) :: s1 ++ t :: (s2 ++ flat_map (entry_texts (indent_text (sr_indent (fst rg)))) (sr_entries (fst rg)))).
  { unfold record_texts, summary_line_index. rewrite Es. cbn [replace_nth]. f_equal.
    rewrite <- app_assoc. cbn [app]. apply replace_nth_app. }
  assert (Hlen : (summary_line_index s1 < length (record_texts (fst rg)))%nat).
  { unfold record_texts, summary_line_index. rewrite Es. cbn [length]. rewrite !app_length. cbn [length]. lia. }
  destruct (injected_facts d k rg _ t Hk Rok Hlen) as [Tok Nb].
  apply (inject_at d k rg _ t _ W Hk Rok).
  change (forallb (fun t => negb (blank_text t)) (replace_nth (summary_line_index s1) t (record_texts (fst rg))) = true) in Nb.
  change (sig_fails_at (replace_nth (summary_line_index s1) t (record_texts (fst rg))) (summary_line_index s1)).
  rewrite Esplit in Nb |- *.
  destruct (wf_record_inv _ Wr) as (_ & _ & _ & H1 & _). rewrite Es, forallb_app in H1. apply andb_true_iff in H1 as [H11 _].
  apply (blank_start_at (fst rg) s1 t _ Wr H11 Tok Hc Hfi Nb).
Qed.

(* ================= (e) a blank line inside a record, (f) stray text ================= *)

Lemma nth_error_after_firstn {A} k (G : list A) x y : (k <= length G)%nat -> nth_error (firstn k G ++ x :: y) k = Some x.
Proof.
  intros H. rewrite nth_error_app2 by (rewrite firstn_length; lia). rewrite firstn_length, Nat.min_l by exact H.
  rewrite Nat.sub_diag. reflexivity.
Qed.

Lemma firstn_after_firstn {A} k (G : list A) y : (k <= length G)%nat -> firstn k (firstn k G ++ y) = firstn k G.
Proof.
  intros H. rewrite firstn_app, firstn_length, Nat.min_l by exact H. rewrite Nat.sub_diag. cbn [firstn].
  rewrite app_nil_r, firstn_firstn, Nat.min_id. reflexivity.
Qed.

Lemma firstn_plus_firstn {A} k n (G : list A) y : (k <= length G)%nat ->
  firstn (k + n) (firstn k G ++ y) = firstn k G ++ firstn n y.
Proof.
  intros H. rewrite firstn_app, firstn_length, Nat.min_l by exact H.
  rewrite firstn_all2 by (rewrite firstn_length; lia). f_equal. f_equal. lia.
Qed.

Lemma raw_ok_inv rd : raw_ok rd = true ->
  forallb text_ok (raw_texts rd) = true /\ forallb sig_ok (rd_groups rd) = true.
Proof.
  unfold raw_ok. intros W. apply andb_true_iff in W as [W _]. apply andb_true_iff in W as [W _].
  apply andb_true_iff in W as [W Sg]. apply andb_true_iff in W as [_ T]. split; assumption.
Qed.

Lemma group_texts_ok rd tg : raw_ok rd = true -> In tg (rd_groups rd) ->
  forallb text_ok (fst tg) = true /\ forallb (fun t => negb (blank_text t)) (fst tg) = true.
Proof.
  intros W Hin. destruct (raw_ok_inv rd W) as [T Sg]. split.
  - unfold raw_texts in T. rewrite forallb_app in T. apply andb_true_iff in T as [_ T].
    rewrite forallb_forall in T |- *. intros t Ht. apply T. apply in_flat_map. exists tg. split; [exact Hin|apply in_or_app; left; exact Ht].
  - rewrite forallb_forall in Sg. specialize (Sg tg Hin). unfold sig_ok in Sg. apply andb_true_iff in Sg as [_ Sg]. exact Sg.
Qed.

Theorem first_error_blank_inside d k rg es1 e es2 bl : wf d -> nth_error (do_records d) k = Some rg ->
  sr_entries (fst rg) = es1 ++ e :: es2 ->
  let j := entry_line_index (fst rg) es1 in
  raw_ok (inject_blank_raw k j bl d) = true ->
  exists e0 es, parse_text (inject_blank k j bl d) = Ok (Failed (e0 :: es)) /\ re_line e0 = S (fault_line d k j).
Proof.
  intros W Hk Ee j Rok. pose proof (wf_record_nth d k rg W Hk) as Wr.
  pose proof (map_nth_error raw_group k (do_records d) Hk) as Hk'.
  assert (Hklt : (k < length (map raw_group (do_records d)))%nat) by (apply nth_error_Some; congruence).
  set (T := record_texts (fst rg)).
  assert (EG : rd_groups (inject_blank_raw k j bl d)
               = firstn k (map raw_group (do_records d)) ++ (firstn j T, [bl]) :: (skipn j T, snd rg) :: skipn (S k) (map raw_group (do_records d))).
  { unfold inject_blank_raw, raw_of. cbn [rd_groups rd_lead].
    change (fun rg0 : s_record * list text => (record_texts (fst rg0), snd rg0)) with raw_group. rewrite Hk'. reflexivity. }
  (* the lines of the record up to the blank line are a record of their own; the rest begins with an indented line *)
  pose (r' := {| sr_date := sr_date (fst rg); sr_should := sr_should (fst rg); sr_trail := sr_trail (fst rg);
                 sr_summary := sr_summary (fst rg); sr_indent := sr_indent (fst rg); sr_entries := es1 |}).
  assert (Esplit : T = record_texts r' ++ entry_texts (indent_text (sr_indent (fst rg))) e ++ flat_map (entry_texts (indent_text (sr_indent (fst rg)))) es2).
  { unfold T, record_texts, r'. cbn [sr_summary sr_indent sr_entries]. rewrite Ee, flat_map_app. cbn [flat_map].
    change (headline_text {| sr_date := sr_date (fst rg); sr_should := sr_should (fst rg); sr_trail := sr_trail (fst rg);
      sr_summary := sr_summary (fst rg); sr_indent := sr_indent (fst rg); sr_entries := es1 |}) with (headline_text (fst rg)).
    rewrite <- app_comm_cons, <- app_assoc. reflexivity. }
  assert (Lj : length (record_texts r') = j).
  { unfold j, entry_line_index, record_texts, r'. cbn [sr_summary sr_indent sr_entries length]. rewrite app_length. reflexivity. }
  assert (E1 : firstn j T = record_texts r') by (rewrite Esplit, <- Lj, firstn_app, Nat.sub_diag, firstn_all; cbn [firstn]; apply app_nil_r).
  assert (E2 : skipn j T = entry_texts (indent_text (sr_indent (fst rg))) e ++ flat_map (entry_texts (indent_text (sr_indent (fst rg)))) es2)
    by (rewrite Esplit, <- Lj; apply skipn_pre).
  assert (Wr' : wf_record r' = true).
  { destruct (wf_record_inv _ Wr) as (H1 & H2 & H3 & H4 & H5 & H6). unfold wf_record, r'. cbn [sr_date sr_should sr_trail sr_summary sr_entries].
    rewrite H1, H3, H4. rewrite Ee, forallb_app in H5. apply andb_true_iff in H5 as [H5 _]. rewrite H5.
    replace (match sr_should (fst rg) with Some (_, d0) => wf_dur d0 | None => true end) with true
      by (destruct (sr_should (fst rg)) as [[? ?]|]; [symmetry; exact H2|reflexivity]).
    cbn [andb]. apply Nat.leb_le. rewrite Ee in H6. unfold count_open in *. rewrite filter_app, app_length in H6. lia. }
  destruct (reject_raw_at (inject_blank_raw k j bl d) (S k) (skipn j T, snd rg) 0 Rok) as (e0 & es & P & He).
  - rewrite EG. rewrite nth_error_app2 by (rewrite firstn_length; lia). rewrite firstn_length, Nat.min_l by lia.
    replace (S k - k)%nat with 1%nat by lia. reflexivity.
  - rewrite EG. replace (S k) with (k + 1)%nat by lia. rewrite firstn_plus_firstn by lia. cbn [firstn].
    apply Forall_app. split; [apply prefix_parses; exact W|].
    constructor; [|constructor]. cbn [fst]. rewrite E1. apply record_sig_parses. exact Wr'.
  - cbn [fst]. destruct (group_texts_ok _ (skipn j T, snd rg) Rok) as [Tk Nb].
    { rewrite EG. apply in_or_app. right. right. left. reflexivity. }
    cbn [fst] in Tk, Nb. rewrite E2 in Tk, Nb |- *.
    remember (flat_map (entry_texts (indent_text (sr_indent (fst rg)))) es2) as X eqn:EX. clear EX.
    unfold entry_texts in Tk, Nb |- *. cbn [app] in Tk, Nb |- *.
    cbn [forallb] in Tk. apply andb_true_iff in Tk as [Tk _].
    destruct (sr_indent (fst rg)); cbn [indent_text spaces repeat app] in *; apply indented_first_at; try assumption; reflexivity.
  - exists e0, es. split; [exact P|]. rewrite He, EG. replace (S k) with (k + 1)%nat by lia. rewrite firstn_plus_firstn by lia. cbn [firstn].
    rewrite flat_map_app, app_length. cbn [flat_map fst snd app length]. rewrite app_nil_r, app_length, E1, Lj. cbn [length].
    rewrite <- (fault_line_groups d k j). cbn [rd_lead inject_blank_raw raw_of]. lia.
Qed.

(* stray text: its first line is indented, or its first blank-delimited word is not a date *)
Definition stray_first_line (t0 : text) : Prop :=
  (exists c x, t0 = c :: x /\ is_space_or_tab c = true)
  \/ (exists dtxt rest, t0 = dtxt ++ rest
        /\ match dtxt with c :: _ => is_space_or_tab c = false | [] => False end
        /\ forallb (fun c => negb (is_space_or_tab c)) dtxt = true
        /\ match rest with c :: _ => is_space_or_tab c = true | [] => True end
        /\ forall x, parse_date (utf8_encode dtxt) <> Ok x).

Theorem first_error_stray d k t0 others gap : wf d -> (k <= length (do_records d))%nat ->
  raw_ok (inject_stray_raw k (t0 :: others) gap d) = true ->
  stray_first_line t0 ->
  exists e0 es, parse_text (inject_stray k (t0 :: others) gap d) = Ok (Failed (e0 :: es)) /\ re_line e0 = fault_line d k 0.
Proof.
  intros W Hkle Rok Hs.
  assert (EG : rd_groups (inject_stray_raw k (t0 :: others) gap d)
               = firstn k (map raw_group (do_records d)) ++ (t0 :: others, gap) :: skipn k (map raw_group (do_records d))) by reflexivity.
  assert (Hkle' : (k <= length (map raw_group (do_records d)))%nat) by (rewrite map_length; exact Hkle).
  destruct (reject_raw_at (inject_stray_raw k (t0 :: others) gap d) k (t0 :: others, gap) 0 Rok) as (e0 & es & P & He).
  - rewrite EG. apply nth_error_after_firstn. exact Hkle'.
  - rewrite EG, firstn_after_firstn by exact Hkle'. apply prefix_parses. exact W.
  - cbn [fst]. destruct (group_texts_ok _ (t0 :: others, gap) Rok) as [Tk Nb].
    { rewrite EG. apply in_or_app. right. left. reflexivity. }
    cbn [fst forallb] in Tk. apply andb_true_iff in Tk as [Tk _]. cbn [fst] in Nb.
    destruct Hs as [(c & x & -> & Hc)|(dtxt & rest & -> & H1 & H2 & H3 & H4)].
    + apply indented_first_at; assumption.
    + apply bad_date_at; assumption.
  - exists e0, es. split; [exact P|]. rewrite He, EG, firstn_after_firstn by exact Hkle'.
    apply fault_line_groups.
Qed.

(* ================= the statements used by Properties/C01.v (rejection) and Properties/C10.v (first error) ================= *)

Lemma weaken_at s ln : (exists e es, parse_text s = Ok (Failed (e :: es)) /\ re_line e = ln) ->
  exists es, parse_text s = Ok (Failed es) /\ es <> [].
Proof. intros (e & es & P & _). exists (e :: es). split; [exact P|discriminate]. Qed.

Lemma reject_headline_text : forall d k rg c x,
  wf d -> nth_error (do_records d) k = Some rg ->
  is_space_or_tab c = false ->
  match sr_should (fst rg) with Some _ => True | None => sr_trail (fst rg) <> [] /\ (c =? ch_lpar)%N = false end ->
  raw_ok (inject_raw k (0) (headline_text (fst rg) ++ c :: x) d) = true ->
  exists es, parse_text (inject k (0) (headline_text (fst rg) ++ c :: x) d) = Ok (Failed es) /\ es <> [].
Proof. intros. eapply weaken_at. eapply first_error_headline_text; eassumption. Qed.

Lemma first_err_headline_text : forall d k rg c x,
  wf d -> nth_error (do_records d) k = Some rg ->
  is_space_or_tab c = false ->
  match sr_should (fst rg) with Some _ => True | None => sr_trail (fst rg) <> [] /\ (c =? ch_lpar)%N = false end ->
  raw_ok (inject_raw k (0) (headline_text (fst rg) ++ c :: x) d) = true ->
  exists e0 es, parse_text (inject k (0) (headline_text (fst rg) ++ c :: x) d) = Ok (Failed (e0 :: es)) /\ re_line e0 = fault_line d k (0).
Proof. intros. eapply first_error_headline_text; eassumption. Qed.

Lemma reject_indentation_first : forall d k rg e es2 t,
  wf d -> nth_error (do_records d) k = Some rg -> sr_entries (fst rg) = e :: es2 ->
  (match t with c :: _ => blank_char c = true | [] => False end /\ find_indentation (utf8_encode t) = None)
  \/ (exists st, find_indentation (utf8_encode t) = Some st /\ is_space_or_tab (peek t (length st)) = true) ->
  raw_ok (inject_raw k (entry_line_index (fst rg) []) (t) d) = true ->
  exists es, parse_text (inject k (entry_line_index (fst rg) []) (t) d) = Ok (Failed es) /\ es <> [].
Proof. intros. eapply weaken_at. eapply first_error_indent_first; eassumption. Qed.

Lemma first_err_indentation_first : forall d k rg e es2 t,
  wf d -> nth_error (do_records d) k = Some rg -> sr_entries (fst rg) = e :: es2 ->
  (match t with c :: _ => blank_char c = true | [] => False end /\ find_indentation (utf8_encode t) = None)
  \/ (exists st, find_indentation (utf8_encode t) = Some st /\ is_space_or_tab (peek t (length st)) = true) ->
  raw_ok (inject_raw k (entry_line_index (fst rg) []) (t) d) = true ->
  exists e0 es, parse_text (inject k (entry_line_index (fst rg) []) (t) d) = Ok (Failed (e0 :: es)) /\ re_line e0 = fault_line d k (entry_line_index (fst rg) []).
Proof. intros. eapply first_error_indent_first; eassumption. Qed.

Lemma reject_indentation_later : forall d k rg es1 e es2 t,
  wf d -> nth_error (do_records d) k = Some rg -> sr_entries (fst rg) = es1 ++ e :: es2 -> es1 <> [] ->
  has_prefix (indent_text (sr_indent (fst rg)) ++ indent_text (sr_indent (fst rg))) (utf8_encode t) = false ->
  has_prefix (indent_text (sr_indent (fst rg))) (utf8_encode t) = false \/ is_space_or_tab (peek t (length (indent_text (sr_indent (fst rg))))) = true ->
  raw_ok (inject_raw k (entry_line_index (fst rg) es1) (t) d) = true ->
  exists es, parse_text (inject k (entry_line_index (fst rg) es1) (t) d) = Ok (Failed es) /\ es <> [].
Proof. intros. eapply weaken_at. eapply first_error_indent_later; eassumption. Qed.

Lemma first_err_indentation_later : forall d k rg es1 e es2 t,
  wf d -> nth_error (do_records d) k = Some rg -> sr_entries (fst rg) = es1 ++ e :: es2 -> es1 <> [] ->
  has_prefix (indent_text (sr_indent (fst rg)) ++ indent_text (sr_indent (fst rg))) (utf8_encode t) = false ->
  has_prefix (indent_text (sr_indent (fst rg))) (utf8_encode t) = false \/ is_space_or_tab (peek t (length (indent_text (sr_indent (fst rg))))) = true ->
  raw_ok (inject_raw k (entry_line_index (fst rg) es1) (t) d) = true ->
  exists e0 es, parse_text (inject k (entry_line_index (fst rg) es1) (t) d) = Ok (Failed (e0 :: es)) /\ re_line e0 = fault_line d k (entry_line_index (fst rg) es1).
Proof. intros. eapply first_error_indent_later; eassumption. Qed.

Lemma reject_malformed_entry : forall d k rg es1 e es2 txt,
  wf d -> nth_error (do_records d) k = Some rg -> sr_entries (fst rg) = es1 ++ e :: es2 ->
  match txt with c :: _ => is_space_or_tab c = false /\ (c <? 128)%N = true | [] => False end ->
  (forall ln, exists e0, parse_entry_value ln (indent_text (sr_indent (fst rg)) ++ txt) (length (indent_text (sr_indent (fst rg)))) = EvErr e0) ->
  raw_ok (inject_raw k (entry_line_index (fst rg) es1) (indent_text (sr_indent (fst rg)) ++ txt) d) = true ->
  exists es, parse_text (inject k (entry_line_index (fst rg) es1) (indent_text (sr_indent (fst rg)) ++ txt) d) = Ok (Failed es) /\ es <> [].
Proof. intros. eapply weaken_at. eapply first_error_bad_value_txt; eassumption. Qed.

Lemma first_err_malformed_entry : forall d k rg es1 e es2 txt,
  wf d -> nth_error (do_records d) k = Some rg -> sr_entries (fst rg) = es1 ++ e :: es2 ->
  match txt with c :: _ => is_space_or_tab c = false /\ (c <? 128)%N = true | [] => False end ->
  (forall ln, exists e0, parse_entry_value ln (indent_text (sr_indent (fst rg)) ++ txt) (length (indent_text (sr_indent (fst rg)))) = EvErr e0) ->
  raw_ok (inject_raw k (entry_line_index (fst rg) es1) (indent_text (sr_indent (fst rg)) ++ txt) d) = true ->
  exists e0 es, parse_text (inject k (entry_line_index (fst rg) es1) (indent_text (sr_indent (fst rg)) ++ txt) d) = Ok (Failed (e0 :: es)) /\ re_line e0 = fault_line d k (entry_line_index (fst rg) es1).
Proof. intros. eapply first_error_bad_value_txt; eassumption. Qed.

Lemma reject_bad_time : forall d k rg es1 e es2 st rest,
  wf d -> nth_error (do_records d) k = Some rg -> sr_entries (fst rg) = es1 ++ e :: es2 ->
  time_fields_in_shape st = true -> wf_time st = false ->
  match rest with c :: _ => is_dash_or_space c = true | [] => True end ->
  raw_ok (inject_raw k (entry_line_index (fst rg) es1) (indent_text (sr_indent (fst rg)) ++ render_time st ++ rest) d) = true ->
  exists es, parse_text (inject k (entry_line_index (fst rg) es1) (indent_text (sr_indent (fst rg)) ++ render_time st ++ rest) d) = Ok (Failed es) /\ es <> [].
Proof. intros. eapply weaken_at. eapply family_bad_start; eassumption. Qed.

Lemma first_err_bad_time : forall d k rg es1 e es2 st rest,
  wf d -> nth_error (do_records d) k = Some rg -> sr_entries (fst rg) = es1 ++ e :: es2 ->
  time_fields_in_shape st = true -> wf_time st = false ->
  match rest with c :: _ => is_dash_or_space c = true | [] => True end ->
  raw_ok (inject_raw k (entry_line_index (fst rg) es1) (indent_text (sr_indent (fst rg)) ++ render_time st ++ rest) d) = true ->
  exists e0 es, parse_text (inject k (entry_line_index (fst rg) es1) (indent_text (sr_indent (fst rg)) ++ render_time st ++ rest) d) = Ok (Failed (e0 :: es)) /\ re_line e0 = fault_line d k (entry_line_index (fst rg) es1).
Proof. intros. eapply family_bad_start; eassumption. Qed.

Lemma reject_missing_dash : forall d k rg es1 e es2 a sp1 rest,
  wf d -> nth_error (do_records d) k = Some rg -> sr_entries (fst rg) = es1 ++ e :: es2 ->
  wf_time a = true ->
  match rest with c :: _ => is_space c = false /\ (c =? ch_minus)%N = false | [] => True end ->
  (sp1 = 0%nat -> rest = []) ->
  raw_ok (inject_raw k (entry_line_index (fst rg) es1) (indent_text (sr_indent (fst rg)) ++ render_time a ++ spaces sp1 ++ rest) d) = true ->
  exists es, parse_text (inject k (entry_line_index (fst rg) es1) (indent_text (sr_indent (fst rg)) ++ render_time a ++ spaces sp1 ++ rest) d) = Ok (Failed es) /\ es <> [].
Proof. intros. eapply weaken_at. eapply family_no_dash; eassumption. Qed.

Lemma first_err_missing_dash : forall d k rg es1 e es2 a sp1 rest,
  wf d -> nth_error (do_records d) k = Some rg -> sr_entries (fst rg) = es1 ++ e :: es2 ->
  wf_time a = true ->
  match rest with c :: _ => is_space c = false /\ (c =? ch_minus)%N = false | [] => True end ->
  (sp1 = 0%nat -> rest = []) ->
  raw_ok (inject_raw k (entry_line_index (fst rg) es1) (indent_text (sr_indent (fst rg)) ++ render_time a ++ spaces sp1 ++ rest) d) = true ->
  exists e0 es, parse_text (inject k (entry_line_index (fst rg) es1) (indent_text (sr_indent (fst rg)) ++ render_time a ++ spaces sp1 ++ rest) d) = Ok (Failed (e0 :: es)) /\ re_line e0 = fault_line d k (entry_line_index (fst rg) es1).
Proof. intros. eapply family_no_dash; eassumption. Qed.

Lemma reject_bad_end : forall d k rg es1 e es2 a sp1 sp2 s' tail,
  wf d -> nth_error (do_records d) k = Some rg -> sr_entries (fst rg) = es1 ++ e :: es2 ->
  wf_time a = true ->
  forallb (fun c => negb (is_space_or_tab c)) s' = true ->
  match tail with c :: _ => is_space_or_tab c = true | [] => True end ->
  match s' ++ tail with c :: _ => is_space c = false /\ (c =? ch_q)%N = false | [] => True end ->
  (forall t, parse_time (utf8_encode s') <> Ok t) ->
  raw_ok (inject_raw k (entry_line_index (fst rg) es1) (indent_text (sr_indent (fst rg)) ++ render_time a ++ spaces sp1 ++ [45%N] ++ spaces sp2 ++ s' ++ tail) d) = true ->
  exists es, parse_text (inject k (entry_line_index (fst rg) es1) (indent_text (sr_indent (fst rg)) ++ render_time a ++ spaces sp1 ++ [45%N] ++ spaces sp2 ++ s' ++ tail) d) = Ok (Failed es) /\ es <> [].
Proof. intros. eapply weaken_at. eapply family_bad_end; eassumption. Qed.

Lemma first_err_bad_end : forall d k rg es1 e es2 a sp1 sp2 s' tail,
  wf d -> nth_error (do_records d) k = Some rg -> sr_entries (fst rg) = es1 ++ e :: es2 ->
  wf_time a = true ->
  forallb (fun c => negb (is_space_or_tab c)) s' = true ->
  match tail with c :: _ => is_space_or_tab c = true | [] => True end ->
  match s' ++ tail with c :: _ => is_space c = false /\ (c =? ch_q)%N = false | [] => True end ->
  (forall t, parse_time (utf8_encode s') <> Ok t) ->
  raw_ok (inject_raw k (entry_line_index (fst rg) es1) (indent_text (sr_indent (fst rg)) ++ render_time a ++ spaces sp1 ++ [45%N] ++ spaces sp2 ++ s' ++ tail) d) = true ->
  exists e0 es, parse_text (inject k (entry_line_index (fst rg) es1) (indent_text (sr_indent (fst rg)) ++ render_time a ++ spaces sp1 ++ [45%N] ++ spaces sp2 ++ s' ++ tail) d) = Ok (Failed (e0 :: es)) /\ re_line e0 = fault_line d k (entry_line_index (fst rg) es1).
Proof. intros. eapply family_bad_end; eassumption. Qed.

Lemma reject_bad_placeholder : forall d k rg es1 e es2 a sp1 sp2 rep tail,
  wf d -> nth_error (do_records d) k = Some rg -> sr_entries (fst rg) = es1 ++ e :: es2 ->
  wf_time a = true ->
  forallb (fun c => negb (is_space_or_tab c)) rep = true ->
  match tail with c :: _ => is_space_or_tab c = true | [] => True end ->
  forallb (fun c => (c =? ch_q)%N) rep = false ->
  raw_ok (inject_raw k (entry_line_index (fst rg) es1) (indent_text (sr_indent (fst rg)) ++ render_time a ++ spaces sp1 ++ [45%N] ++ spaces sp2 ++ 63%N :: rep ++ tail) d) = true ->
  exists es, parse_text (inject k (entry_line_index (fst rg) es1) (indent_text (sr_indent (fst rg)) ++ render_time a ++ spaces sp1 ++ [45%N] ++ spaces sp2 ++ 63%N :: rep ++ tail) d) = Ok (Failed es) /\ es <> [].
Proof. intros. eapply weaken_at. eapply family_bad_placeholder; eassumption. Qed.

Lemma first_err_bad_placeholder : forall d k rg es1 e es2 a sp1 sp2 rep tail,
  wf d -> nth_error (do_records d) k = Some rg -> sr_entries (fst rg) = es1 ++ e :: es2 ->
  wf_time a = true ->
  forallb (fun c => negb (is_space_or_tab c)) rep = true ->
  match tail with c :: _ => is_space_or_tab c = true | [] => True end ->
  forallb (fun c => (c =? ch_q)%N) rep = false ->
  raw_ok (inject_raw k (entry_line_index (fst rg) es1) (indent_text (sr_indent (fst rg)) ++ render_time a ++ spaces sp1 ++ [45%N] ++ spaces sp2 ++ 63%N :: rep ++ tail) d) = true ->
  exists e0 es, parse_text (inject k (entry_line_index (fst rg) es1) (indent_text (sr_indent (fst rg)) ++ render_time a ++ spaces sp1 ++ [45%N] ++ spaces sp2 ++ 63%N :: rep ++ tail) d) = Ok (Failed (e0 :: es)) /\ re_line e0 = fault_line d k (entry_line_index (fst rg) es1).
Proof. intros. eapply family_bad_placeholder; eassumption. Qed.

Lemma reject_minutes_overflow : forall d k rg es1 e es2 du tail,
  wf d -> nth_error (do_records d) k = Some rg -> sr_entries (fst rg) = es1 ++ e :: es2 ->
  dur_minutes_overflow du = true -> tail_ok tail ->
  raw_ok (inject_raw k (entry_line_index (fst rg) es1) (indent_text (sr_indent (fst rg)) ++ render_dur du ++ tail) d) = true ->
  exists es, parse_text (inject k (entry_line_index (fst rg) es1) (indent_text (sr_indent (fst rg)) ++ render_dur du ++ tail) d) = Ok (Failed es) /\ es <> [].
Proof. intros. eapply weaken_at. eapply family_dur60; eassumption. Qed.

Lemma first_err_minutes_overflow : forall d k rg es1 e es2 du tail,
  wf d -> nth_error (do_records d) k = Some rg -> sr_entries (fst rg) = es1 ++ e :: es2 ->
  dur_minutes_overflow du = true -> tail_ok tail ->
  raw_ok (inject_raw k (entry_line_index (fst rg) es1) (indent_text (sr_indent (fst rg)) ++ render_dur du ++ tail) d) = true ->
  exists e0 es, parse_text (inject k (entry_line_index (fst rg) es1) (indent_text (sr_indent (fst rg)) ++ render_dur du ++ tail) d) = Ok (Failed (e0 :: es)) /\ re_line e0 = fault_line d k (entry_line_index (fst rg) es1).
Proof. intros. eapply family_dur60; eassumption. Qed.

Lemma reject_blank_inside : forall d k rg es1 e es2 bl, wf d -> nth_error (do_records d) k = Some rg ->
  sr_entries (fst rg) = es1 ++ e :: es2 ->
  raw_ok (inject_blank_raw k (entry_line_index (fst rg) es1) bl d) = true ->
  exists es, parse_text (inject_blank k (entry_line_index (fst rg) es1) bl d) = Ok (Failed es) /\ es <> [].
Proof. intros. eapply weaken_at. eapply first_error_blank_inside; eassumption. Qed.

Lemma first_err_blank_inside : forall d k rg es1 e es2 bl, wf d -> nth_error (do_records d) k = Some rg ->
  sr_entries (fst rg) = es1 ++ e :: es2 ->
  raw_ok (inject_blank_raw k (entry_line_index (fst rg) es1) bl d) = true ->
  exists e0 es, parse_text (inject_blank k (entry_line_index (fst rg) es1) bl d) = Ok (Failed (e0 :: es))
    /\ re_line e0 = S (fault_line d k (entry_line_index (fst rg) es1)).
Proof. intros. eapply first_error_blank_inside; eassumption. Qed.

Lemma reject_stray : forall d k t0 others gap, wf d -> (k <= length (do_records d))%nat ->
  raw_ok (inject_stray_raw k (t0 :: others) gap d) = true -> stray_first_line t0 ->
  exists es, parse_text (inject_stray k (t0 :: others) gap d) = Ok (Failed es) /\ es <> [].
Proof. intros. eapply weaken_at. eapply first_error_stray; eassumption. Qed.

Lemma first_err_reversed_range : forall d k rg es1 e es2 a sp1 sp2 b tail,
  wf d -> nth_error (do_records d) k = Some rg -> sr_entries (fst rg) = es1 ++ e :: es2 ->
  wf_time a = true -> wf_time b = true -> timeline b < timeline a -> tail_ok tail ->
  raw_ok (inject_raw k (entry_line_index (fst rg) es1) (indent_text (sr_indent (fst rg)) ++ render_value (SRange a sp1 sp2 b) ++ tail) d) = true ->
  exists e0 es, parse_text (inject k (entry_line_index (fst rg) es1) (indent_text (sr_indent (fst rg)) ++ render_value (SRange a sp1 sp2 b) ++ tail) d) = Ok (Failed (e0 :: es))
    /\ re_line e0 = fault_line d k (entry_line_index (fst rg) es1).
Proof. intros. eapply family_reversed; eassumption. Qed.

Lemma first_err_second_open : forall d k rg es1 e es2 a sp1 sp2 extra tail,
  wf d -> nth_error (do_records d) k = Some rg -> sr_entries (fst rg) = es1 ++ e :: es2 ->
  count_open es1 <> 0%nat -> wf_time a = true -> tail_ok tail -> text_ok tail = true ->
  raw_ok (inject_raw k (entry_line_index (fst rg) es1) (indent_text (sr_indent (fst rg)) ++ render_value (SOpen a sp1 sp2 extra) ++ tail) d) = true ->
  exists e0 es, parse_text (inject k (entry_line_index (fst rg) es1) (indent_text (sr_indent (fst rg)) ++ render_value (SOpen a sp1 sp2 extra) ++ tail) d) = Ok (Failed (e0 :: es))
    /\ re_line e0 = fault_line d k (entry_line_index (fst rg) es1).
Proof. intros. eapply family_second_open; eassumption. Qed.
