(* SpecValues — layer L0 of C01: every value literal of the specification (Spec/Spec.v) is read by the model's
   value parsers (Model/Values.v) as the value it denotes; decimal lemmas; print = render of the canonical spelling. *)
From Klog Require Import Base.Prelude Base.Utf8 Model.Calendar Model.Values Model.Record Model.Lines
  Proofs.Sweep Proofs.Values Spec.Spec.
From Coq Require Import ZifyBool.
Open Scope Z_scope.

(* ================= decimal ================= *)

Lemma digit_is_digit c : digit c = is_digit c.
Proof. reflexivity. Qed.
Lemma digit_is_digit_forall ds : forallb digit ds = forallb is_digit ds.
Proof. reflexivity. Qed.

Lemma integer_value_gen ds : forall a,
  fold_left (fun acc c => 10 * acc + (Z.of_N c - 48)) ds a = fold_left (fun acc c => acc * 10 + digit_val c) ds a.
Proof. induction ds as [|c ds IH]; intros a; cbn [fold_left]; [reflexivity|]. rewrite IH. f_equal. unfold digit_val. lia. Qed.

Lemma integer_value_digits_val ds : integer_value ds = digits_val ds.
Proof. apply integer_value_gen. Qed.

Lemma digits_val_app a b : digits_val (a ++ b) = fold_left (fun acc c => acc * 10 + digit_val c) b (digits_val a).
Proof. unfold digits_val. apply fold_left_app. Qed.

Lemma digits_val_snoc a c : digits_val (a ++ [c]) = digits_val a * 10 + digit_val c.
Proof. rewrite digits_val_app. reflexivity. Qed.

Lemma digits_val_nonneg_gen ds : forall a, 0 <= a -> forallb is_digit ds = true ->
  0 <= fold_left (fun acc c => acc * 10 + digit_val c) ds a.
Proof.
  induction ds as [|c ds IH]; intros a Ha H; cbn [fold_left forallb] in *; [exact Ha|].
  apply andb_true_iff in H as [Hc H]. apply IH; [|exact H]. unfold is_digit, digit_val in *. lia.
Qed.

Lemma digits_val_nonneg ds : forallb is_digit ds = true -> 0 <= digits_val ds.
Proof. apply digits_val_nonneg_gen. lia. Qed.

Lemma dchar_digit_char d : dchar d = digit_char d.
Proof. unfold dchar, digit_char. f_equal. lia. Qed.

Lemma is_digit_dchar d : 0 <= d <= 9 -> is_digit (dchar d) = true.
Proof. intros H. unfold is_digit, dchar. lia. Qed.

Lemma digit_val_dchar d : 0 <= d -> digit_val (dchar d) = d.
Proof. intros H. unfold digit_val, dchar. lia. Qed.

(* the specification's decimal and the model's (Go's strconv.Itoa) agree on non-negative numbers *)
Lemma digits_fuel_dec_fuel k : forall z acc, 0 <= z -> digits_fuel k z acc = dec_fuel k z acc.
Proof.
  induction k as [|k IH]; intros z acc Hz; cbn [digits_fuel dec_fuel]; [reflexivity|].
  destruct (z <? 10) eqn:E.
  - rewrite dchar_digit_char. f_equal. f_equal. rewrite Z.mod_small; lia.
  - rewrite dchar_digit_char. apply IH. apply Z.div_pos; lia.
Qed.

Lemma decimal_dec_nonneg z : 0 <= z -> decimal z = dec_nonneg z.
Proof. intros H. apply digits_fuel_dec_fuel. exact H. Qed.

Lemma dec_of_nonneg z : 0 <= z -> dec z = decimal z.
Proof. intros H. unfold dec. destruct (z <? 0) eqn:E; [lia|]. symmetry. apply decimal_dec_nonneg. exact H. Qed.

(* enough fuel: z < 2^k *)
Lemma digits_fuel_value k : forall z acc, 0 <= z < 2 ^ Z.of_nat k ->
  fold_left (fun acc c => acc * 10 + digit_val c) (digits_fuel k z acc) 0
  = fold_left (fun acc c => acc * 10 + digit_val c) acc z.
Proof.
  induction k as [|k IH]; intros z acc Hz.
  - cbn [digits_fuel]. change (2 ^ Z.of_nat 0) with 1 in Hz. replace z with 0 by lia. reflexivity.
  - cbn [digits_fuel]. destruct (z <? 10) eqn:E.
    + cbn [fold_left]. rewrite digit_val_dchar by lia. f_equal.
    + rewrite IH.
      * cbn [fold_left]. rewrite digit_val_dchar by (apply Z.mod_pos_bound; lia). f_equal.
        pose proof (Z.div_mod z 10 ltac:(lia)). lia.
      * rewrite Nat2Z.inj_succ, Z.pow_succ_r in Hz by lia.
        split; [apply Z.div_pos; lia|]. apply Z.div_lt_upper_bound; lia.
Qed.

Lemma log2_fuel z : 0 <= z -> 0 <= z < 2 ^ Z.of_nat (S (Z.to_nat (Z.log2 z))).
Proof.
  intros Hz. split; [exact Hz|].
  rewrite Nat2Z.inj_succ, Z2Nat.id by apply Z.log2_nonneg.
  destruct (Z.eq_dec z 0) as [->|Hne]; [reflexivity|].
  apply Z.log2_spec. lia.
Qed.

Lemma decimal_value z : 0 <= z -> digits_val (decimal z) = z.
Proof. intros Hz. unfold digits_val, decimal. rewrite digits_fuel_value by (apply log2_fuel; exact Hz). reflexivity. Qed.

Lemma digits_fuel_digits k : forall z acc, 0 <= z -> forallb is_digit acc = true ->
  forallb is_digit (digits_fuel k z acc) = true.
Proof.
  induction k as [|k IH]; intros z acc Hz Ha; cbn [digits_fuel]; [exact Ha|].
  destruct (z <? 10) eqn:E.
  - cbn [forallb]. rewrite is_digit_dchar by lia. exact Ha.
  - apply IH; [apply Z.div_pos; lia|]. cbn [forallb]. rewrite is_digit_dchar; [exact Ha|].
    pose proof (Z.mod_pos_bound z 10 ltac:(lia)). lia.
Qed.

Lemma digits_fuel_length k : forall z acc, (length acc <= length (digits_fuel k z acc))%nat.
Proof.
  induction k as [|k IH]; intros z acc; cbn [digits_fuel]; [lia|].
  destruct (z <? 10); [cbn [length]; lia|]. etransitivity; [|apply IH]. cbn [length]. lia.
Qed.

Lemma decimal_digits z : 0 <= z -> forallb is_digit (decimal z) = true.
Proof. intros Hz. apply digits_fuel_digits; [exact Hz|reflexivity]. Qed.

Lemma decimal_nonempty z : decimal z <> [].
Proof.
  unfold decimal. cbn [digits_fuel]. destruct (z <? 10); [discriminate|].
  intros H. pose proof (digits_fuel_length (Z.to_nat (Z.log2 z)) (z / 10) [dchar (z mod 10)]) as L.
  rewrite H in L. cbn [length] in L. lia.
Qed.

Lemma decimal_integer_ok z : 0 <= z -> integer_ok (decimal z) = true.
Proof.
  intros Hz. unfold integer_ok. rewrite digit_is_digit_forall. rewrite decimal_digits by exact Hz.
  destruct (decimal z) eqn:E; [exfalso; exact (decimal_nonempty z E)|reflexivity].
Qed.

(* ================= fixed-width decimals (small sweeps, bounds in the statements) ================= *)

Definition two_check (n : Z) : bool :=
  bytes_eqb (pad_left 2 (dec n)) (two_digits n)
  && bytes_eqb (dec n) (if n <? 10 then [dchar n] else two_digits n).

Lemma two_sweep : range_forallb two_check 0 100 = true.
Proof. vm_cast_no_check (eq_refl true). Qed.

Lemma pad2_two_digits n : 0 <= n <= 99 -> pad_left 2 (dec n) = two_digits n.
Proof.
  intros H. pose proof (range_forallb_sound _ _ _ two_sweep n ltac:(lia)) as C.
  apply andb_true_iff in C as [C _]. apply bytes_eqb_eq. exact C.
Qed.

Lemma dec_small n : 0 <= n <= 99 -> dec n = if n <? 10 then [dchar n] else two_digits n.
Proof.
  intros H. pose proof (range_forallb_sound _ _ _ two_sweep n ltac:(lia)) as C.
  apply andb_true_iff in C as [_ C]. apply bytes_eqb_eq. exact C.
Qed.

Definition four_check (n : Z) : bool := bytes_eqb (pad_left 4 (dec n)) (four_digits n).

Lemma four_sweep : range_forallb four_check 0 (Z.to_nat 10000) = true.
Proof. vm_cast_no_check (eq_refl true). Qed.

Lemma pad4_four_digits n : 0 <= n <= 9999 -> pad_left 4 (dec n) = four_digits n.
Proof.
  intros H. pose proof (range_forallb_sound _ _ _ four_sweep n ltac:(lia)) as C.
  apply bytes_eqb_eq. exact C.
Qed.

Lemma two_digits_digits n : 0 <= n <= 99 -> forallb is_digit (two_digits n) = true.
Proof.
  intros H. unfold two_digits. cbn [forallb].
  rewrite !is_digit_dchar; [reflexivity| |].
  - pose proof (Z.mod_pos_bound n 10 ltac:(lia)). lia.
  - split; [apply Z.div_pos; lia|]. apply Z.lt_succ_r. apply Z.div_lt_upper_bound; lia.
Qed.

Lemma two_digits_value n : 0 <= n <= 99 -> digits_val (two_digits n) = n.
Proof.
  intros H. unfold two_digits, digits_val. cbn [fold_left].
  rewrite !digit_val_dchar.
  - pose proof (Z.div_mod n 10 ltac:(lia)). lia.
  - apply Z.mod_pos_bound; lia.
  - apply Z.div_pos; lia.
Qed.

Lemma four_digits_value n : 0 <= n <= 9999 -> digits_val (four_digits n) = n.
Proof.
  intros H. unfold four_digits, digits_val. cbn [fold_left].
  assert (0 <= n / 1000) by (apply Z.div_pos; lia).
  pose proof (Z.mod_pos_bound (n / 100) 10 ltac:(lia)).
  pose proof (Z.mod_pos_bound (n / 10) 10 ltac:(lia)).
  pose proof (Z.mod_pos_bound n 10 ltac:(lia)).
  rewrite !digit_val_dchar by lia.
  Z.div_mod_to_equations. lia.
Qed.

Lemma four_digits_digits n : 0 <= n <= 9999 -> forallb is_digit (four_digits n) = true.
Proof.
  intros H. unfold four_digits. cbn [forallb].
  rewrite !is_digit_dchar; [reflexivity| | | |]; Z.div_mod_to_equations; lia.
Qed.

(* ================= dates ================= *)

Lemma month_length_days_in_month y m : month_length y m = days_in_month y m.
Proof.
  unfold month_length, days_in_month, leap_year, is_leap.
  destruct m as [|p|p]; try reflexivity.
  do 4 (try destruct p as [p|p|]; try reflexivity).
Qed.

Lemma wf_date_valid_ymd d : wf_date d = valid_ymd (sd_year d) (sd_month d) (sd_day d).
Proof. unfold wf_date, valid_ymd. rewrite month_length_days_in_month. reflexivity. Qed.

Lemma parse_date_digits a b c d e f g h (dash : bool) :
  forallb is_digit [a; b; c; d; e; f; g; h] = true ->
  let sep := if dash then ch_minus else ch_slash in
  parse_date [a; b; c; d; sep; e; f; sep; g; h] =
  if valid_ymd (digits_val [a; b; c; d]) (digits_val [e; f]) (digits_val [g; h])
  then Ok {| dt := {| c_year := digits_val [a; b; c; d]; c_month := digits_val [e; f]; c_day := digits_val [g; h] |};
             dt_dashes := dash |}
  else Err EUnrepresentableDate.
Proof.
  cbn [forallb]. intros H. repeat (apply andb_true_iff in H as [? H]).
  cbv zeta. unfold parse_date.
  repeat match goal with Hd : is_digit _ = true |- _ => rewrite Hd; clear Hd end.
  destruct dash; reflexivity.
Qed.

(* L0, dates: every date literal of the specification (all Gregorian dates 0000-9999, both separators) *)
Lemma parse_render_date d : wf_date d = true -> parse_date (render_date d) = Ok (denote_date d).
Proof.
  intros W. pose proof W as V. rewrite wf_date_valid_ymd in V.
  unfold wf_date in W.
  assert (Hy : 0 <= sd_year d <= 9999) by lia.
  assert (Hm : 0 <= sd_month d <= 99) by lia.
  assert (Hd : 0 <= sd_day d <= 99).
  { split; [lia|]. rewrite month_length_days_in_month in W. unfold days_in_month in W.
    destruct (sd_month d =? 2); [destruct (is_leap (sd_year d)); lia|].
    destruct ((sd_month d =? 4) || (sd_month d =? 6) || (sd_month d =? 9) || (sd_month d =? 11)); lia. }
  pose proof (four_digits_digits _ Hy) as D4. pose proof (two_digits_digits _ Hm) as D2. pose proof (two_digits_digits _ Hd) as D2'.
  pose proof (four_digits_value _ Hy) as V4. pose proof (two_digits_value _ Hm) as V2. pose proof (two_digits_value _ Hd) as V2'.
  unfold render_date, four_digits, two_digits in *. cbn [app].
  cbn [forallb] in D4, D2, D2'.
  change 45%N with ch_minus. change 47%N with ch_slash.
  rewrite (parse_date_digits _ _ _ _ _ _ _ _ (sd_dash d)).
  - rewrite V4, V2, V2', V. reflexivity.
  - cbn [forallb]. repeat (apply andb_true_iff in D4 as [? D4]). repeat (apply andb_true_iff in D2 as [? D2]).
    repeat (apply andb_true_iff in D2' as [? D2']).
    rewrite H, H0, H1, H2, H3, H4, H5, H6. reflexivity.
Qed.

(* Date.ToString writes the specification's spelling *)
Lemma print_date_render d : valid_cdate (dt d) = true -> print_date d = render_date (canon_date d).
Proof.
  unfold valid_cdate, valid_ymd. intros V.
  assert (Hd : c_day (dt d) <= 31).
  { unfold days_in_month in V. destruct (c_month (dt d) =? 2); [destruct (is_leap (c_year (dt d))); lia|].
    destruct ((c_month (dt d) =? 4) || (c_month (dt d) =? 6) || (c_month (dt d) =? 9) || (c_month (dt d) =? 11)); lia. }
  unfold print_date, render_date, canon_date. cbn [sd_year sd_month sd_day sd_dash].
  rewrite pad4_four_digits, !pad2_two_digits by lia.
  destruct (dt_dashes d); reflexivity.
Qed.

Lemma denote_canon_date d : denote_date (canon_date d) = d.
Proof. destruct d as [[y m dd] f]. reflexivity. Qed.

Lemma wf_canon_date d : valid_cdate (dt d) = true -> wf_date (canon_date d) = true.
Proof. intros V. rewrite wf_date_valid_ymd. exact V. Qed.

Lemma date_roundtrip d : valid_cdate (dt d) = true -> parse_date (print_date d) = Ok d.
Proof.
  intros V. rewrite print_date_render by exact V. rewrite parse_render_date by (apply wf_canon_date; exact V).
  rewrite denote_canon_date. reflexivity.
Qed.

(* ================= times ================= *)

(* a time literal begins with `<` or with one or two digits and a colon: it cannot begin a duration *)
Definition time_shape (s : text) : bool :=
  match s with
  | c :: r =>
    if (c =? 60)%N then true else
    is_digit c && match r with
                  | c2 :: r2 => (c2 =? 58)%N || (is_digit c2 && match r2 with c3 :: _ => (c3 =? 58)%N | [] => false end)
                  | [] => false
                  end
  | [] => false
  end.

(* no dash, space or tab inside, all ASCII *)
Definition plain_char (c : N) : bool := negb (c =? 45)%N && negb (c =? 32)%N && negb (c =? 9)%N && (c <? 128)%N.

Definition valid_time_b (t : time) : bool :=
  (0 <=? t_hour t) && (t_hour t <=? 23) && (0 <=? t_min t) && (t_min t <=? 59) && (-1 <=? t_shift t) && (t_shift t <=? 1).

Lemma valid_time_b_spec t : valid_time_b t = true <-> valid_time t.
Proof. unfold valid_time_b, valid_time. lia. Qed.

Definition st_check (t : s_time) : bool :=
  negb (wf_time t) ||
  (match parse_time (render_time t) with Ok t' => time_eqb_full t' (denote_time t) | _ => false end
   && valid_time_b (denote_time t)
   && (time_offset (denote_time t) =? timeline t)
   && forallb plain_char (render_time t)
   && time_shape (render_time t)).

Definition st_sweep : bool :=
  range_forallb (fun s => range_forallb (fun h => range_forallb (fun m =>
    forallb (fun p => forallb (fun c =>
      st_check {| st_shift := s; st_hh := h; st_pad := p; st_mm := m; st_clock := c |}) [C24; CAm; CPm]) [true; false])
    0 60) 0 25) (-1) 3.

Lemma st_sweep_true : st_sweep = true.
Proof. vm_cast_no_check (eq_refl true). Qed.

Lemma st_all t : wf_time t = true -> st_check t = true.
Proof.
  intros W. pose proof W as W'. unfold wf_time in W'.
  assert (Hs : -1 <= st_shift t < -1 + Z.of_nat 3) by lia.
  assert (Hm : 0 <= st_mm t < 0 + Z.of_nat 60) by lia.
  assert (Hh : 0 <= st_hh t < 0 + Z.of_nat 25) by (destruct (st_clock t); lia).
  pose proof st_sweep_true as S. unfold st_sweep in S.
  apply range_forallb_sound with (z := st_shift t) in S; [|exact Hs].
  apply range_forallb_sound with (z := st_hh t) in S; [|exact Hh].
  apply range_forallb_sound with (z := st_mm t) in S; [|exact Hm].
  rewrite forallb_forall in S. specialize (S (st_pad t) ltac:(destruct (st_pad t); cbn; auto)).
  rewrite forallb_forall in S. specialize (S (st_clock t) ltac:(destruct (st_clock t); cbn; auto)).
  destruct t; exact S.
Qed.

Section TimeFacts.
  Variable t : s_time.
  Hypothesis W : wf_time t = true.

  Let C : st_check t = true := st_all t W.

  Lemma st_facts :
    parse_time (render_time t) = Ok (denote_time t)
    /\ valid_time (denote_time t)
    /\ time_offset (denote_time t) = timeline t
    /\ forallb plain_char (render_time t) = true
    /\ time_shape (render_time t) = true.
  Proof.
    pose proof C as H. unfold st_check in H. rewrite W in H. cbn [negb orb] in H.
    repeat (apply andb_true_iff in H as [H ?]).
    split; [|split; [|split; [|split]]]; try assumption.
    - destruct (parse_time (render_time t)) as [t'| |]; try discriminate.
      apply time_eqb_full_eq in H. congruence.
    - apply valid_time_b_spec. assumption.
    - lia.
  Qed.
End TimeFacts.

(* L0, times: every time literal of the specification *)
Lemma parse_render_time t : wf_time t = true -> parse_time (render_time t) = Ok (denote_time t).
Proof. intros W. apply (st_facts t W). Qed.
Lemma denote_time_valid t : wf_time t = true -> valid_time (denote_time t).
Proof. intros W. apply (st_facts t W). Qed.
Lemma timeline_offset t : wf_time t = true -> time_offset (denote_time t) = timeline t.
Proof. intros W. apply (st_facts t W). Qed.
Lemma render_time_plain t : wf_time t = true -> forallb plain_char (render_time t) = true.
Proof. intros W. apply (st_facts t W). Qed.
Lemma render_time_shape t : wf_time t = true -> time_shape (render_time t) = true.
Proof. intros W. apply (st_facts t W). Qed.

(* Time.ToString writes a specification spelling (no padding, no 24:00), and that spelling denotes the time *)
Definition ct_check (t : time) : bool :=
  bytes_eqb (print_time t) (render_time (canon_time t))
  && wf_time (canon_time t)
  && time_eqb_full (denote_time (canon_time t)) t.

Definition ct_sweep : bool :=
  range_forallb (fun h => range_forallb (fun m => range_forallb (fun s => forallb (fun f =>
    ct_check {| t_hour := h; t_min := m; t_shift := s; t_24h := f |}) [true; false]) (-1) 3) 0 60) 0 24.

Lemma ct_sweep_true : ct_sweep = true.
Proof. vm_cast_no_check (eq_refl true). Qed.

Lemma ct_all t : valid_time t ->
  print_time t = render_time (canon_time t) /\ wf_time (canon_time t) = true /\ denote_time (canon_time t) = t.
Proof.
  intros (Hh & Hm & Hs). pose proof ct_sweep_true as S. unfold ct_sweep in S.
  apply range_forallb_sound with (z := t_hour t) in S; [|lia].
  apply range_forallb_sound with (z := t_min t) in S; [|lia].
  apply range_forallb_sound with (z := t_shift t) in S; [|lia].
  rewrite forallb_forall in S. specialize (S (t_24h t) ltac:(destruct (t_24h t); cbn; auto)).
  assert (E : {| t_hour := t_hour t; t_min := t_min t; t_shift := t_shift t; t_24h := t_24h t |} = t) by (destruct t; reflexivity).
  rewrite E in S. unfold ct_check in S.
  repeat (apply andb_true_iff in S as [S ?]).
  split; [apply bytes_eqb_eq; assumption|]. split; [assumption|]. apply time_eqb_full_eq. assumption.
Qed.
