(* C01 — the parser accepts exactly spec-conforming files and extracts the denoted data.
   Property theorems only; each is closed by [exact <lemma>] and followed by Print Assumptions.
   The specification is the formal object Spec/Spec.v (syntax tree, wf, render, denote).

   LAYER REACHED: L1 (value literals and the entry value line). The record level (L2), the document level (L3, the
   statement C01_parse_conforming) and the rejection theorems (L4) are not yet stated here. *)
From Klog Require Import Base.Prelude Base.Utf8 Model.Calendar Model.Values Model.Record Model.Lines Model.Parser
  Spec.Spec Proofs.SpecValues Proofs.SpecEntry.
Open Scope Z_scope.

(* ---------- L0: value literals ---------- *)

(* every time literal of the specification (optional leading zero, 24-hour / am / pm, 24:00 and <24:00, shifts) *)
Theorem C01_time_literal_partial : forall t, wf_time t = true -> parse_time (render_time t) = Ok (denote_time t).
Proof. exact parse_render_time. Qed.
Print Assumptions C01_time_literal_partial.

(* every date literal: all Gregorian dates 0000-9999, both separators *)
Theorem C01_date_literal_partial : forall d, wf_date d = true -> parse_date (render_date d) = Ok (denote_date d).
Proof. exact parse_render_date. Qed.
Print Assumptions C01_date_literal_partial.

(* every duration literal (sign x optional hours x optional minutes, any leading zeros, minutes < 60 when hours are
   present) whose amount fits int64 *)
Theorem C01_duration_literal_partial : forall d, wf_dur d = true -> parse_duration (render_dur d) = Ok (denote_dur d).
Proof. exact parse_render_dur. Qed.
Print Assumptions C01_duration_literal_partial.

(* the int64 guard of wf_dur is exact: beyond it the value constructor panics (finding K5) *)
Theorem C01_duration_literal_overflow_refuted : forall d, dur_shape d = true -> max_int64 < dur_amount d ->
  exists c, parse_duration (render_dur d) = Crash c.
Proof. exact parse_render_dur_overflow. Qed.
Print Assumptions C01_duration_literal_overflow_refuted.

(* ---------- L1: the value on an entry line ---------- *)

(* after any prefix (the indentation), followed by the end of the line or one space and arbitrary text *)
Theorem C01_entry_value_partial : forall ln pre v tail, wf_value v = true -> tail_ok tail ->
  parse_entry_value ln (pre ++ render_value v ++ tail) (length pre)
  = ev_of (denote_value v) (length pre) (length pre + length (render_value v)).
Proof. exact parse_entry_value_spec. Qed.
Print Assumptions C01_entry_value_partial.

(* ---------- non-vacuity ---------- *)

Example C01_time_nonvacuous :
  wf_time {| st_shift := -1; st_hh := 24; st_pad := false; st_mm := 0; st_clock := C24 |} = true
  /\ render_time {| st_shift := -1; st_hh := 24; st_pad := false; st_mm := 0; st_clock := C24 |} = b!"<24:00"
  /\ wf_time {| st_shift := 1; st_hh := 9; st_pad := true; st_mm := 5; st_clock := CPm |} = true
  /\ render_time {| st_shift := 1; st_hh := 9; st_pad := true; st_mm := 5; st_clock := CPm |} = b!"09:05pm>".
Proof. repeat split; reflexivity. Qed.

Example C01_duration_nonvacuous :
  wf_dur {| du_sign := SMinus; du_h := Some b!"007"; du_m := Some b!"05" |} = true
  /\ render_dur {| du_sign := SMinus; du_h := Some b!"007"; du_m := Some b!"05" |} = b!"-007h05m"
  /\ d_mins (denote_dur {| du_sign := SMinus; du_h := Some b!"007"; du_m := Some b!"05" |}) = -425.
Proof. repeat split; reflexivity. Qed.

Example C01_entry_value_nonvacuous :
  let v := SRange {| st_shift := -1; st_hh := 11; st_pad := false; st_mm := 30; st_clock := CPm |} 0 2
                  {| st_shift := 0; st_hh := 24; st_pad := false; st_mm := 0; st_clock := C24 |} in
  wf_value v = true /\ render_value v = b!"<11:30pm-  24:00" /\ tail_ok b!" 8:00-9:00 1h".
Proof. repeat split; reflexivity. Qed.
