#!/usr/bin/env python3
"""pretty-print a cmd-hist replay file"""
import sys, json
sys.path.insert(0, "/verif/lib")
from props.commands import parse_request, parse_result
from common import unhx
o = json.load(open(sys.argv[1]))
def show(req, impl, model, why=""):
    cfg, f0, steps = parse_request(req)
    print("WHY:", why); print("cfg:", cfg); print("file0:", repr(f0))
    ri, rm = parse_result(impl), parse_result(model)
    for i, s in enumerate(steps):
        dec = []
        for t in s[5:]:
            if t in ("_", "d", "t", "y", "m") or t.lstrip("-").isdigit() or "," in t and all(x.lstrip("-").isdigit() for x in t.split(",")): dec.append(t)
            else:
                try: dec.append(repr([unhx(x) for x in t.split(",")]))
                except Exception: dec.append(t)
        print(" step", i, s[:5], " ".join(dec))
        if ri and i < len(ri): print("    I:", ri[i][0], repr(ri[i][1]) if (i == 0 or ri[i][1] != ri[i-1][1]) else "(same)")
        if rm and i < len(rm) and (not ri or rm[i][:2] != ri[i][:2]): print("    M:", rm[i][0], repr(rm[i][1]))
if "request" in o:
    show(o["request"], o["impl"], o["model"], o.get("why", ""))
else:
    for c in o.get("correspondence_broken", []):
        show(c["request"], c["impl"], c["model"], "correspondence broken")
    if not o.get("correspondence_broken"): print(json.dumps(o, indent=1)[:3000])
