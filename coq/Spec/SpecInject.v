(* SpecInject: fault injections that change the number of lines or of blocks of a document, and the position of a
   record's line in the text. Definitions only (continues Spec/Spec.v, which has the single-line injection [inject]). *)
From Klog Require Import Base.Prelude Base.Utf8 Model.Lines Spec.Spec.

(* 0-based index, in the whole text, of line j (0 = headline) of record k of a document *)
Definition fault_line (d : s_doc) (k j : nat) : nat :=
  length (do_lead d)
  + length (flat_map (fun rg => record_texts (fst rg) ++ snd rg) (firstn k (do_records d)))
  + j.

(* a blank line (spaces / tabs only) inserted before line j of record k: the record's lines fall into two groups *)
Definition inject_blank_raw (k j : nat) (bl : text) (d : s_doc) : r_doc :=
  let rd := raw_of d in
  {| rd_lead := rd_lead rd;
     rd_groups := match nth_error (rd_groups rd) k with
                  | Some g => firstn k (rd_groups rd)
                              ++ (firstn j (fst g), [bl]) :: (skipn j (fst g), snd g)
                              :: skipn (S k) (rd_groups rd)
                  | None => rd_groups rd
                  end;
     rd_crlf := rd_crlf rd; rd_final_newline := rd_final_newline rd |}.
Definition inject_blank (k j : nat) (bl : text) (d : s_doc) : bytes := render_raw (inject_blank_raw k j bl d).

(* stray text: the non-blank lines ts, followed by the blank lines gap, as a block of its own before record k
   (k = number of records: after the last record) *)
Definition inject_stray_raw (k : nat) (ts gap : list text) (d : s_doc) : r_doc :=
  let rd := raw_of d in
  {| rd_lead := rd_lead rd;
     rd_groups := firstn k (rd_groups rd) ++ (ts, gap) :: skipn k (rd_groups rd);
     rd_crlf := rd_crlf rd; rd_final_newline := rd_final_newline rd |}.
Definition inject_stray (k : nat) (ts gap : list text) (d : s_doc) : bytes := render_raw (inject_stray_raw k ts gap d).

(* a time-shaped literal `<?D{1,2}:DD(am|pm)?>?` written from arbitrary fields: [render_time] of a tree that need not
   be well-formed (hour up to 99, minute up to 99) *)
Definition time_fields_in_shape (t : s_time) : bool :=
  (-1 <=? st_shift t)%Z && (st_shift t <=? 1)%Z && (0 <=? st_hh t)%Z && (st_hh t <=? 99)%Z
  && (0 <=? st_mm t)%Z && (st_mm t <=? 99)%Z.

(* a duration literal with both parts whose minute part is 60 or more (`1h60m`) *)
Definition dur_minutes_overflow (d : s_dur) : bool :=
  match du_h d, du_m d with
  | Some hs, Some ms => integer_ok hs && integer_ok ms && (60 <=? integer_value ms)%Z
                        && (60 * integer_value hs + integer_value ms <=? 9223372036854775807)%Z
  | _, _ => false
  end.
