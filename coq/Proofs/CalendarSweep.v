(* One-era sweep for C15: on the 400 years 0000..0399 converting a date to its day number and back
   is the identity. Evaluated once by the kernel's VM; lifted to all years in Proofs/Calendar.v. *)
From Klog Require Import Base.Prelude Model.Calendar Proofs.Sweep.
Open Scope Z_scope.

(* a boolean check over a box of (year, month, day) triples *)
Definition sweep3 (f : Z -> Z -> Z -> bool) (ny nm nd : nat) (y0 m0 d0 : Z) : bool :=
  range_forallb (fun y => range_forallb (fun m => range_forallb (fun d => f y m d) d0 nd) m0 nm) y0 ny.

Lemma sweep3_sound f ny nm nd y0 m0 d0 :
  sweep3 f ny nm nd y0 m0 d0 = true ->
  forall y m d, y0 <= y < y0 + Z.of_nat ny -> m0 <= m < m0 + Z.of_nat nm -> d0 <= d < d0 + Z.of_nat nd ->
  f y m d = true.
Proof.
  unfold sweep3. intros H y m d Hy Hm Hd.
  apply range_forallb_sound with (z := y) in H; [|exact Hy].
  apply range_forallb_sound with (z := m) in H; [|exact Hm].
  apply range_forallb_sound with (z := d) in H; [|exact Hd]. exact H.
Qed.

Definition rt_check (y m d : Z) : bool :=
  negb (d <=? days_in_month y m)
  || cdate_eqb (civil_from_days (days_from_civil y m d)) {| c_year := y; c_month := m; c_day := d |}.

Lemma rt_era_sweep_true : sweep3 rt_check 400 12 31 0 1 1 = true.
Proof. vm_cast_no_check (eq_refl true). Qed.
