package main

// Suite "query" (C13): filter and sort flags of `klog print`, end to end through klog.Run
// (kong, the decoders of app/main/decoder.go, FilterArgs.ApplyFilter, service.Filter, SortArgs.ApplySort,
// the serialiser), printed exactly like coq/Model/SuiteQuery.v.
//
//	query-run  <y> <m> <d> <sort> <n> <flag_1> ... <flag_n> <hex file>    klog print --no-style, output parsed back
//	query-json <y> <m> <d> <sort> <n> <flag_1> ... <flag_n> <hex file>    klog json, output decoded
//	query-alias <hex tag> <hex file>                                      service.Filter called directly: is the INPUT slice altered?

import (
	"encoding/json"
	"os"
	"path/filepath"
	"sort"
	"strconv"
	"strings"
	gotime "time"

	"github.com/jotaen/klog/klog"
	"github.com/jotaen/klog/klog/parser"
	kjson "github.com/jotaen/klog/klog/parser/json"
	"github.com/jotaen/klog/klog/service"
)

// queryArgs turns the flag tokens of a request (`name` or `name:hex`) into command-line arguments.
func queryArgs(flags []string, sortTok string) []string {
	var out []string
	for _, f := range flags {
		if i := strings.IndexByte(f, ':'); i >= 0 {
			out = append(out, "--"+f[:i]+"="+argBytes(f[i+1:]))
		} else {
			out = append(out, "--"+f)
		}
	}
	if sortTok != "-" {
		out = append(out, "--sort="+argBytes(sortTok))
	}
	return out
}

// canonRuns lists the records of each maximal run of equal dates in ascending order of their canonical text.
func canonRuns(rs []klog.Record) []string {
	lines := make([]string, len(rs))
	for i, r := range rs {
		lines[i] = showRecord(r)
	}
	i := 0
	for i < len(rs) {
		j := i + 1
		for j < len(rs) && rs[j].Date().IsEqualTo(rs[i].Date()) {
			j++
		}
		sort.Strings(lines[i:j])
		i = j
	}
	return lines
}

// sortRuns sorts the lines of each maximal run of equal keys.
func sortRuns(keys []string, lines []string) {
	i := 0
	for i < len(lines) {
		j := i + 1
		for j < len(lines) && keys[j] == keys[i] {
			j++
		}
		sort.Strings(lines[i:j])
		i = j
	}
}

func optInt(p *int) string {
	if p == nil {
		return "_"
	}
	return strconv.Itoa(*p)
}

// jsonEntry / jsonRecord: the fields of the JSON output the suite compares.
type jsonEntry struct {
	Type      string `json:"type"`
	Summary   string `json:"summary"`
	TotalMins int    `json:"total_mins"`
	StartMins *int   `json:"start_mins"`
	EndMins   *int   `json:"end_mins"`
}

type jsonRecord struct {
	Date            string      `json:"date"`
	Summary         string      `json:"summary"`
	ShouldTotalMins int         `json:"should_total_mins"`
	Entries         []jsonEntry `json:"entries"`
}

func showJsonRecord(r jsonRecord) string {
	parts := []string{"J", hx(r.Date), strconv.Itoa(r.ShouldTotalMins), hx(r.Summary), strconv.Itoa(len(r.Entries))}
	for _, e := range r.Entries {
		parts = append(parts, strings.Join([]string{e.Type, strconv.Itoa(e.TotalMins), optInt(e.StartMins), optInt(e.EndMins), hx(e.Summary)}, ":"))
	}
	return strings.Join(parts, " ")
}

func runQuery(a []string, asJson bool) string {
	y, _ := strconv.Atoi(a[0])
	m, _ := strconv.Atoi(a[1])
	d, _ := strconv.Atoi(a[2])
	sortTok := a[3]
	n, _ := strconv.Atoi(a[4])
	flags := a[5 : 5+n]
	text := argBytes(a[5+n])
	sorted := sortTok != "-" && argBytes(sortTok) != ""

	dir := scratchDir()
	defer os.RemoveAll(dir)
	f := filepath.Join(dir, "in.klg")
	writeFile(f, text)
	now := gotime.Date(y, gotime.Month(m), d, 12, 0, 0, 0, gotime.Local)
	env := &cliEnv{Home: dir, Clock: []gotime.Time{now}, Sticky: true, Env: map[string]string{"NO_COLOR": "1"}, NumCpus: 1}
	args := []string{"print", "--no-style", "--no-warn"}
	if asJson {
		args = []string{"json"}
	}
	args = append(args, queryArgs(flags, sortTok)...)
	args = append(args, f)
	code, out, _ := runKlog(env, args...)
	if code != 0 {
		// an argument error is a command line that fails whatever the file holds (told by running it on an empty
		// file, not by the wording of the message)
		writeFile(f, "")
		ecode, _, _ := runKlog(env, args...)
		writeFile(f, text)
		if ecode != 0 {
			return "argerr"
		}
		if _, _, errs := parser.NewSerialParser().Parse(text); errs != nil {
			return "invalid"
		}
		return "fail " + strconv.Itoa(code)
	}
	if asJson {
		var envelop kjson.Envelop
		if err := json.Unmarshal([]byte(out), &envelop); err != nil {
			return "bad-json " + hx(out)
		}
		if envelop.Errors != nil {
			return "invalid"
		}
		var doc struct {
			Records []jsonRecord `json:"records"`
		}
		if err := json.Unmarshal([]byte(out), &doc); err != nil {
			return "bad-json " + hx(out)
		}
		keys := make([]string, len(doc.Records))
		lines := make([]string, len(doc.Records))
		for i, r := range doc.Records {
			keys[i] = strings.ReplaceAll(r.Date, "/", "-")
			lines[i] = showJsonRecord(r)
		}
		if sorted {
			sortRuns(keys, lines)
		}
		return strings.Join(append([]string{"ok", strconv.Itoa(len(lines))}, lines...), " ")
	}
	// what was printed, read back
	rs, _, errs := parser.NewSerialParser().Parse(out)
	if errs != nil {
		return "reparse-failed " + hx(out)
	}
	parts := []string{"ok", strconv.Itoa(len(rs))}
	if sorted {
		parts = append(parts, canonRuns(rs)...)
	} else {
		for _, r := range rs {
			parts = append(parts, showRecord(r))
		}
	}
	return strings.Join(parts, " ")
}

func init() {
	register("query-run", func(a []string) string { return runQuery(a, false) })
	register("query-json", func(a []string) string { return runQuery(a, true) })
	// service.Filter narrows a record with SetEntries on the very object it was given: the caller's slice changes.
	// Not observable through any klog command (none reads the unfiltered list again); reported as a note.
	register("query-alias", func(a []string) string {
		tag, err := klog.NewTagFromString(argBytes(a[0]))
		if err != nil {
			return "argerr"
		}
		rs, _, errs := parser.NewSerialParser().Parse(argBytes(a[1]))
		if errs != nil {
			return "invalid"
		}
		before := make([]string, len(rs))
		for i, r := range rs {
			before[i] = showRecord(r)
		}
		out := service.Filter(rs, service.FilterQry{Tags: []klog.Tag{tag}})
		altered := 0
		for i, r := range rs {
			if showRecord(r) != before[i] {
				altered++
			}
		}
		if altered > 0 {
			return "input-altered " + strconv.Itoa(altered) + " of " + strconv.Itoa(len(rs)) + " selected " + strconv.Itoa(len(out))
		}
		return "input-intact selected " + strconv.Itoa(len(out))
	})
}
