"""C20 — the JSON output is well-formed and faithful to the data.

Suites (requests are answered by the extracted Coq model, Model/SuiteJson.v, and by the real klog through
klog.Run, harness/suite_json.go; see there for the /proc/self/cwd path convention):

  output    jsonout-run / jsonout-multi   stdout of `klog json [--pretty] FILE...`, byte for byte
  api       jsonout-api                   json.ToJson called directly, error origin = arbitrary bytes (invalid UTF-8 in `file`)
  terminal  jsonout-terminal              error text of `klog print FILE` (colours off) + `klog json FILE`
  flags     jsonout-cli (oracle only)     `klog json <--sort|filters> FILE` next to `klog json FILE`

The oracles below are written from the property text and the file-format specification; they use Python's
json module as the independent JSON parser and the AST of lib/specgen.py as the independent reading of a file.
"""
import sys, os, json, re
sys.path.insert(0, os.path.dirname(os.path.dirname(os.path.abspath(__file__))))
from common import hx, unhx
from check import Suite
import specgen
from props.parsing import docs, byte_stream, mutate

I64 = 2**63 - 1
CWD = "/proc/self/cwd/"

# ------------------------------------------------------------------ what is known about a request

AST = {}      # request -> list of specgen.Doc (one per file) : conforming documents whose data is known
PATHS = {}    # request -> list of file paths (str)

# file names (valid UTF-8: kong passes positional arguments through encoding/json, which would replace other bytes)
NAMES = ["f.klg", "f.klg", "f.klg", "times.klg", "a b.klg", 'q"uote.klg', "back\\slash.klg", "<&>.klg", "ümlaut 読.klg", "tab\there.klg",
         "ctl\x01\x1f\x7f.klg", "u  .klg", "sub/dir/f.klg", "'single'.klg", "emoji😀.klg", "�.klg", "{}[]:,.klg", "%s%d.klg", "x" * 200 + ".klg"]

def pick_name(rng):
    return CWD + rng.choice(NAMES)

def req_run(pretty, path, text):
    return "jsonout-run %d %s %s" % (1 if pretty else 0, hx(path), hx(text))

# summary material the property text names: quotes, backslashes, control characters, <>&, non-ASCII, U+2028/9, invalid UTF-8
SPECIALS = [b'"', b'\\', b'\\"', b'\\u0041', b'\\n', b"'", b"<", b">", b"&", b"<script>&amp;</script>", b"\x00", b"\x01", b"\x08", b"\x0b", b"\x0c", b"\r",
            b"\x1b[1m", b"\x1f", b"\x7f", b"\xc2\x80", b"\xc2\x85", b"\xe2\x80\xa8", b"\xe2\x80\xa9", b"\xef\xbb\xbf", b"\xef\xbf\xbd", b"\xef\xbf\xbe",
            b"\xf0\x9f\x98\x80", b"\xf4\x8f\xbf\xbf", b"\xff", b"\xfe", b"\xc0\xaf", b"\xc3", b"\xe2\x80", b"\xed\xa0\x80", b"\xf4\x90\x80\x80", b"\xf0\x9f\x98",
            b"\x80", b"\xbf", "é".encode(), "読む".encode(), b"\t", b"/", b"\\/", b"#t\xff", b'#a="\xff"', b"#q='\"'", b"#\xc3\xa9t\xc3\xa9=1", b"#A #a #B=2 #b=1",
            b"#z #y #x", b'#v="a\\b"', b"#n=\xe2\x80\xa8", b"{", b"}", b"[", b"]", b":", b",", b"null", b"true", b"1e9", b"\\ud800", b"\xed\xb0\x80"]

def special_text(rng):
    n = rng.choice([1, 1, 2, 3, 6])
    parts = []
    for _ in range(n):
        parts.append(rng.choice(SPECIALS) if rng.random() < 0.8 else rng.choice([b"foo", b"bar", b"x y", b"#tag"]))
    s = rng.choice([b"", b" ", b"x"]).join(parts)
    return s

def special_doc(rng):
    """a small document whose summaries are built from SPECIALS (may or may not be valid: leading blanks etc.)"""
    lines = [rng.choice([b"2020-01-01", b"1999/12/31 (8h!)", b"2024-02-29 (-30m!)", b"2000-01-01  (0m!)"])]
    for _ in range(rng.choice([0, 1, 1, 2])):
        lines.append(b"s" + special_text(rng))
    ind = rng.choice([b"    ", b"  ", b"\t"])
    for _ in range(rng.choice([0, 1, 2, 3])):
        v = rng.choice([b"1h", b"-90m", b"8:00 - 9:30", b"<23:00-1:00>", b"11:00pm - ?", b"0m", b"+15m", b"12:00am-12:00pm"])
        lines.append(ind + v + rng.choice([b"", b" " + special_text(rng), b" " + special_text(rng)]))
        if rng.random() < 0.3:
            lines.append(ind + ind + b"c" + special_text(rng))
    eol = rng.choice([b"\n", b"\n", b"\r\n"])
    return eol.join(lines) + rng.choice([eol, b""])

OVERFLOW_DOCS = [
    b"2020-01-01\n    9223372036854775807m\n    1m\n",
    b"2020-01-01\n    -9223372036854775807m\n    -1m\n",
    b"2020-01-01 (-9223372036854775807m!)\n    1m\n",
    b"2020-01-01\n    153722867280912930h7m\n    8:00 - 8:01\n",
    b"2020-01-01\n    1h\n\n2020-01-02\n    9223372036854775807m\n    0:00 - 0:01\n",
]
EDGE_DOCS = [
    b"", b"\n", b"   \n\t\n", b"2020-01-01", b"2020-01-01\n", b"2020-01-01\n\n2020-01-01\n", b"2020/01/01 (0m!)\n", b"2020-01-01 (-0m!)\n    -0m\n    +0m\n",
    b"2020-01-01\n    9223372036854775807m\n", b"2020-01-01\n    -9223372036854775807m\n", b"2020-01-01 (9223372036854775807m!)\n",
    b"2020-01-01\n    9223372036854775806m\n    1m\n", b"2020-01-01 (1m!)\n    -9223372036854775806m\n",
    b"2020-01-01\n    <0:00 - 24:00>\n", b"2020-01-01\n    <24:00 - 0:00>\n", b"2020-01-01\n    12:00am - 12:00pm\n    12:01pm-11:59pm>\n",
    b"2020-01-01\n    1h\n        \n", b"2020-01-01\n    1h \n", b"2020-01-01\n    1h  two  blanks \n", b"0000-01-01\n9999-12-31\n", b"9999-12-31\n    0:00>-?\n",
    b"2020-01-01\nfoo\rbar\n    1h a\rb\n", b"2020-01-01\r\n    1h\r\n", b"2020-01-01\n    1h #a #a #A #a=1 #a='1' #a=\"1\" #b=x-y_z #c=\n",
    b"2020-01-01\n#x=\"unterminated\n    1h #y='also\n", b"2020-01-01\n    1h " + b"y" * 70000 + b"\n", b"2020-01-01\n" + b"    1m\n" * 3000,
    "2020-01-01\n    1h #ÄÖ=Ü #ǅ #İ #ς #ῼ\n".encode(), b"2020-01-01\n    1h \xe2\x80\xa8\xe2\x80\xa9\n",
]

def fixed_docs():
    return OVERFLOW_DOCS + EDGE_DOCS

def gen_output(tier, rng):
    quick = tier == "quick"
    out = []
    def add(req, asts=None, paths=None):
        if asts is not None: AST[req] = asts
        PATHS[req] = paths
        out.append(req)
    for b in fixed_docs():
        for pretty in (0, 1):
            p = CWD + "f.klg"; add(req_run(pretty, p, b), paths=[p])
    # conforming documents
    for d in docs(rng, 1300 if quick else 100000, max_records=5, max_entries=6):
        if any(abs(e.minutes()) > 10**16 for r in d.records for e in r.entries):
            continue
        p = pick_name(rng)
        add(req_run(rng.random() < 0.4, p, d.render()), asts=[d], paths=[p])
    # faulted documents
    n = 0
    for d in docs(rng, 700 if quick else 50000, max_records=4, max_entries=5):
        f = specgen.inject_fault(d, rng)
        if f is None: continue
        p = pick_name(rng)
        add(req_run(rng.random() < 0.4, p, f[0]), paths=[p]); n += 1
    # the summaries the property text names
    for _ in range(500 if quick else 30000):
        p = pick_name(rng)
        add(req_run(rng.random() < 0.4, p, special_doc(rng)), paths=[p])
    # arbitrary bytes (the C06 stream, incl. the very long lines)
    stream = byte_stream(tier, rng, 300 if quick else 15000, 150 if quick else 8000, 1 if quick else 2)
    for b in stream:
        if quick and len(b) > 100000 and rng.random() < 0.5:
            continue
        p = CWD + "f.klg"
        add(req_run(rng.random() < 0.3, p, b), paths=[p])
    # several files in one command line
    for _ in range(150 if quick else 8000):
        k = rng.choice([2, 2, 3])
        parts, asts, paths = [], [], []
        all_ok = True
        for i in range(k):
            d = specgen.Doc(rng, max_records=3, max_entries=4)
            b = d.render()
            if rng.random() < 0.3:
                f = specgen.inject_fault(d, rng)
                if f is not None:
                    b = f[0]; all_ok = False
            p = CWD + "m%d-%s" % (i, rng.choice(NAMES[:12]))
            parts += [hx(p), hx(b)]; asts.append(d); paths.append(p)
        if any(abs(e.minutes()) > 10**16 for d in asts for r in d.records for e in r.entries):
            continue
        req = "jsonout-multi %d %s" % (rng.random() < 0.4, " ".join(parts))
        add(req, asts=asts if all_ok else None, paths=paths)
    return out

# ------------------------------------------------------------------ independent readings

RECORD_KEYS = ["date", "summary", "total", "total_mins", "should_total", "should_total_mins", "diff", "diff_mins", "tags", "entries"]
ENTRY_KEYS = {"duration": ["type", "summary", "tags", "total", "total_mins"],
              "open_range": ["type", "summary", "tags", "total", "total_mins", "start", "start_mins"],
              "range": ["type", "summary", "tags", "total", "total_mins", "start", "start_mins", "end", "end_mins"]}
ERROR_KEYS = ["line", "column", "length", "title", "details", "file"]

# klog/parser/error.go, typed from the source
MESSAGES = {
    "ErrorInvalidDate": ("Invalid date", "Please make sure that the date format is either YYYY-MM-DD or YYYY/MM/DD, and that its value represents a valid day in the calendar."),
    "ErrorIllegalIndentation": ("Unexpected indentation", "Please correct the indentation of this line. Indentation must be 2-4 spaces or one tab. You cannot mix different indentation styles within the same record."),
    "ErrorMalformedShouldTotal": ("Malformed should-total time", "Please review the syntax of the should-total time. Valid examples for it would be: (8h!) or (4h30m!) or (45m!)"),
    "ErrorUnrecognisedProperty": ("Unrecognised should-total value", "The highlighted value is not recognised. The should-total must be a time duration suffixed with an exclamation mark, e.g. 5h15m! or 8h!"),
    "ErrorMalformedPropertiesSyntax": ("Malformed should-total time", "The should-total cannot be empty and it must be surrounded by parenthesis on both sides"),
    "ErrorUnrecognisedTextInHeadline": ("Malformed headline", "The highlighted text in the headline is not recognised. Please make sure to surround the should-total with parentheses, e.g.: (5h!) You generally cannot put arbitrary text into the headline."),
    "ErrorMalformedSummary": ("Malformed summary", "Summary lines cannot start with blank characters, such as non-breaking spaces."),
    "ErrorMalformedEntry": ("Malformed entry", "Please review the syntax of the entry. It must start with a duration or a time range. Valid examples would be: 3h20m or 8:00-10:00 or 8:00-? or <23:00-6:00 or 18:00-0:30>"),
    "ErrorDuplicateOpenRange": ("Duplicate entry", "Please make sure that there is only one open (unclosed) time range in this record."),
    "ErrorIllegalRange": ("Invalid date range", "Please make sure that both time values appear in chronological order. If you want a time to be associated with an adjacent day you can use angle brackets to shift the time by one day: <23:00-6:00 or 18:00-0:30>"),
}

def dur_string(m):
    """how the specification writes a duration of m minutes (canonical form)"""
    if m == 0: return "0m"
    a = abs(m); s = "-" if m < 0 else ""
    if a // 60: s += "%dh" % (a // 60)
    if a % 60: s += "%dm" % (a % 60)
    return s

def time_string(t):
    """canonical notation of a specgen.Time: 24h or 12h clock as written, shift markers, no padding, never 24:00"""
    if t.is24:
        core = "%d:%02d" % (t.h, t.mi)
    else:
        core = "%d:%02d%s" % (12 if t.h % 12 == 0 else t.h % 12, t.mi, "am" if t.h < 12 else "pm")
    return ("<" if t.shift < 0 else "") + core + (">" if t.shift > 0 else "")

DUR_RE = re.compile(r"^(-?)(?:(\d+)h)?(?:(\d+)m)?$")
TIME_RE = re.compile(r"^(<?)(\d{1,2}):(\d{2})(am|pm)?(>?)$")

def dur_value(s):
    m = DUR_RE.match(s)
    if not m or (m.group(2) is None and m.group(3) is None): return None
    v = int(m.group(2) or 0) * 60 + int(m.group(3) or 0)
    return -v if m.group(1) else v

def time_value(s):
    m = TIME_RE.match(s)
    if not m or (m.group(1) and m.group(5)): return None
    h, mi = int(m.group(2)), int(m.group(3))
    if m.group(4):
        if not 1 <= h <= 12: return None
        h = h % 12 + (12 if m.group(4) == "pm" else 0)
    if h > 23 or mi > 59: return None
    return h * 60 + mi + (-1440 if m.group(1) else 1440 if m.group(5) else 0)

def name_char(c):
    return c.isalpha() or c in "0123456789_-"

def find_tags(line):
    """the tags of one summary line as the specification defines them, in the output notation: lower-case name,
       value unquoted when it consists of name characters, else in double quotes (single quotes if it holds a double quote)"""
    out = []; i = 0; n = len(line)
    while i < n:
        if line[i] == "#":
            j = i + 1
            while j < n and name_char(line[j]): j += 1
            if j > i + 1:
                name = line[i + 1:j]; value = ""
                if j < n and line[j] == "=":
                    k = j + 1
                    if k < n and line[k] in "\"'" and line.find(line[k], k + 1) >= 0:
                        e = line.find(line[k], k + 1)
                        value = line[k + 1:e]; j = e + 1
                    else:
                        e = k
                        while e < n and name_char(line[e]): e += 1
                        value = line[k:e]; j = e
                s = "#" + name.lower()
                if value != "":
                    q = "" if all(name_char(c) for c in value) else ("'" if '"' in value else '"')
                    s += "=" + q + value + q
                out.append(s); i = j; continue
        i += 1
    return out

def tags_of(lines):
    ts = [t for l in lines for t in find_tags(l)]
    return sorted(ts, key=lambda s: s.encode("utf-8", "surrogatepass"))

class Keep(dict):
    """json object that remembers duplicate keys"""
    pass

def load(b):
    dups = []
    def hook(pairs):
        ks = [k for k, _ in pairs]
        if len(set(ks)) != len(ks): dups.append(ks)
        return dict(pairs)
    v = json.loads(b.decode("utf-8"), object_pairs_hook=hook, parse_constant=lambda c: (_ for _ in ()).throw(ValueError(c)))
    if dups: raise ValueError("duplicate keys %r" % dups)
    return v

def is_int(x):
    return isinstance(x, int) and not isinstance(x, bool)

def check_envelope(stdout):
    """-> (envelope, None) or (None, reason)"""
    if not stdout.endswith(b"\n") or stdout.endswith(b"\n\n"):
        return None, "stdout is not one document followed by one newline"
    try:
        v = load(stdout)
    except Exception as e:
        return None, "stdout is not a well-formed JSON document: %s" % e
    if not isinstance(v, dict) or not {"records", "errors"} <= set(v.keys()):
        return None, "the top level is not an object with the members records, errors"
    if (v["records"] is None) == (v["errors"] is None):
        return None, "not exactly one of records / errors is null"
    return v, None

def check_record(r):
    if not isinstance(r, dict) or not set(RECORD_KEYS) <= set(r.keys()):
        return "record members %r" % (list(r.keys()) if isinstance(r, dict) else r,)
    for k in ("date", "summary", "total", "should_total", "diff"):
        if not isinstance(r[k], str): return "record member %s is not a string" % k
    for k in ("total_mins", "should_total_mins", "diff_mins"):
        if not is_int(r[k]): return "record member %s is not an integer" % k
    if not isinstance(r["tags"], list) or not all(isinstance(t, str) for t in r["tags"]): return "record tags"
    if not isinstance(r["entries"], list): return "record entries"
    if r["tags"] != sorted(r["tags"], key=lambda s: s.encode("utf-8", "surrogatepass")): return "record tags are not sorted"
    s = 0
    for e in r["entries"]:
        if not isinstance(e, dict) or e.get("type") not in ENTRY_KEYS or not set(ENTRY_KEYS[e["type"]]) <= set(e.keys()):
            return "entry members %r" % (list(e.keys()) if isinstance(e, dict) else e,)
        if not isinstance(e["summary"], str) or not isinstance(e["total"], str) or not is_int(e["total_mins"]): return "entry member types"
        if not isinstance(e["tags"], list) or not all(isinstance(t, str) for t in e["tags"]): return "entry tags"
        if e["tags"] != sorted(e["tags"], key=lambda s: s.encode("utf-8", "surrogatepass")): return "entry tags are not sorted"
        if dur_value(e["total"]) != e["total_mins"] or e["total"] != dur_string(e["total_mins"]):
            return "entry total %r does not denote total_mins %d" % (e["total"], e["total_mins"])
        if e["type"] in ("range", "open_range"):
            if not isinstance(e["start"], str) or not is_int(e["start_mins"]) or time_value(e["start"]) != e["start_mins"]:
                return "start %r does not denote start_mins %r" % (e["start"], e["start_mins"])
        if e["type"] == "range":
            if not isinstance(e["end"], str) or not is_int(e["end_mins"]) or time_value(e["end"]) != e["end_mins"]:
                return "end %r does not denote end_mins %r" % (e["end"], e["end_mins"])
            if e["total_mins"] != e["end_mins"] - e["start_mins"]:
                return "range total_mins %d is not end_mins - start_mins" % e["total_mins"]
        if e["type"] == "open_range" and e["total_mins"] != 0:
            return "open range counted with %d minutes" % e["total_mins"]
        s += e["total_mins"]
    if r["total_mins"] != s: return "total_mins %d is not the sum of the entries' total_mins %d" % (r["total_mins"], s)
    if r["diff_mins"] != r["total_mins"] - r["should_total_mins"]: return "diff_mins is not total_mins - should_total_mins"
    if dur_value(r["total"]) != r["total_mins"] or r["total"] != dur_string(r["total_mins"]): return "total %r does not denote total_mins" % r["total"]
    st = r["should_total"]
    if st.endswith("!"):
        if dur_value(st[:-1]) != r["should_total_mins"]: return "should_total %r does not denote should_total_mins" % st
    elif not (st == "0m" and r["should_total_mins"] == 0): return "should_total %r" % st
    d = r["diff"]
    if r["diff_mins"] > 0:
        if not d.startswith("+") or dur_value(d[1:]) != r["diff_mins"]: return "diff %r does not denote diff_mins" % d
    elif dur_value(d) != r["diff_mins"]: return "diff %r does not denote diff_mins" % d
    if not re.match(r"^\d{4}([-/])\d{2}\1\d{2}$", r["date"]): return "date %r" % r["date"]
    return None

def check_against_ast(records, asts):
    want = [r for d in asts for r in d.records]
    if len(records) != len(want): return "%d record objects for %d records" % (len(records), len(want))
    for got, r in zip(records, want):
        if got["date"] != r.date_text(): return "date %r, the file says %r" % (got["date"], r.date_text())
        if got["summary"] != "\n".join(r.summary): return "record summary %r, the file says %r" % (got["summary"], r.summary)
        sh = r.should.mins() if r.should is not None else 0
        if got["should_total_mins"] != sh: return "should_total_mins %d, the file says %d" % (got["should_total_mins"], sh)
        if got["should_total"] != (dur_string(sh) + "!" if r.should is not None else "0m"): return "should_total %r" % got["should_total"]
        if got["tags"] != tags_of(r.summary): return "record tags %r, the summary holds %r" % (got["tags"], tags_of(r.summary))
        if len(got["entries"]) != len(r.entries): return "%d entry objects for %d entries" % (len(got["entries"]), len(r.entries))
        for ge, e in zip(got["entries"], r.entries):
            ty = {"dur": "duration", "range": "range", "open": "open_range"}[e.kind]
            if ge["type"] != ty: return "entry type %r, the file says %r" % (ge["type"], ty)
            if ge["summary"] != "\n".join(e.summary_lines()): return "entry summary %r, the file says %r" % (ge["summary"], e.summary_lines())
            if ge["tags"] != tags_of(e.summary_lines()): return "entry tags %r, the summary holds %r" % (ge["tags"], tags_of(e.summary_lines()))
            if ge["total_mins"] != e.minutes(): return "entry total_mins %d, the file says %d" % (ge["total_mins"], e.minutes())
            if e.kind != "dur":
                if ge["start"] != time_string(e.a) or ge["start_mins"] != e.a.off:
                    return "start %r/%r, the file says %r/%d" % (ge["start"], ge["start_mins"], time_string(e.a), e.a.off)
            if e.kind == "range":
                if ge["end"] != time_string(e.b) or ge["end_mins"] != e.b.off:
                    return "end %r/%r, the file says %r/%d" % (ge["end"], ge["end_mins"], time_string(e.b), e.b.off)
    return None

def parse_own_errors(tok):
    """the parser's own error list as printed by the harness: per file `_` or line:pos:len:code:hex,..."""
    files = []
    for f in tok.split("/"):
        if f == "_": files.append([]); continue
        es = []
        for e in f.split(","):
            ln, pos, length, code, _ = e.split(":")
            es.append((int(ln), int(pos), int(length), code))
        files.append(es)
    return files

def check_errors(errors, own, paths):
    want = [(e, p) for es, p in zip(own, paths) for e in es]
    if len(errors) != len(want): return "%d error objects, the parser reported %d errors" % (len(errors), len(want))
    for got, ((ln, pos, length, code), p) in zip(errors, want):
        if not isinstance(got, dict) or not set(ERROR_KEYS) <= set(got.keys()): return "error members %r" % (got,)
        if (got["line"], got["column"], got["length"]) != (ln, pos + 1, length):
            return "error object says line %r column %r length %r, the parser reported line %d position %d length %d" % (got["line"], got["column"], got["length"], ln, pos, length)
        if (got["title"], got["details"]) != MESSAGES[code]: return "title/details are not those of %s" % code
        if got["file"] != p: return "file %r, the command line named %r" % (got["file"], p)
    return None

def oracle_output(req, out):
    f = out.split(" ")
    if f[0] != "ok":
        return "`klog json` did not produce a document: %s" % out[:120]
    if f[1] != "0": return "exit code %s" % f[1]
    stdout = unhx(f[2])
    env, why = check_envelope(stdout)
    if why: return why
    own = parse_own_errors(f[3])
    paths = PATHS.get(req)
    if paths is None:   # corpus line: recover the paths from the request
        a = req.split(" ")[2:]
        paths = [unhx(a[i]).decode("utf-8", "replace") for i in range(0, len(a), 2)]
    invalid = any(own)
    if invalid != (env["errors"] is not None):
        return "errors is %s although the parser %s" % ("null" if env["errors"] is None else "set", "reported errors" if invalid else "accepted every file")
    if env["errors"] is not None:
        return check_errors(env["errors"], own, paths)
    for r in env["records"]:
        why = check_record(r)
        if why: return why
    asts = AST.get(req)
    if asts is not None:
        return check_against_ast(env["records"], asts)
    return None

# ------------------------------------------------------------------ ToJson with arbitrary origins

def go_sanitize(b):
    """string([]rune(s)) in Go: every byte that is not part of a valid UTF-8 sequence becomes U+FFFD (one per byte)"""
    out = []; i = 0
    while i < len(b):
        c = b[i]
        need = 1 if c < 0x80 else 2 if 0xc2 <= c <= 0xdf else 3 if 0xe0 <= c <= 0xef else 4 if 0xf0 <= c <= 0xf4 else 0
        ch = None
        if need and i + need <= len(b):
            try: ch = b[i:i + need].decode("utf-8")
            except UnicodeDecodeError: ch = None
        if ch is None: out.append("\ufffd"); i += 1
        else: out.append(ch); i += need
    return "".join(out)

ORIGINS = [b"", b"f.klg", b"/a/b/c/file.klg", b"\xff", b"f\xff.klg", b"\xc3", b"\xe2\x80", b"\xe2\x80\xa8", b"\xed\xa0\x80", b"\xf4\x90\x80\x80", b"\xc0\xaf",
           b"a\x80b\xbfc", b'q"\\\x00\x1f\x7f<>&', "ü読😀".encode(), b"\xf0\x9f\x98", b"\xef\xbf\xbd\xff\xef\xbf\xbd", b"\n\r\t", b"\xfe\xff"]

def gen_api(tier, rng):
    quick = tier == "quick"
    out = []
    def add(o, b, asts=None):
        req = "jsonout-api %d %s %s" % (rng.random() < 0.4, hx(o), hx(b))
        if asts is not None: AST[req] = asts
        PATHS[req] = [go_sanitize(o)]
        out.append(req)
    for o in ORIGINS:
        add(o, b"2018-99-99\n asdf\n"); add(o, b"2020-01-01\n    1h\n")
    for d in docs(rng, 400 if quick else 25000, max_records=3, max_entries=4):
        o = rng.choice(ORIGINS) if rng.random() < 0.7 else bytes(rng.randrange(256) for _ in range(rng.choice([1, 2, 3, 5, 9])))
        f = specgen.inject_fault(d, rng)
        if f is not None and rng.random() < 0.75:
            add(o, f[0])
        elif not any(abs(e.minutes()) > 10**16 for r in d.records for e in r.entries):
            add(o, d.render(), asts=[d])
    for _ in range(100 if quick else 8000):
        add(rng.choice(ORIGINS), special_doc(rng))
    return out

# ------------------------------------------------------------------ known finding K1 (totals beyond int64)

ENTRY_DUR = re.compile(rb"^(?:    |   |  |\t)([-+]?)(?:(\d+)h)?(?:(\d+)m)?(?:[ \t].*)?$")
TIME_B = rb"(<?)(\d{1,2}):(\d{2})(am|pm)?(>?)"
ENTRY_RANGE = re.compile(rb"^(?:    |   |  |\t)" + TIME_B + rb" *- *" + TIME_B + rb"(?:[ \t].*)?$")
SHOULD = re.compile(rb"^\S+\s+\(\s*([-+]?)(?:(\d+)h)?(?:(\d+)m)?!\s*\)")

def _offset(lt, h, mi, ap, gt):
    h = int(h)
    if ap: h = h % 12 + (12 if ap == b"pm" else 0)
    return h * 60 + int(mi) + (-1440 if lt else 1440 if gt else 0)

def total_overflows(text):
    """some record's running total, or its total minus its should-total, leaves safemath's range"""
    lim = I64
    for block in re.split(rb"\n[ \t]*(?:\n[ \t]*)+", text.replace(b"\r\n", b"\n")):
        ls = block.split(b"\n")
        should = 0
        m = SHOULD.match(ls[0]) if ls else None
        if m and (m.group(2) or m.group(3)):
            should = (int(m.group(2) or 0) * 60 + int(m.group(3) or 0)) * (-1 if m.group(1) == b"-" else 1)
        acc = 0
        for l in ls[1:]:
            m = ENTRY_DUR.match(l)
            v = None
            if m and (m.group(2) or m.group(3)):
                v = (int(m.group(2) or 0) * 60 + int(m.group(3) or 0)) * (-1 if m.group(1) == b"-" else 1)
            else:
                g = ENTRY_RANGE.match(l)
                if g: v = _offset(*g.groups()[5:10]) - _offset(*g.groups()[0:5])
            if v is None: continue
            if abs(acc + v) > lim: return True
            acc += v
        if abs(acc - should) > lim: return True
    return False

def k1_json_total_overflow(req, out):
    """klog panicked (`klog json`, or `klog print` checking for warnings) AND some record's running total
       (or total minus should-total) leaves safemath's range"""
    if out != "crash": return False
    a = req.split(" ")
    if a[0] == "jsonout-terminal": texts = [unhx(a[2])]
    elif a[0] in ("jsonout-run", "jsonout-api", "jsonout-multi"): texts = [unhx(a[i]) for i in range(3, len(a), 2)]
    else: return False
    return any(total_overflows(t) for t in texts)

# ------------------------------------------------------------------ terminal report

def gen_terminal(tier, rng):
    quick = tier == "quick"
    out = []
    for d in docs(rng, 400 if quick else 30000, max_records=4, max_entries=5):
        f = specgen.inject_fault(d, rng)
        if f is None: continue
        b = f[0] if rng.random() < 0.8 else mutate(rng, f[0])
        out.append("jsonout-terminal %s %s" % (hx(CWD + rng.choice(NAMES[:4] + NAMES[5:9])), hx(b)))
    for _ in range(120 if quick else 8000):
        out.append("jsonout-terminal %s %s" % (hx(CWD + "f.klg"), hx(special_doc(rng))))
    for b in byte_stream(tier, rng, 120 if quick else 5000, 50 if quick else 2500, 1):
        if len(b) < 20000:
            out.append("jsonout-terminal %s %s" % (hx(CWD + "f.klg"), hx(b)))
    return out

HEADER = re.compile(rb"^\[SYNTAX ERROR\] in line (\d+) of file (.*)$")
CARETS = re.compile(rb"^    ( *)(\^*)$")

def oracle_terminal(req, out):
    f = out.split(" ")
    if f[0] == "valid": return None
    if f[0] != "ok": return "no terminal report: %s" % out[:120]
    if f[1] != "8": return "exit code %s for a file with syntax errors" % f[1]
    text, stdout = unhx(f[2]), unhx(f[3])
    env, why = check_envelope(stdout)
    if why: return why
    if env["errors"] is None: return "the terminal reports errors, the JSON output has none"
    path = unhx(req.split(" ")[1])
    rows = text.split(b"\n")
    # blocks start at every header row; a block: "", header, quoted line, caret row, message rows...
    blocks = []
    i = 0
    while i < len(rows):
        m = HEADER.match(rows[i])
        if m and i >= 1 and rows[i - 1] == b"" and i + 2 < len(rows) and CARETS.match(rows[i + 2]):
            j = i + 3
            msg = []
            while j < len(rows) and rows[j].startswith(b"    ") and not (j + 1 < len(rows) and HEADER.match(rows[j + 1]) and rows[j] == b""):
                msg.append(rows[j][4:]); j += 1
            blocks.append((int(m.group(1)), m.group(2), rows[i + 1], CARETS.match(rows[i + 2]), b" ".join(msg)))
            i = j
        else:
            i += 1
    if len(blocks) != len(env["errors"]):
        return "the terminal shows %d error blocks, the JSON output %d error objects" % (len(blocks), len(env["errors"]))
    for (ln, file, quoted, car, msg), e in zip(blocks, env["errors"]):
        if ln != e["line"]: return "terminal: line %d, JSON: line %d" % (ln, e["line"])
        if len(car.group(1)) != e["column"] - 1: return "terminal: caret offset %d, JSON: column %d" % (len(car.group(1)), e["column"])
        if len(car.group(2)) != e["length"]: return "terminal: %d carets, JSON: length %d" % (len(car.group(2)), e["length"])
        if msg.decode() != e["title"] + ": " + e["details"]: return "terminal message %r, JSON %r" % (msg, e["title"] + ": " + e["details"])
        if file != path or e["file"].encode("utf-8", "surrogatepass") != path: return "file names differ"
    return None

# ------------------------------------------------------------------ filters and --sort (implementation only)

def gen_flags(tier, rng):
    quick = tier == "quick"
    out = []
    for d in docs(rng, 400 if quick else 20000, max_records=6, max_entries=5):
        if not d.records: continue
        if any(abs(e.minutes()) > 10**16 for r in d.records for e in r.entries): continue
        r0 = rng.choice(d.records)
        date = "%04d-%02d-%02d" % r0.ymd
        flags = rng.choice([["--sort", "asc"], ["--sort", "desc"], ["--sort", "ASC"], ["--date", date], ["--since", date], ["--until", date],
                            ["--since", date, "--sort", "desc"], ["--entry-type", "range"], ["--entry-type", "duration"], ["--entry-type", "open-range"],
                            ["--entry-type", "duration-negative"], ["--entry-type", "duration-positive"], ["--tag", "tag"], ["--tag", "#tag=1"], ["--tag", "p"],
                            ["--pretty", "--sort", "asc"], ["--until", date, "--entry-type", "range"]])
        out.append("jsonout-cli %s %s" % (hx(d.render()), " ".join(hx(x) for x in flags)))
    return out

def tag_name(s):
    return s[1:].split("=", 1)[0]

def tag_matches(q, tags):
    """q: queried tag as typed (name or name=value); tags: output notation strings"""
    q = q.lstrip("#")
    if "=" in q:
        n, v = q.split("=", 1)
        return any(t == "#%s=%s" % (n.lower(), v) or t == '#%s="%s"' % (n.lower(), v) for t in tags)
    return any(tag_name(t) == q.lower() for t in tags)

def oracle_flags(req, out):
    f = out.split(" ")
    if f[0] != "ok": return "`klog json` with flags failed: %s" % out[:120]
    got, why = check_envelope(unhx(f[1]))
    if why: return "with flags: " + why
    plain, why = check_envelope(unhx(f[2]))
    if why: return why
    if got["records"] is None or plain["records"] is None: return "valid file reported as invalid"
    for r in got["records"]:
        why = check_record(r)
        if why: return "with flags: " + why
    flags = [unhx(x).decode() for x in req.split(" ")[2:]]
    want = plain["records"]
    key = lambda r: r["date"].replace("/", "-")
    i = 0
    sort = None
    while i < len(flags):
        fl = flags[i]
        if fl == "--pretty": i += 1; continue
        arg = flags[i + 1]; i += 2
        if fl == "--sort": sort = arg.lower()
        elif fl == "--date": want = [r for r in want if key(r) == arg]
        elif fl == "--since": want = [r for r in want if key(r) >= arg]
        elif fl == "--until": want = [r for r in want if key(r) <= arg]
        elif fl == "--entry-type":
            keep = {"range": lambda e: e["type"] == "range", "open-range": lambda e: e["type"] == "open_range",
                    "duration": lambda e: e["type"] == "duration",
                    "duration-positive": lambda e: e["type"] == "duration" and e["total_mins"] >= 0,
                    "duration-negative": lambda e: e["type"] == "duration" and e["total_mins"] < 0}[arg]
            want = [reduce_entries(r, [e for e in r["entries"] if keep(e)]) for r in want]
            want = [r for r in want if r is not None]
        elif fl == "--tag":
            nw = []
            for r in want:
                if tag_matches(arg, r["tags"]): nw.append(r); continue
                r2 = reduce_entries(r, [e for e in r["entries"] if tag_matches(arg, r["tags"] + e["tags"])])
                if r2 is not None: nw.append(r2)
            want = nw
    # members the property does not name are left out of the comparison
    known = lambda rs: [dict({k: r[k] for k in RECORD_KEYS if k in r and k != "entries"},
                             entries=[{k: e[k] for k in ENTRY_KEYS.get(e.get("type"), []) if k in e} for e in r.get("entries", [])]) for r in rs]
    got = dict(got, records=known(got["records"])); want = known(want)
    if sort is None:
        if got["records"] != want: return "the filtered output is not the selection the flags %r describe" % flags
    else:
        ks = [key(r) for r in got["records"]]
        if ks != sorted(ks, reverse=(sort == "desc")): return "--sort %s: dates not in order" % sort
        canon = lambda rs: sorted(json.dumps(r, sort_keys=True) for r in rs)
        if canon(got["records"]) != canon(want): return "--sort changed the records themselves"
    return None

def reduce_entries(r, es):
    """the record restricted to the entries es, totals recomputed; None if nothing is left"""
    if not es: return None
    r2 = dict(r); r2["entries"] = es
    t = sum(e["total_mins"] for e in es)
    d = t - r["should_total_mins"]
    r2["total_mins"] = t; r2["total"] = dur_string(t)
    r2["diff_mins"] = d; r2["diff"] = ("+" if d > 0 else "") + dur_string(d)
    return r2

# ------------------------------------------------------------------ suites

def nontrivial_output(req, out):
    return out.startswith("ok 0 ") and len(out) > 120

def json_projection():
    """members that the property does not name (a future `id`, say), the order of members and the white space of --pretty are
       presentation: before the model's and the implementation's documents are compared, every hex token that holds a JSON
       object is read, reduced to the members the property names (envelope: records, errors; record, entry and error objects:
       the members listed above) and written back in one canonical form. A token that cannot be read stays as it is.
       Well-formedness, `exactly one of records / errors`, the arithmetic and the faithfulness to the file are judged by
       the oracle on the raw bytes."""
    def prune(v):
        if not isinstance(v, dict):
            return v
        out = {}
        for k in ("records", "errors"):
            if k in v: out[k] = v[k]
        if isinstance(out.get("records"), list):
            rs = []
            for r in out["records"]:
                if isinstance(r, dict):
                    r2 = {k: r[k] for k in RECORD_KEYS if k in r}
                    if isinstance(r2.get("entries"), list):
                        r2["entries"] = [({k: e[k] for k in ENTRY_KEYS.get(e.get("type"), list(e.keys())) if k in e} if isinstance(e, dict) else e) for e in r2["entries"]]
                    rs.append(r2)
                else:
                    rs.append(r)
            out["records"] = rs
        if isinstance(out.get("errors"), list):
            out["errors"] = [({k: e[k] for k in ERROR_KEYS if k in e} if isinstance(e, dict) else e) for e in out["errors"]]
        return out
    def f(req, line):
        toks = line.split(" ")
        for i, x in enumerate(toks):
            if len(x) < 4 or not x.startswith("7b"):
                continue
            try:
                b = unhx(x)
                v = load(b)
                toks[i] = hx(json.dumps(prune(v), sort_keys=True, ensure_ascii=True, separators=(",", ":")).encode() + (b"\n" if b.endswith(b"\n") else b""))
            except Exception:
                pass
        return " ".join(toks)
    return f

def suites():
    return [
        Suite("output", gen_output, oracle=oracle_output, project=json_projection, nontrivial=nontrivial_output,
              rule="stdout of `klog json [--pretty] FILE...` (one to three files, odd file names) on conforming documents, faulted documents, "
                   "summaries made of quotes / backslashes / control characters / <>& / non-ASCII / U+2028-9 / invalid UTF-8, the arbitrary-byte stream with "
                   "very long lines, and totals beyond int64; model and implementation agree on the document reduced to the members the property names (canonical form); oracle = Python json.loads + envelope, members present, "
                   "arithmetic relations, notation/minute agreement, data of the specgen AST, error numbers = the parser's own; non-trivial = a document was printed"),
        Suite("api", gen_api, oracle=oracle_output, project=json_projection, nontrivial=nontrivial_output,
              rule="json.ToJson called directly on the parser's result with the errors' origin set to arbitrary bytes (invalid, truncated, overlong, surrogate "
                   "UTF-8; control characters) - the command line cannot carry such names, kong re-encodes them; model and implementation byte-identical; "
                   "oracle as for `output`, with file = the origin with every invalid byte replaced by U+FFFD"),
        Suite("terminal", gen_terminal, oracle=oracle_terminal, project=json_projection,
              rule="error text of `klog print FILE` with colours off next to `klog json FILE` on faulted documents and arbitrary bytes; model (PrettifyParsingError + "
                   "Reflower) and implementation byte-identical; oracle = line number, caret offset, caret count and re-joined message of every block equal "
                   "line, column-1, length, title: details of the JSON error object; non-trivial = a report was printed"),
        Suite("flags", gen_flags, oracle=oracle_flags, model=False,
              rule="`klog json` with --sort asc|desc, --date/--since/--until, --entry-type, --tag next to the plain output of the same file (implementation only): "
                   "the result is exactly the selected records (entries reduced, totals recomputed), each still satisfying the arithmetic relations; --sort yields a "
                   "date-ordered permutation"),
    ]
