(* Show: canonical one-line printers shared by all correspondence suites, and request tokenising.
   Everything the OCaml driver prints is produced here, in Gallina. *)
From Klog Require Import Base.Prelude Model.Calendar Model.Values.
Open Scope Z_scope.

Definition sp : bytes := [32%N].
Definition words (l : list bytes) : bytes := join sp l.

Definition show_error (e : error) : bytes :=
  match e with
  | EMalformedTime => b!"MALFORMED_TIME"
  | EInvalidTime => b!"INVALID_TIME"
  | EMalformedDuration => b!"MALFORMED_DURATION"
  | EUnrepresentableDuration => b!"UNREPRESENTABLE_DURATION"
  | EMalformedDate => b!"MALFORMED_DATE"
  | EUnrepresentableDate => b!"UNREPRESENTABLE_DATE"
  | EIllegalRange => b!"ILLEGAL_RANGE"
  | EImpossibleOperation => b!"IMPOSSIBLE_OPERATION"
  | EOther c => b!"E" ++ dec (Z.of_N c)
  end.

Definition show_outcome {A} (f : A -> bytes) (x : outcome A) : bytes :=
  match x with
  | Ok a => b!"ok " ++ f a
  | Err e => b!"err " ++ show_error e
  | Crash _ => b!"crash"
  end.

Definition show_bool (x : bool) : bytes := if x then b!"1" else b!"0".

Definition show_time (t : time) : bytes :=
  words [dec (t_hour t); dec (t_min t); dec (t_shift t); show_bool (t_24h t);
         dec (time_offset t); hex_of_bytes (print_time t)].

Definition show_duration (d : duration) : bytes :=
  words [dec (d_mins d); dec (d_zsign d);
         hex_of_bytes (print_duration d); hex_of_bytes (print_duration_signed d)].

Definition show_date (d : date) : bytes :=
  words [dec (c_year (dt d)); dec (c_month (dt d)); dec (c_day (dt d)); show_bool (dt_dashes d);
         hex_of_bytes (print_date d)].

Definition show_range (r : range) : bytes :=
  words [dec (range_minutes r); hex_of_bytes (print_range r)].

(* ---- request parsing ---- *)

Fixpoint split_on (c : N) (s : bytes) (cur : bytes) : list bytes :=
  match s with
  | [] => [rev cur]
  | x :: r => if (x =? c)%N then rev cur :: split_on c r [] else split_on c r (x :: cur)
  end.

Definition tokens (s : bytes) : list bytes := split_on 32%N s [].

Definition parse_int (s : bytes) : Z :=
  match s with
  | 45%N :: r => - digits_val r
  | _ => digits_val s
  end.

Definition arg_bytes (s : bytes) : bytes :=
  (* "-" stands for the empty string *)
  match s with [45%N] => [] | _ => bytes_of_hex s end.
