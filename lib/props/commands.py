"""generators and oracles shared by the command properties C03, C04, C05, C11, C17.

A request is a history: configuration, a starting file, and steps (clock + command). Each step of the result is
  <ok|fail|crash>:<hex file after>:<v|i>:<hex of the canonical parse of that file>
The oracles below are written from the property texts, independently of the Coq model and of klog's code."""
import sys, os, random, datetime, difflib, re
sys.path.insert(0, os.path.dirname(os.path.dirname(os.path.abspath(__file__))))
from common import hx, unhx
import specgen
from props.parsing import docs, text_lines

def hl(lines):
    return ",".join(hx(l.encode() if isinstance(l, str) else l) for l in lines)

# ------------------------------------------------------------------ history generation

class Step:
    def __init__(self, clock, kind, args, meta=None):
        self.clock, self.kind, self.args, self.meta = clock, kind, args, meta or {}
    def tokens(self):
        c = self.clock
        a = list(self.args) + ["_"] * (6 - len(self.args))
        return "%d %d %d %d %d %s %s" % (c.year, c.month, c.day, c.hour, c.minute, self.kind, " ".join(a))

TRACK_EXPECT = {}

def clean_lines(rng, first_may_be_value=False):
    """entry-summary lines acceptable to the command line decoder: first line free, later lines non-blank"""
    n = rng.choice([1, 1, 1, 2, 3])
    return [specgen.summary_text(rng).replace("\r", "") for _ in range(n)]

def rand_datesel(rng, today, doc):
    k = rng.random()
    if k < 0.45: return "d", today
    if k < 0.5: return "t", today
    if k < 0.6: return "y", today - datetime.timedelta(days=1)
    if k < 0.65: return "m", today + datetime.timedelta(days=1)
    # explicit date: an existing record's date or a fresh one
    cands = [r.ymd for r in doc.records if 1 <= r.ymd[0] <= 9998]
    if cands and rng.random() < 0.6:
        y, m, d = rng.choice(cands)
        dd = datetime.date(y, m, d)
    else:
        dd = today + datetime.timedelta(days=rng.randint(-400, 400))
    sep = rng.choice("-/")
    return hx(("%04d%s%02d%s%02d" % (dd.year, sep, dd.month, sep, dd.day)).encode()), dd

def rand_time_arg(rng):
    if rng.random() < 0.45:
        return "_"
    return hx(specgen.Time(rng).text().encode())

def special_docs(rng, doc):
    """situations that need something specific: duplicate dates; pauses written as 0m / +0m / 0h with dashes in the summary"""
    k = rng.random()
    if k < 0.15 and len(doc.records) >= 2:
        a, b = rng.sample(range(len(doc.records)), 2)
        doc.records[b].ymd = doc.records[a].ymd            # two records sharing a date (legal)
    return doc

PAUSE_FORMS = ["-30m\tLunch break", "-1h\tx y", "0m\ttab", "-5m \t mixed", "0m", "+0m", "-0m", "0h", "-0h0m", "0m foo-bar", "+0m x-1m y", "-5m lunch-break", "-1h5m", "0m -", "-0m  #tag-a"]

def pause_scenario(rng):
    """a record dated 'today' with an open range and an existing pause in one of the spellings the specification allows"""
    day = datetime.date(2022, rng.randint(1, 12), rng.randint(1, 28))
    ind = rng.choice(["    ", "  ", "\t", "   "])
    eol = rng.choice(["\n", "\r\n"])
    lines = ["%04d-%02d-%02d" % (day.year, day.month, day.day)]
    if rng.random() < 0.5: lines.append("summary - with-dash")
    lines.append(ind + rng.choice(["8:00 - ?", "8:00-??? work #t-1", "<23:00 - ? x-y"]))
    if rng.random() < 0.5: lines.append(ind + ind + "more - text-1m")
    lines.append(ind + rng.choice(PAUSE_FORMS))
    if rng.random() < 0.4: lines.append(ind + ind + "pause-note -3m")
    text = eol.join(lines) + (eol if rng.random() < 0.8 else "")
    now = datetime.datetime(day.year, day.month, day.day, 12, rng.randrange(60))
    ticks = []
    t = 0
    for _ in range(rng.choice([1, 2, 4])):
        t += rng.choice([61, 125, 30, 600, -100]); ticks.append(str(t))
    steps = [Step(now, "stop", [hx(b"0001-01-01"), hx(b"0:00"), "_", "_"]),
             Step(now, "pause", ["_", rng.choice("01"), "1", ",".join(ticks)])]
    return text.encode(), ["_", "_", "_", "_"], steps

def make_history(rng, max_steps=6, kinds=None, doc=None):
    doc = doc or special_docs(rng, specgen.Doc(rng, max_records=4, max_entries=4))
    dates = [datetime.date(*r.ymd) for r in doc.records if 1 <= r.ymd[0] <= 9998]
    base = rng.choice(dates) if dates and rng.random() < 0.8 else datetime.date(2021, 3, 14)
    base += datetime.timedelta(days=rng.choice([0, 0, 0, 1, 1, -1, 2]))
    now = datetime.datetime(base.year, base.month, base.day, rng.randrange(24), rng.randrange(60))
    cfg = ["_" if rng.random() < 0.7 else str(rng.choice([5, 10, 12, 15, 20, 30, 60])),
           "_" if rng.random() < 0.7 else str(rng.choice([480, 450, 0, -60])),
           "_" if rng.random() < 0.7 else rng.choice("01"),
           "_" if rng.random() < 0.7 else rng.choice("01")]
    steps = []
    kinds = kinds or ["track", "track", "start", "start", "stop", "stop", "switch", "create", "pause"]
    for _ in range(rng.randint(1, max_steps)):
        k = rng.choice(kinds)
        today = now.date()
        if k == "track":
            ds, _ = rand_datesel(rng, today, doc)
            e = specgen.Entry(rng, allow_open=rng.random() < 0.3)
            lines = [e.value_text() + ((" " + e.first) if e.first is not None else "")] + [t for _, t in e.more]
            lines = [l.replace("\r", "") for l in lines]
            sem = (("D", e.d.mins(), None) if e.kind == "dur" else ("G", e.a.off, e.b.off) if e.kind == "range" else ("O", e.a.off, None)) \
                  + (tuple([(e.first or "").replace("\r", "").encode()] + [t.replace("\r", "").encode() for _, t in e.more]),)
            if rng.random() < 0.06:
                lines = [rng.choice(["foo", "1x", "25:00-26:00", "x 1h", "  1h", "10:00 - 9:00"])]     # not an entry
                sem = "skip" if lines[0].startswith(" ") else "fail"
            arg = hl(lines)
            TRACK_EXPECT[arg] = sem
            steps.append(Step(now, k, [ds, arg]))
        elif k in ("start", "switch"):
            ds, _ = rand_datesel(rng, today, doc)
            r = rng.random()
            sm = hl(clean_lines(rng)) if r < 0.4 else "_"
            resume = "1" if 0.4 <= r < 0.55 else "0"
            nth = str(rng.choice([1, 2, -1, -2, 5])) if 0.55 <= r < 0.65 else "0"
            if rng.random() < 0.03: resume = "1"      # occasionally conflicting flags
            steps.append(Step(now, k, [ds, rand_time_arg(rng), "_" if rng.random() < 0.6 else str(rng.choice([5, 10, 12, 15, 20, 30, 60])), sm, resume, nth]))
        elif k == "stop":
            ds, _ = rand_datesel(rng, today, doc)
            steps.append(Step(now, k, [ds, rand_time_arg(rng), "_" if rng.random() < 0.6 else str(rng.choice([5, 10, 12, 15, 20, 30, 60])),
                                       hl(clean_lines(rng)) if rng.random() < 0.4 else "_"]))
        elif k == "create":
            ds, _ = rand_datesel(rng, today, doc)
            sm = "_"
            if rng.random() < 0.4:
                sm = hl([specgen.summary_text(rng).replace("\r", "") for _ in range(rng.choice([1, 2]))])
            steps.append(Step(now, k, [ds, "_" if rng.random() < 0.6 else str(rng.choice([480, 1, -30, 0, 6000])), sm]))
        elif k == "pause":
            ticks = []
            t = 0
            for _ in range(rng.choice([0, 1, 3, 6])):
                t += rng.choice([10, 30, 59, 60, 61, 125, 600, -50, -200, 3600])
                ticks.append(str(t))
            ext = rng.random() < 0.3
            both = rng.random() < 0.08      # --extend together with --summary must be rejected
            steps.append(Step(now, k, ["_" if ((ext and not both) or rng.random() < 0.5) else hl(clean_lines(rng)), rng.choice("01"), "1" if (ext or both) else "0", ",".join(ticks) if ticks else "_"]))
        now += datetime.timedelta(minutes=rng.choice([1, 7, 30, 90, 240, 1440]))
    return doc, cfg, steps

def history_request(doc_bytes, cfg, steps):
    return "cmd-hist %s %s %s" % (" ".join(cfg), doc_bytes.hex() if doc_bytes else "-", " ".join(s.tokens() for s in steps))

def parse_request(req):
    t = req.split(" ")
    cfg, file0, rest = t[1:5], unhx(t[5]), t[6:]
    steps = [rest[i:i + 12] for i in range(0, len(rest), 12)]
    return cfg, file0, steps

def parse_result(out):
    res = []
    for s in out.split(" "):
        f = s.split(":")
        if len(f) != 4:
            return None
        res.append((f[0], unhx(f[1]), f[2] == "v", unhx(f[3]).decode("utf-8", "replace")))
    return res

# ------------------------------------------------------------------ C05

def oracle_c05(req, out):
    cfg, file0, steps = parse_request(req)
    res = parse_result(out)
    if res is None or len(res) != len(steps):
        return "malformed result " + out[:100]
    before = file0
    for i, (st, after, valid, _) in enumerate(res):
        if st == "crash":
            return "step %d (%s) crashed" % (i, steps[i][5])
        if st == "fail" and after != before and steps[i][5] != "pause":
            return "step %d (%s) reported failure but changed the file" % (i, steps[i][5])
        if st == "ok" and not valid:
            return "step %d (%s) reported success but left a file that does not parse" % (i, steps[i][5])
        if st == "fail" and steps[i][5] == "pause" and not valid and after != before:
            return "step %d (pause) failed and left an invalid file" % i
        before = after
    return None

# ------------------------------------------------------------------ C03 : minimal edits

TOKEN_Q = re.compile(rb"\?+")

def line_pairs(b):
    return [(t, e) for t, e in text_lines(b)]

def entry_value_span(text):
    """(start, end) of the first token after the leading blanks"""
    i = 0
    while i < len(text) and text[i] in b" \t": i += 1
    j = i
    while j < len(text) and text[j] not in b" \t": j += 1
    return i, j

def allowed_line_change(old, new, kind):
    (ot, oe), (nt, ne) = old, new
    if oe != ne and not (oe == b"" and ne in (b"\n", b"\r\n")):
        return False
    if ot == nt:
        return True
    if kind in ("stop", "switch"):
        # placeholder replaced by a time, text possibly appended at the end
        m = TOKEN_Q.search(ot)
        if m:
            pre, post = ot[:m.start()], ot[m.end():]
            if nt.startswith(pre) and len(nt) >= len(pre) + len(post):
                rest = nt[len(pre):]
                k = rest.find(post) if post else None
                # the replacement is a time literal
                mt = re.match(rb"<?\d{1,2}:\d{2}(am|pm)?>?", rest)
                if mt and rest[mt.end():].startswith(post):
                    tail = rest[mt.end() + len(post):]
                    if tail == b"" or tail.startswith(b" "):
                        return True
        # the entry's last summary line: text appended
        if nt.startswith(ot) and nt[len(ot):].startswith(b" "):
            return True
    if kind == "pause":
        i, j = entry_value_span(ot)
        i2, j2 = entry_value_span(nt)
        if i == i2 and ot[:i] == nt[:i2] and ot[j:] == nt[j2:] and re.fullmatch(rb"-(\d+h)?(\d+m)?", nt[i2:j2]):
            return True
    return False

def minimal_edit(before, after, kind):
    """None if `after` is `before` with only the edits the command is defined to make:
    every original line survives in order (possibly changed in an allowed way), added lines form few contiguous blocks.
    Dynamic programme over alignments: cost = (number of inserted blocks, number of changed lines)."""
    a, b = line_pairs(before), line_pairs(after)
    if all(all(c in b" \t" for c in t) for t, _ in a):
        return None                                    # a file of blank lines may be replaced wholesale
    n, m = len(a), len(b)
    if m < n:
        return "the file lost lines (%d -> %d)" % (n, m)
    INF = (10**9, 10**9)
    # best[i][j][k]: a[:i] aligned into b[:j]; k = 1 if b[j-1] is an inserted line
    best = [[[INF, INF] for _ in range(m + 1)] for _ in range(n + 1)]
    best[0][0][0] = (0, 0)
    for i in range(n + 1):
        for j in range(m + 1):
            for k in (0, 1):
                cur = best[i][j][k]
                if cur == INF: continue
                if j < m:      # b[j] is an inserted line
                    cand = (cur[0] + (0 if k == 1 else 1), cur[1])
                    if cand < best[i][j + 1][1]: best[i][j + 1][1] = cand
                if i < n and j < m:
                    if a[i] == b[j]:
                        if cur < best[i + 1][j + 1][0]: best[i + 1][j + 1][0] = cur
                    elif allowed_line_change(a[i], b[j], kind):
                        cand = (cur[0], cur[1] + 1)
                        if cand < best[i + 1][j + 1][0]: best[i + 1][j + 1][0] = cand
    res = min(best[n][m][0], best[n][m][1])
    if res == INF:
        # find the first original line that cannot be placed
        return "an original line was removed or altered in a way %s is not defined to" % kind
    blocks, changed = res
    limit_changed = {"track": 1, "start": 1, "create": 1, "stop": 3, "switch": 3, "pause": 2}[kind]
    limit_blocks = {"track": 1, "start": 1, "create": 1, "stop": 1, "switch": 2, "pause": 1}[kind]
    if changed > limit_changed:
        return "%d original lines changed" % changed
    if blocks > limit_blocks:
        return "added lines are not contiguous (%d separate blocks)" % blocks
    return None

def oracle_c03(req, out):
    cfg, file0, steps = parse_request(req)
    res = parse_result(out)
    if res is None or len(res) != len(steps):
        return "malformed result " + out[:100]
    before = file0
    for i, (st, after, valid, _) in enumerate(res):
        if st == "crash":
            return None      # C05/C17 report crashes
        if st == "ok" or (steps[i][5] == "pause"):
            v = minimal_edit(before, after, steps[i][5])
            if v:
                return "step %d (%s): %s" % (i, steps[i][5], v)
        before = after
    return None

# ------------------------------------------------------------------ C04 : abstract model on parsed records

def canon_records(line):
    """canonical parse line -> list of records {date:(y,m,d), should, summary, entries:[(kind, a, b, summary)]}"""
    toks = line.split(" ")
    if toks[0] != "ok":
        return None
    recs = []
    i = 2
    while i < len(toks):
        assert toks[i] == "R"
        date = unhx(toks[i + 1]).decode()
        y, m, d = int(date[0:4]), int(date[5:7]), int(date[8:10])
        should = None if toks[i + 2] == "_" else int(toks[i + 2])
        summary = [] if toks[i + 3] == "_" else [unhx(x) for x in toks[i + 3].split(",")]
        n = int(toks[i + 4])
        entries = []
        for e in toks[i + 5:i + 5 + n]:
            f = e.split(":")
            if f[0] == "D":
                entries.append(("D", int(f[1]), None, tuple(unhx(x) for x in f[3].split(","))))
            elif f[0] == "G":
                entries.append(("G", toff(f[1]), toff(f[2]), tuple(unhx(x) for x in f[4].split(","))))
            else:
                entries.append(("O", toff(f[1]), None, tuple(unhx(x) for x in f[4].split(","))))
        recs.append({"date": (y, m, d), "should": should or 0, "summary": summary, "entries": entries})
        i += 5 + n
    return recs

def toff(s):
    h, m, sh, _ = s.split(".")
    return int(sh) * 1440 + int(h) * 60 + int(m)

def spec_time_off(b):
    from props.c16 import spec_time
    r = spec_time(b)
    return None if r is None else r[0]

def round_nearest(off, r):
    return r * ((2 * off + r) // (2 * r))

def resolve_date(step):
    y, mo, d = int(step[0]), int(step[1]), int(step[2])
    today = datetime.date(y, mo, d)
    ds = step[6]
    if ds in ("d", "t"): return today, ds
    if ds == "y": return today - datetime.timedelta(days=1), ds
    if ds == "m": return today + datetime.timedelta(days=1), ds
    t = unhx(ds).decode()
    return datetime.date(int(t[0:4]), int(t[5:7]), int(t[8:10])), "explicit"

def resolve_time(step, cfg, target_date):
    """offset of the time the command uses, relative to target_date; None = must fail; 'any' = not predicted"""
    today = datetime.date(int(step[0]), int(step[1]), int(step[2]))
    if step[7] != "_":
        return spec_time_off(unhx(step[7]))
    off = int(step[3]) * 60 + int(step[4])
    r = int(step[8]) if step[8] != "_" else (int(cfg[0]) if cfg[0] != "_" else None)
    if r: off = round_nearest(off, r)
    delta = (today - target_date).days
    if delta not in (-1, 0, 1):
        return None
    off += 1440 * delta
    if not (-1440 <= off < 2880):
        return None
    return off

def find_record(recs, date):
    for i, r in enumerate(recs):
        if r["date"] == (date.year, date.month, date.day):
            return i
    return None

def insert_position(recs, date):
    key = (date.year, date.month, date.day)
    if not recs: return 0
    if key < recs[0]["date"]: return 0
    for i in range(len(recs)):
        if i == len(recs) - 1 or (key >= recs[i]["date"] and key < recs[i + 1]["date"]):
            return i + 1
    return len(recs)

def summary_arg(tok):
    return None if tok == "_" else tuple(unhx(x) for x in tok.split(","))

def append_summary(old, add):
    """text appended to an entry summary: first added line joins the last existing line"""
    old = list(old)
    if not add: return tuple(old)
    if add[0]:
        old[-1] = (old[-1] + b" " + add[0]) if old[-1] else add[0]
    return tuple(old + list(add[1:]))

def has_open(rec):
    return any(e[0] == "O" for e in rec["entries"])

def resume_summary(step, rec, prev):
    """summary for start/switch per --summary / --resume / --resume-nth; 'fail' if the flags must be rejected"""
    text, resume, nth = summary_arg(step[9]), step[10] == "1", int(step[11])
    if text is not None and (resume or nth != 0): return "fail"
    if resume and nth != 0: return "fail"
    if text is not None: return text
    if resume:
        if rec["entries"]: return rec["entries"][-1][3]
        if prev is not None and prev["entries"]: return prev["entries"][-1][3]
        return (b"",)
    if nth != 0:
        n = len(rec["entries"])
        i = nth - 1 if nth > 0 else n + nth
        if i < 0 or i > n - 1: return "fail"
        return rec["entries"][i][3]
    return (b"",)

def tags_of_lines(lines):
    out = []
    for l in lines:
        try: s = l.decode("utf-8")
        except UnicodeDecodeError: return None
        for m in re.finditer(r"#([\w-]+)(=((\"[^\"]*\")|('[^']*')|([\w-]*)))?", s):
            out.append(m.group(0))
    return out

def predict(recs, cfg, step):
    """abstract effect of one command on parsed records. Returns (new records | 'fail' | None when not predicted)"""
    kind = step[5]
    recs = [dict(r, entries=list(r["entries"]), summary=list(r["summary"])) for r in recs]
    if kind == "pause":
        return None
    date, sel = resolve_date(step)
    cfg_should = int(cfg[1]) if cfg[1] != "_" else None
    idx = find_record(recs, date)
    def new_record():
        pos = insert_position(recs, date)
        recs.insert(pos, {"date": (date.year, date.month, date.day), "should": cfg_should or 0, "summary": [], "entries": []})
        return pos
    if kind == "create":
        pos = insert_position(recs, date)
        sh = int(step[7]) if step[7] != "_" else cfg_should
        sm = [] if step[8] == "_" else [unhx(x) for x in step[8].split(",")]
        recs.insert(pos, {"date": (date.year, date.month, date.day), "should": sh or 0, "summary": sm, "entries": []})
        return recs
    if kind == "track":
        sem = TRACK_EXPECT.get(step[7])
        if sem is None or sem == "skip":
            return None    # entry text not generated here: checked through the entry count and the untouched rest below
        if sem == "fail":
            return "fail"
        if idx is None: idx = new_record()
        if sem[0] == "O" and has_open(recs[idx]): return "fail"
        recs[idx]["entries"].append(sem)
        return recs
    if kind == "start":
        off = resolve_time(step, cfg, date)
        if off is None: return "fail"
        if idx is None: idx = new_record()
        rec = recs[idx]
        if has_open(rec): return "fail"
        prevs = [r for r in recs if r["date"] < rec["date"]]
        prev = max(prevs, key=lambda r: r["date"]) if prevs else None
        sm = resume_summary(step, rec, prev)
        if sm == "fail": return "fail"
        rec["entries"].append(("O", off, None, tuple(sm)))
        return recs
    if kind == "stop":
        off = resolve_time(step, cfg, date)
        if off is None: return "fail"
        automatic = sel in ("d", "t") and step[7] == "_"
        if idx is None and automatic:
            y = date - datetime.timedelta(days=1)
            idx = find_record(recs, y)
            if idx is not None:
                off += 1440
                if off >= 2880: return "fail"
        if idx is None: return "fail"
        rec = recs[idx]
        for k, e in enumerate(rec["entries"]):
            if e[0] == "O":
                if off < e[1]: return "fail"
                add = summary_arg(step[9]) or ()
                rec["entries"][k] = ("G", e[1], off, append_summary(e[3], add))
                return recs
        return "fail"
    if kind == "switch":
        off = resolve_time(step, cfg, date)
        if off is None or idx is None: return "fail"
        rec = recs[idx]
        for k, e in enumerate(rec["entries"]):
            if e[0] == "O":
                if off < e[1]: return "fail"
                rec["entries"][k] = ("G", e[1], off, e[3])
                sm = resume_summary(step, rec, None)
                if sm == "fail": return "fail"
                rec["entries"].append(("O", off, None, tuple(sm)))
                return recs
        return "fail"
    return None

def strip_dup_prev(recs):
    return recs

def oracle_c04(req, out):
    cfg, file0, steps = parse_request(req)
    res = parse_result(out)
    if res is None or len(res) != len(steps):
        return "malformed result " + out[:100]
    # records before the first step: from the harness' own parse is not available; start comparing after step 1
    prev = None
    for i, (st, after, valid, parsed) in enumerate(res):
        cur = canon_records(parsed) if valid else None
        if st == "crash":
            return None
        step = steps[i]
        if prev is not None:
            want = predict(prev, cfg, step)
            dup_dates = len(set(r["date"] for r in prev)) != len(prev)
            if want == "fail":
                if st == "ok":
                    return "step %d (%s) must be rejected by the abstract model but succeeded" % (i, step[5])
            elif want is not None and not (dup_dates and step[5] in ("start", "switch") and step[10] == "1"):
                if st != "ok":
                    return "step %d (%s) failed although the abstract model accepts it" % (i, step[5])
                if cur != want:
                    return "step %d (%s): re-reading the file gives records that differ from the abstract model's" % (i, step[5])
            elif step[5] == "track" and st == "ok" and cur is not None:
                date, _ = resolve_date(step)
                key = (date.year, date.month, date.day)
                old = [r for r in prev]
                j = find_record(prev, date)
                if j is None:
                    if len(cur) != len(prev) + 1: return "step %d (track): expected one new record" % i
                    pos = insert_position(prev, date)
                    rest = cur[:pos] + cur[pos + 1:]
                    if rest != prev or cur[pos]["date"] != key or len(cur[pos]["entries"]) != 1:
                        return "step %d (track): new record not at its chronological position, or other records changed" % i
                else:
                    if len(cur) != len(prev): return "step %d (track): number of records changed" % i
                    for k in range(len(cur)):
                        if k != j and cur[k] != prev[k]: return "step %d (track): an unrelated record changed" % i
                    if cur[j]["entries"][:-1] != prev[j]["entries"] or len(cur[j]["entries"]) != len(prev[j]["entries"]) + 1:
                        return "step %d (track): the target record does not have exactly one more entry at its end" % i
            elif step[5] == "pause" and cur is not None and prev is not None:
                v = check_pause(prev, cur, step, st)
                if v: return "step %d (pause): %s" % (i, v)
            if st == "fail" and step[5] != "pause" and cur != prev and cur is not None:
                return "step %d (%s) failed but the records changed" % (i, step[5])
        prev = cur
    return None

def check_pause(prev, cur, step, st):
    today = datetime.date(int(step[0]), int(step[1]), int(step[2]))
    j = find_record(prev, today)
    if j is None: j = find_record(prev, today - datetime.timedelta(days=1))
    if j is None or not has_open(prev[j]):
        return None if cur == prev and st == "fail" else "nothing to pause, yet the command did not fail cleanly"
    if step[8] == "1" and step[6] != "_":
        return None if st == "fail" and cur == prev else "--extend with --summary must be rejected"
    ticks = [] if step[9] == "_" else [int(x) for x in step[9].split(",")]
    captured = 0
    for t in ticks:
        q = int(t / 60)          # truncation towards zero, like Go
        if q - captured > 0: captured = q
    if len(cur) != len(prev): return "number of records changed"
    for k in range(len(cur)):
        if k != j and cur[k] != prev[k]: return "an unrelated record changed"
    pe, ce = prev[j]["entries"], cur[j]["entries"]
    if step[8] == "1":       # extend the last pause
        idx = max([k for k, e in enumerate(pe) if e[0] == "D" and e[1] <= 0], default=None)
        if idx is None:
            return None if st == "fail" and cur == prev else "no pause to extend, yet no clean failure"
        if len(ce) != len(pe): return "entry count changed"
        for k in range(len(pe)):
            if k != idx and ce[k] != pe[k]: return "an unrelated entry changed"
        if ce[idx][0] != "D" or ce[idx][1] != pe[idx][1] - captured or ce[idx][3] != pe[idx][3]:
            return "pause of %d minutes extended by %d should be %d, found %r" % (pe[idx][1], captured, pe[idx][1] - captured, ce[idx][:2])
        return None
    if len(ce) != len(pe) + 1 or ce[:-1] != pe: return "expected exactly one new entry at the end of the record"
    new = ce[-1]
    if new[0] != "D" or new[1] != -captured:
        return "new pause should last %d minutes, found %r" % (-captured, new[:2])
    if step[7] != "1":
        open_e = [e for e in pe if e[0] == "O"][-1]
        tags = tags_of_lines(open_e[3])
        if tags:
            joined = b" ".join(new[3]).decode("utf-8", "replace")
            for t in tags:
                name = t.split("=")[0].lower()
                if name not in joined.lower():
                    return "tag %s of the open range was not carried over" % t
    return None


def k15_track_leading_blank(req, out):
    """known finding K15: `klog track` with a text that starts with a blank character reports success although the
    text is not added as an entry (it becomes a continuation line of the previous entry, or a blank line)"""
    cfg, file0, steps = parse_request(req)
    for s in steps:
        if s[5] == "track":
            first = unhx(s[7].split(",")[0])
            if first[:1] in (b" ", b"\t") or first == b"":
                return True
    return False
