(* Suite "tags" (C14): requests evaluated by the model for the correspondence check.

   tags-find <r|e> <lines>             Summary.Tags(): original order, ToStrings(), the lookup set (sorted)
   tags-contains <query> <lines>       NewTagFromString(query) and TagSet.Contains on the summary's tags
   tags-agg (R <lines> | E <minutes> <lines>)*      AggregateTotalsByTags over records with duration entries

   <lines> is `_` (no line) or hex strings joined by `,` (`-` is the empty string). *)
From Klog Require Import Base.Prelude Model.Calendar Model.Values Model.Record Model.Show Model.Tags.
Open Scope Z_scope.

Definition comma : N := 44%N.
Definition colon : N := 58%N.

Definition arg_lines (s : bytes) : list bytes :=
  if bytes_eqb s b!"_" then [] else map arg_bytes (split_on comma s []).

Definition hx (s : bytes) : bytes := match s with [] => b!"-" | _ => hex_of_bytes s end.

Definition show_tag (t : tag) : bytes := hx (t_name t) ++ [colon] ++ hx (t_value t).

Definition show_tagset (ts : tagset) : bytes :=
  words [b!"o=" ++ join [comma] (map show_tag (ts_original ts));
         b!"s=" ++ join [comma] (map (fun t => hx (go_tag_to_string t)) (ts_original ts));
         b!"l=" ++ join [comma] (map show_tag (sort_by tag_ltb (ts_lookup ts)))].

Definition show_stat (s : stat) : bytes :=
  join [colon] [hx (t_name (st_tag s)); hx (t_value (st_tag s)); dec (st_total s); dec (st_count s)].

Definition fixed_date : date := {| dt := {| c_year := 2000; c_month := 1; c_day := 1 |}; dt_dashes := true |}.

(* the records of a tags-agg request; built back to front *)
Fixpoint parse_records (toks : list bytes) (cur : option record) (done : list record) : option (list record) :=
  let flush := match cur with
               | Some r => {| rec_date := rec_date r; rec_should := None; rec_summary := rec_summary r;
                              rec_entries := rev (rec_entries r) |} :: done
               | None => done
               end in
  match toks with
  | [] => Some (rev flush)
  | k :: rest =>
    if bytes_eqb k b!"R" then
      match rest with
      | ls :: rest' =>
        parse_records rest' (Some {| rec_date := fixed_date; rec_should := None;
                                     rec_summary := arg_lines ls; rec_entries := [] |}) flush
      | [] => None
      end
    else if bytes_eqb k b!"E" then
      match rest, cur with
      | m :: ls :: rest', Some r =>
        parse_records rest'
          (Some {| rec_date := rec_date r; rec_should := None; rec_summary := rec_summary r;
                   rec_entries := {| e_value := VDuration (mk_dur (parse_int m)); e_summary := arg_lines ls |}
                                  :: rec_entries r |}) done
      | _, _ => None
      end
    else None
  end.

Definition suite_tags (cmd : bytes) (args : list bytes) : option bytes :=
  if bytes_eqb cmd b!"tags-find" then
    match args with
    | [_; ls] => Some (show_outcome show_tagset (go_summary_tags_o (arg_lines ls)))
    | _ => None
    end
  else if bytes_eqb cmd b!"tags-contains" then
    match args with
    | [q; ls] =>
      Some (match go_new_tag_from_string (arg_bytes q) with
            | Crash _ => b!"crash"
            | Err _ => b!"crash"
            | Ok None => b!"err INVALID_TAG"
            | Ok (Some t) =>
              match go_summary_tags_o (arg_lines ls) with
              | Ok ts => words [b!"ok"; show_tag t; hx (go_tag_to_string t); show_bool (ts_contains ts t)]
              | _ => b!"crash"
              end
            end)
    | _ => None
    end
  else if bytes_eqb cmd b!"tags-agg" then
    match parse_records args None [] with
    | Some rs => Some (match go_aggregate_o rs with
                       | Ok l => words (b!"ok" :: map show_stat l)
                       | _ => b!"crash"
                       end)
    | None => None
    end
  else None.
