(* Suite "json" (C20): `klog json [--pretty] FILE...` and the terminal report of the same errors.
     jsonout-run <pretty 0/1> <hex path> <hex contents>                 stdout of `klog json [--pretty] path`
     jsonout-multi <pretty 0/1> <hex path1> <hex contents1> <hex path2> ...   the same with several files
       -> ok <exit code> <hex stdout> <the parser's own error list: per file `_` or line:pos:len:code:hextext,... ; files joined by />
     jsonout-api <pretty 0/1> <hex origin> <hex contents>               json.ToJson called directly on the parser's result, the errors' origin
                                                                        set to an arbitrary byte string (the only way invalid UTF-8 reaches the encoder)
     jsonout-terminal <hex path> <hex contents>                         error text of `klog print path`, colours off
       -> valid | ok <exit code> <hex error text> <hex stdout of `klog json path`> *)
From Klog Require Import Base.Prelude Base.Utf8 Model.Calendar Model.Values Model.Record Model.Lines Model.Parser
  Model.Json Model.JsonView Model.Show Model.ShowRecord.
Open Scope Z_scope.

Fixpoint parse_inputs (args : list bytes) : outcome (list input) :=
  match args with
  | p :: c :: rest =>
    let* res := parse_text (arg_bytes c) in
    let* more := parse_inputs rest in
    Ok ((arg_bytes p, res) :: more)
  | _ => Ok []
  end.

Definition show_input_errors (i : input) : bytes :=
  match snd i with
  | Parsed _ _ => b!"_"
  | Failed es => join comma (map show_rerr es)
  end.

Definition show_json_run (pretty : bytes) (args : list bytes) : bytes :=
  match parse_inputs args with
  | Ok inputs =>
    match to_json_inputs inputs (bytes_eqb pretty b!"1") with
    | Ok out => words [b!"ok"; b!"0"; hex_of_bytes (json_stdout out); join b!"/" (map show_input_errors inputs)]
    | _ => b!"crash"
    end
  | _ => b!"crash"
  end.

Definition suite_json (cmd : bytes) (args : list bytes) : option bytes :=
  if bytes_eqb cmd b!"jsonout-run" then
    match args with
    | [pretty; p; c] => Some (show_json_run pretty [p; c])
    | _ => None
    end
  else if bytes_eqb cmd b!"jsonout-api" then
    match args with
    | [pretty; p; c] => Some (show_json_run pretty [p; c])
    | _ => None
    end
  else if bytes_eqb cmd b!"jsonout-multi" then
    match args with
    | pretty :: rest => Some (show_json_run pretty rest)
    | _ => None
    end
  else if bytes_eqb cmd b!"jsonout-terminal" then
    match args with
    | [p; c] =>
      Some (match parse_text (arg_bytes c) with
            | Ok (Parsed _ _) => b!"valid"
            | Ok (Failed es) =>
              match terminal_report (map (fun e => (arg_bytes p, e)) es), to_json (arg_bytes p) (Failed es) false with
              | Ok txt, Ok out => words [b!"ok"; dec parse_error_exit_code; hex_of_bytes txt; hex_of_bytes (json_stdout out)]
              | _, _ => b!"crash"
              end
            | _ => b!"crash"
            end)
    | _ => None
    end
  else None.
