"""C17 — clock-relative behaviour is right at every minute of the day."""
import sys, os, datetime
sys.path.insert(0, os.path.dirname(os.path.dirname(os.path.abspath(__file__))))
from check import Suite
from props.commands import *

DAYS = [datetime.date(2020, 3, 15), datetime.date(2020, 2, 29), datetime.date(2020, 3, 1), datetime.date(2019, 12, 31),
        datetime.date(2020, 1, 1), datetime.date(2021, 2, 28), datetime.date(2021, 3, 1)]
ROUNDINGS = ["_", "5", "10", "12", "15", "20", "30", "60"]

def layout(kind, today):
    y = today - datetime.timedelta(days=1)
    f = lambda d: "%04d-%02d-%02d" % (d.year, d.month, d.day)
    if kind == "today":   return "%s\n    6:00 - ?\n" % f(today)
    if kind == "yday":    return "%s\n    22:00 - ?\n" % f(y)
    if kind == "both":    return "%s\n    22:00 - ? old\n\n%s\n    0:00 - ?\n" % (f(y), f(today))
    if kind == "none":    return "%s\n    1h\n\n%s\n    2h\n" % (f(y), f(today))
    if kind == "tomorrow": return "%s\n    <23:00 - ?\n" % f(today + datetime.timedelta(days=1))
    if kind == "old":     return "%s\n    8:00 - ?\n" % f(today - datetime.timedelta(days=2))
    # files written with the 12-hour clock: the times the commands write follow that style
    if kind == "today12": return "%s\n    6:00am - ?\n" % f(today)
    if kind == "yday12":  return "%s\n    10:00pm - ?\n" % f(y)
    if kind == "both12":  return "%s\n    10:00pm - ? old\n\n%s\n    12:00am - ?\n" % (f(y), f(today))
    if kind == "none12":  return "%s\n    11:00am - 1:15pm\n\n%s\n    12:00am-12:00pm\n" % (f(y), f(today))
    return ""

LAYOUTS = ["today", "yday", "both", "none", "tomorrow", "old", "empty", "today12", "yday12", "both12", "none12"]

def gen_sweep(tier, rng):
    out = []
    days = DAYS[:1] if tier == "quick" else DAYS
    for day in days:
        for minute in range(1440):
            for r in ROUNDINGS:
                if tier == "quick" or day != DAYS[1]:
                    combos = [(rng.choice(["start", "stop", "switch"]), rng.choice(["d", "t", "y", "m", "x"]), rng.choice(LAYOUTS)) for _ in range(2)]
                    if minute >= 1410 or minute < 5:     # the critical end of the day: everything
                        combos = [(c, s, l) for c in ("start", "stop") for s in ("d", "y", "m") for l in ("today", "yday", "both", "old", "yday12", "none12")]
                else:
                    # the full product over the 24-hour layouts; the 12-hour layouts in full during the hours around noon and
                    # midnight (where their notation has its special cases) and sampled elsewhere
                    full12 = minute < 65 or 715 <= minute < 785 or minute >= 1375
                    combos = [(c, s, l) for c in ("start", "stop", "switch") for s in ("d", "t", "y", "m", "x") for l in LAYOUTS
                              if not l.endswith("12") or full12 or rng.random() < 0.1]
                for cmd, sel, lay in combos:
                    now = datetime.datetime(day.year, day.month, day.day, minute // 60, minute % 60)
                    ds = sel
                    if sel == "x":
                        ds = hx(("%04d-%02d-%02d" % (day.year, day.month, day.day)).encode())
                    cfgr = "_"
                    rr = r
                    if r != "_" and rng.random() < 0.2:
                        cfgr, rr = r, "_"          # rounding from the configuration instead of the flag
                    first = Step(now, "stop", [hx(b"0001-01-01"), hx(b"0:00"), "_", "_"])
                    if cmd == "stop":
                        st = Step(now, "stop", [ds, "_", rr, "_"])
                    else:
                        st = Step(now, cmd, [ds, "_", rr, "_", "0", "0"])
                    out.append(history_request(layout(lay, day).encode(), [cfgr, "_", "_", "_"], [first, st]))
    return out

def oracle_sweep(req, out):
    return oracle_c05(req, out) or oracle_c04(req, out)

EXPECT = {}

def gen_now(tier, rng):
    out = []
    days = DAYS[:2] if tier == "quick" else DAYS
    for day in days:
        f = lambda d: "%04d-%02d-%02d" % (d.year, d.month, d.day)
        y = day - datetime.timedelta(days=1)
        files = {
            "today": ("%s\n    8:17 - ?\n    1h\n" % f(day), [(0, 8 * 60 + 17)]),
            "yday": ("%s\n    23:10 - ?\n" % f(y), [(-1, 23 * 60 + 10)]),
            "both": ("%s\n    <22:00 - ?\n\n%s\n    12:00 - ?\n    -30m\n" % (f(y), f(day)), [(-1, -120), (0, 720)]),
            "old": ("%s\n    8:00 - ?\n" % f(day - datetime.timedelta(days=2)), [(-2, 480)]),
            "future": ("%s\n    0:00 - ?\n" % f(day + datetime.timedelta(days=1)), [(1, 0)]),
            "shifted": ("%s\n    0:30> - ?\n" % f(y), [(-1, 1470)]),
        }
        base = {"today": 60, "yday": 0, "both": -30, "old": 0, "future": 0, "shifted": 0}
        for minute in range(0, 1440, 1 if tier != "quick" else 1):
            for name, (text, opens) in files.items():
                if tier == "quick" and rng.random() < 0.6: continue
                req = "eval-total %d %d %d %d %d 1 %s" % (day.year, day.month, day.day, minute // 60, minute % 60, text.encode().hex())
                total = base[name]; ok = True
                for delta, start in opens:
                    if delta not in (0, -1): ok = False; continue
                    end = minute + (1440 if delta == -1 else 0)
                    if end < start: ok = False
                    else: total += end - start
                EXPECT[req] = ("ok %d 0 %d %d" % (total, total, text.count("\n\n") + 1)) if ok else "err uncloseable"
                out.append(req)
    return out

def oracle_now(req, out):
    want = EXPECT.get(req)
    return None if want is None or out == want else "klog total --now reports %r, expected %r" % (out, want)

def suites():
    return [
        Suite("clock-sweep", gen_sweep, oracle=oracle_sweep, decisive=False,
              nontrivial=lambda r, o: "ok:" in o,
              exhaustive=lambda t: False,
              rule="start / stop / switch without --time at every minute of the day x roundings {none,5,10,12,15,20,30,60} (flag or config) x date selection {default,--today,--yesterday,--tomorrow,--date} x record layouts (open range today / yesterday / both / none / tomorrow / older / empty file; the first four also written with the 12-hour clock); quick: one day, 3 random combinations per (minute, rounding) and the full product for 23:00-0:10; thorough: the full product on the leap day 2020-02-29 and the sampled product on 6 further days (ordinary, month ends, year end/start)"),
        Suite("now-sweep", gen_now, oracle=oracle_now,
              rule="`klog total --now` at every minute for open ranges dated today / yesterday / both / older / future / shifted start",
              nontrivial=lambda r, o: o.startswith("ok")),
    ]
