package main

// Suite "json" (C20): the REAL `klog json [--pretty] [flags] FILE...` run through runKlog (kong argument
// parsing, Context.ReadInputs, the parser, ToJson, ctx.Print), and the terminal report `klog print FILE`
// gives for the same errors.
//
// File paths: the request names every file by a path below /proc/self/cwd/. The handler creates a private
// scratch directory, changes the working directory of the harness process into it for the duration of the
// request and writes the files there, so that klog is handed exactly the path of the request (filepath.Abs
// leaves it alone: it is absolute and clean, and no symbolic link is resolved) and the model, which sees
// only the request, knows the `file` member of the error objects byte for byte.

import (
	"os"
	"path/filepath"
	"strconv"
	"strings"
	gotime "time"

	"github.com/jotaen/klog/klog/parser"
	kjson "github.com/jotaen/klog/klog/parser/json"
	"github.com/jotaen/klog/klog/parser/txt"
)

const cwdPrefix = "/proc/self/cwd/"

// inScratchCwd runs f with the working directory set to a fresh scratch directory.
func inScratchCwd(f func(dir string) string) string {
	old, err := os.Getwd()
	if err != nil {
		panic(err)
	}
	dir := scratchDir()
	defer os.RemoveAll(dir)
	if err := os.Chdir(dir); err != nil {
		panic(err)
	}
	defer os.Chdir(old)
	return f(dir)
}

// placeFile writes contents at the place the request path denotes; false when the path is unusable.
func placeFile(dir string, path string, contents string) bool {
	if !strings.HasPrefix(path, cwdPrefix) {
		return false
	}
	rel := path[len(cwdPrefix):]
	if rel == "" || filepath.Clean(path) != path {
		return false
	}
	full := filepath.Join(dir, rel)
	if err := os.MkdirAll(filepath.Dir(full), 0700); err != nil {
		return false
	}
	return os.WriteFile(full, []byte(contents), 0600) == nil
}

func jsonoutEnv(dir string) *cliEnv {
	home := filepath.Join(dir, ".klog-home")
	os.MkdirAll(home, 0700)
	return &cliEnv{Home: home, Sticky: true, Clock: []gotime.Time{fixedNoon}, NumCpus: 1, Env: map[string]string{"NO_COLOR": "1"}}
}

// the parser's own error list of one file: `_` when valid, else line:pos:len:code:hextext joined by commas
func ownErrors(text string) string {
	s, _ := ownErrorList(text)
	return s
}

func ownErrorList(text string) (string, []txt.Error) {
	_, _, errs := parser.NewSerialParser().Parse(text)
	if errs == nil {
		return "_", nil
	}
	out := make([]string, len(errs))
	for i, e := range errs {
		out[i] = showErr(e)
	}
	return strings.Join(out, ","), errs
}

func jsonRun(pretty string, pairs []string) string {
	if len(pairs) == 0 || len(pairs)%2 != 0 {
		return "?bad-request"
	}
	return inScratchCwd(func(dir string) string {
		args := []string{"json"}
		if pretty == "1" {
			args = append(args, "--pretty")
		}
		var own []string
		var ownErrs []txt.Error
		for i := 0; i < len(pairs); i += 2 {
			path, text := argBytes(pairs[i]), argBytes(pairs[i+1])
			if !placeFile(dir, path, text) {
				return "?bad-path " + pairs[i]
			}
			args = append(args, path)
			s, es := ownErrorList(text)
			own = append(own, s)
			ownErrs = append(ownErrs, es...)
		}
		code, out, errText := runSafely(jsonoutEnv(dir), args...)
		if code == -1 {
			return "crash"
		}
		if code != 0 {
			return "fail " + strconv.Itoa(code) + " " + hx(errText)
		}
		return "ok " + strconv.Itoa(code) + " " + hx(pinJSONWording(out, ownErrs)) + " " + strings.Join(own, "/")
	})
}

func init() {
	register("jsonout-run", func(a []string) string { return jsonRun(a[0], a[1:]) })
	register("jsonout-multi", func(a []string) string { return jsonRun(a[0], a[1:]) })

	// json.ToJson called directly: the origin of the errors is an arbitrary byte string
	register("jsonout-api", func(a []string) string {
		origin, text := argBytes(a[1]), argBytes(a[2])
		rs, _, errs := parser.NewSerialParser().Parse(text)
		for i, e := range errs {
			errs[i] = e.SetOrigin(origin)
		}
		out := pinJSONWording(kjson.ToJson(rs, errs, a[0] == "1"), errs)
		return "ok 0 " + hx(out+"\n") + " " + ownErrors(text)
	})

	register("jsonout-terminal", func(a []string) string {
		path, text := argBytes(a[0]), argBytes(a[1])
		return inScratchCwd(func(dir string) string {
			if !placeFile(dir, path, text) {
				return "?bad-path " + a[0]
			}
			code, out, errText := runSafely(jsonoutEnv(dir), "print", path)
			if code == -1 {
				return "crash"
			}
			if code == 0 {
				return "valid"
			}
			if out != "" {
				return "fail-stdout " + hx(out)
			}
			jcode, jout, _ := runSafely(jsonoutEnv(dir), "json", path)
			if jcode != 0 {
				return "crash-json " + strconv.Itoa(jcode)
			}
			_, es := ownErrorList(text)
			return "ok " + strconv.Itoa(code) + " " + hx(pinTerminalWording(errText, es)) + " " + hx(pinJSONWording(jout, es))
		})
	})

	// oracle-only: `klog json <flags> path` next to `klog json path`
	//   jsonout-cli <hex contents> <hex flag>...  ->  ok <hex stdout with flags> <hex stdout without flags>
	register("jsonout-cli", func(a []string) string {
		text := argBytes(a[0])
		return inScratchCwd(func(dir string) string {
			path := cwdPrefix + "in.klg"
			if !placeFile(dir, path, text) {
				return "?bad-path"
			}
			args := []string{"json"}
			for _, f := range a[1:] {
				args = append(args, argBytes(f))
			}
			code, out, errText := runSafely(jsonoutEnv(dir), append(args, path)...)
			if code == -1 {
				return "crash " + hx(errText)
			}
			if code != 0 {
				return "fail " + strconv.Itoa(code) + " " + hx(errText)
			}
			pcode, plain, _ := runSafely(jsonoutEnv(dir), "json", path)
			if pcode != 0 {
				return "crash-plain " + strconv.Itoa(pcode)
			}
			return "ok " + hx(out) + " " + hx(plain)
		})
	})
}
