#!/usr/bin/env python3
"""seedbatch.py <Cxx> <m1|m2> <props...>: verify a delivered seeded change, run the given checks on it, keep it under seeded/"""
import sys, os, subprocess, json, shutil
ROOT = os.path.dirname(os.path.dirname(os.path.abspath(__file__)))
pid, m, props = sys.argv[1], sys.argv[2], sys.argv[3:]
src = "/tmp/seed/%s-out/%s" % (pid, m)
v = json.loads(subprocess.run(["python3", os.path.join(ROOT, "lib/seedverify.py"), src], stdout=subprocess.PIPE, text=True).stdout.strip().split("\n")[-1])
print(pid, m, "verified" if v.get("ok") else "NOT-VERIFIED", v)
if not v.get("ok"):
    sys.exit(1)
r = subprocess.run(["python3", os.path.join(ROOT, "lib/seedtest.py"), os.path.join(src, "patch.diff")] + props, stdout=subprocess.PIPE, text=True)
print(r.stdout)
dst = os.path.join(ROOT, "seeded", "%s-%s" % (pid, m))
os.makedirs(dst, exist_ok=True)
for f in ("patch.diff", "demo_test.go", "notes.md"):
    if os.path.exists(os.path.join(src, f)): shutil.copy(os.path.join(src, f), dst)
runs = [l for l in r.stdout.split("\n") if l.startswith(("CAUGHT", "MISSED"))]
meta = {"id": "%s-%s" % (pid, m), "breaks": pid, "source": "independent sub-agent given only the property text and a scratch worktree",
        "needs": open(os.path.join(src, "notes.md")).read()[:1500] if os.path.exists(os.path.join(src, "notes.md")) else "",
        "confirmed": v, "ran": ["python3 lib/seedverify.py", "python3 lib/seedtest.py patch.diff " + " ".join(props)], "results": runs}
json.dump(meta, open(os.path.join(dst, "meta.json"), "w"), indent=1)
