#!/usr/bin/env python3
"""Regenerates /verif/MANIFEST.json from the table below (kept in one place so it stays valid)."""
import json, os
ROOT = os.path.dirname(os.path.dirname(os.path.abspath(__file__)))

TB = ("Trusted: Coq 8.16.1 kernel + vm_compute (no native_compute); extraction with ExtrOcamlBasic only; OCaml 4.13.1; "
      "driver.ml, the Go harness and check.py; Go 1.24 toolchain/stdlib as modelled. The model is hand-written; the "
      "correspondence suites (run on every check against /repo's working tree) are what tie it to the code. ")

CLAIMED = {
 "C16": dict(
   text="20 theorems in coq/Properties/C16.v: time, date and duration literals accepted are EXACTLY the specification's (iff, via sweeps over all 132,000 time-shaped strings and structural inversion), text round trips (all 8,640 times; all dates; all durations within int64), Plus arithmetic for all integers (error outside the window or the integer range), range validity and length, IsEqualTo = same (shift, hour, minute) and IsAfterOrEqual = the total order of the points in time. Tied to the code by exhaustive request grids (all time strings, duration/date/plus/range grids incl. int64 boundaries), pairs of time literals for the comparisons, and a specification oracle.",
   design="§4 C16", technique="Coq proof (lia + lifted finite sweep) over hand model; extracted-model-vs-Go differential correspondence",
   note=TB + "Axioms: none. Known finding K5 (NewDurationFromString panics beyond int64; pinned by a maintainers' test). K6 fixed."),
 "C14": dict(
   text="Theorems in coq/Properties/C14.v over the executable model of klog's tag handling (coq/Model/Tags.v): the hand-written matcher equal to Go's "
        "leftmost-first FindAll of HashTagPattern finds, on every rune list without a line feed, exactly and uniquely the tags of a declarative definition "
        "transcribed from Specification.md (proved for any notion of letter under which the quotes are not letters, instantiated at the Go toolchain's "
        "generated unicode.L / unicode.ToLower tables); Summary.Tags() on bytes (UTF-8 decoding with invalid bytes, second regexp run, strings.Trim, "
        "NewTagOrPanic) never panics and denotes those tags; tag equality = lower-cased names + literal values; Contains = name match with bare-name rule; "
        "Merge is iteration-order independent; AggregateTotalsByTags reports for every key the sum and count of the entries carrying it, each once, sorted, "
        "and returns whenever the durations fit int64. Tied to the code by an exhaustive correspondence (all strings of <= 4 / <= 6 symbols over a 14-symbol "
        "alphabet through Summary.Tags()) plus random summaries, queries and record sets, with an independent Python oracle written from the specification.",
   design="§4 C14", technique="Coq proof (structural induction; UTF-8 decode/encode lemmas; table facts by vm_compute over the generated tables) over hand model; "
                             "extracted-model-vs-Go differential correspondence, exhaustive over a small alphabet",
   note=TB + "Axioms: none (Closed under the global context, 16 theorems incl. C14_find_tags_all_texts_refuted, the witness that the single-line hypothesis is needed; also: NewTagFromString never panics, reported keys are pairwise distinct so the output order is determined whatever the Go map iteration order). The Unicode tables are regenerated from the Go toolchain on every build "
             "(harness/gentables, self-checked against unicode.Is/unicode.ToLower/regexp/strings.ToLower). Theorem 1 is stated for single lines (no LF): Go's "
             "[^\"]* would let a quoted value span a line feed, which no summary line can contain. Known finding K14 (int64 overflow of a tag total panics) "
             "is printed, not suppressed beyond its exact inputs."),
 "C19": dict(
   text="Theorems in coq/Properties/C19.v over the executable model of klog's bookmark database (coq/Model/Bookmarks.v on top of the model of Go's "
        "encoding/json in coq/Model/Json.v): every valid-UTF-8 string survives encoder (HTML escaping off) + decoder (unbounded, induction over the rune "
        "list, with decode/encode of UTF-8 proved both ways); every JSON value with valid-UTF-8 strings printed compact, indented or as json.Encoder writes "
        "it parses back to itself; a well-formed map written by ToJson is read back by NewBookmarksCollectionFromJson to exactly that map (empty map = empty "
        "file); for EVERY finite history of set/unset/clear/list/info/resolve commands the file-level run (read file, act, write file, per command) and the "
        "specification on a plain sorted map give step by step the same exit code and output, a well-formed map and a file that reads back to that map; set "
        "changes exactly one name, unset of an unknown name fails and leaves the file untouched, the listing is strictly ascending by name, nothing panics. "
        "filepath.Abs, the file system and filepath.Dir/Base are parameters of the theorems (hypotheses: Abs is absolute, idempotent, keeps valid UTF-8). Tied "
        "to the code by correspondence suites: 1-40 real klog command lines per history through klog.Run on a scratch config folder (fresh Run per command), "
        "the JSON string codec / parser / printer against encoding/json, ToJson/FromJson against app.*, the path functions against path/filepath; independent "
        "Python oracles (plain dict simulation of the property text, Python's json module reading the database file, posixpath).",
   design="§4 C19", technique="Coq proof (induction over rune lists, JSON values and command histories; lia for the UTF-8 bit arithmetic) over hand model; "
                             "extracted-model-vs-Go differential correspondence through klog.Run; oracle-only suite on the raw database file",
   note=TB + "Axioms: none (Closed under the global context, 19 theorems). Operating-system behaviour (filepath.Abs/Clean, file existence) is NOT modelled "
             "inside the theorems: it is a universally quantified parameter with three stated hypotheses, which the suite 'paths' checks on the real "
             "filepath functions; the executable model instantiates it with a lexical Unix Clean/Join/Abs that the same suite compares with Go's. "
             "The scanner's 10,000-level nesting limit of encoding/json is not modelled. Argument strings pass through kong's JSON transcoding (modelled: "
             "invalid UTF-8 becomes U+FFFD before klog sees it); histories with malformed UTF-8 are compared with the model but lie outside the property's "
             "quantifier and the oracle."),
 "C18": dict(
   text="Theorems in coq/Properties/C18.v over the executable model of klog's terminal formatting (coq/Model/Styler.v: StyleProps, seqs, Format, "
        "FormatAndRestore over an arbitrary theme record with the four themes of colour_theme.go as instances, StripAllAnsiSequences as a hand-written "
        "leftmost non-overlapping matcher of \\x1b\\[[\\d;]*m, document trees; coq/Model/Table.v: NewTable/Cell/Skip/Fill/Collect; coq/Model/TextSer.v: the "
        "whole output of `klog print` as a document tree): for EVERY theme whose emitted units are concatenations of complete SGR sequences, everything "
        "seqs emits is stripped to nothing, and so is every sequence ESC [ (digit|;)* m; strip(render theme doc) = strip(render no_colour doc) for every document tree in which no SGR-shaped byte "
        "sequence straddles a style boundary of the unstyled text -- and that hypothesis is proved to be exactly the weakest (iff, decided by a boolean "
        "checker; refuted without it); the outputs of `klog print` and `print --with-totals` satisfy it for every list of records with ARBITRARY summary "
        "bytes (tags start with '#', values are ESC-free); a table whose cells are documents prints under every theme the rendering of ONE document "
        "and is content-neutral for a guard separator, ESC-free fills and klog's cell shapes incl. a styled text of arbitrary content (tag values); "
        "strip distributes over concatenation unless a sequence straddles the seam; strip is not idempotent (witness) but is "
        "on ESC-free residues; a table built from tidy cells (any theme's styling, valid UTF-8, one-character fills) with a full last row never panics "
        "and every printed row shows sum of column widths + (columns-1)*|separator| runes after stripping, the widths being identical under any two "
        "themes; ragged tables and wide fills are the stated counter-examples. Tied to the code by correspondence suites (all schemes x all 484 prop "
        "combinations, exhaustive strip over a 6-symbol alphabet up to length 5/7, random document trees and tables, `klog print` run end to end against "
        "the document-tree model) and an oracle-only end-to-end suite: generated valid klog files x {print, print --with-totals, total, report, tags, "
        "today} with flags x {dark, light, basic, no_colour, --no-style, NO_COLOR}, stripped stdout identical and table rows of equal visible width.",
   design="§4 C18", technique="Coq proof (structural / length induction over byte lists, token lists and document trees; boolean reflection for the decidable "
                             "side conditions) over hand model; extracted-model-vs-Go differential correspondence; end-to-end metamorphic oracle over "
                             "colour-scheme variants",
   note=TB + "Axioms: none (Closed under the global context, 22 theorems; 4 are stated *_refuted witnesses, 2 are *_partial: idempotence of strip only "
             "on ESC-free residues; that the outputs of total/report/tags/today are documents of the proved shapes is read off the Go code and "
             "exercised end to end, a model-level correspondence exists for `print` and for tables in general only). Visible width = rune count after stripping, as the property says; terminal cell width of wide characters is out of "
             "scope. Finding K18 (StripAllAnsiSequences did not recognise the parameterless SGR sequence ESC[m, so `klog tags --values` misaligned "
             "a row whose quoted tag value contains it) is fixed by 332f4bb; its input stays in corpus/C18 and a recurrence is reported as a violation."),
 "C15": dict(
   text="Theorems in coq/Properties/C15.v over the executable model of klog's calendar code (coq/Model/Calendar.v, coq/Model/Period.v). "
        "Reference = the Gregorian rule itself (next_day from month lengths and the 4/100/400 leap rule): the day-number functions are mutually inverse "
        "on every date of every year (closed form by lia; one 400-year era swept by the kernel VM and lifted by the 146,097-day period) and advance by one "
        "per next_day; from that, for ALL dates 0000-01-01..9999-12-31 and without further enumeration: Date.IsAfterOrEqual = day order, PlusDays = n days "
        "later or a panic exactly outside 0000..9999, weekday (Monday=1, 1970-01-01 Thursday, +1 per day), ISO week (the 7 days Monday..Sunday and only they "
        "share (year, week); week 1 contains January 4th; numbers consecutive, last week 52/53 by the Thursday/leap-Wednesday rule), quarter; "
        "Week/Month/Quarter/Year Period() returns (s,u) with s <= d <= u, s/u the first/last day, every date in [s,u] has the same period; "
        "Previous().Period() is the period of the same kind that ends the day before s; Hash() never panics and is equal exactly for dates of the same period "
        "(all valid dates, ISO year -1 included); NewPeriodFromPatternString returns Ok (since, until) iff the string is YYYY / YYYY-MM / YYYY-Qq / YYYY-Ww[w] "
        "naming an existing representable period, with exactly its bounds, Err otherwise, and never panics (C15_pattern_total; 9999-W52..W99 are rejected "
        "since fix 9e99f6b). Where the Go code panics (first/last week, Previous() in year 0000) the model says Crash, the guards exclude exactly those "
        "dates, the panic itself is proved (C15_period_edge_crash, C15_previous_edge_crash) and the unguarded statements are refuted by witnesses. Tied to the code by a complete correspondence: "
        "thorough tier = all 3,652,425 dates (weekday, ISO week, quarter, PlusDays x6, 4 Period(), 4 Previous().Period(), 5 Hash()) and every string matching "
        "one of the four pattern regexps for all 10,000 years (2.21 M strings) plus malformed/mutated strings and 1 M random PlusDays; quick tier = 60 years. "
        "An independent Python oracle (datetime / isocalendar / fromisocalendar, Gregorian rule for year 0, stateful bucket check for the hashes) is evaluated "
        "on the implementation's output. The calendar requests are also run with the harness process in TZ=America/Santiago and TZ=America/Havana (daylight saving starts at midnight there); bucket hashes are compared up to renaming.",
   design="§4 C15", technique="Coq proof (lia over div/mod closed forms; one kernel-VM era sweep lifted by a 400-year shift lemma; fuel-bounded loop models) over hand model; "
                             "extracted-model-vs-Go differential correspondence, exhaustive over the whole finite domain in the thorough tier",
   note=TB + "Axioms: none (Closed under the global context, 22 theorems; 2 of them are *_refuted witnesses of the panics). Known finding printed, not suppressed beyond its exact inputs: "
             "K4 (Week.Period() panics for 0000-01-01/02 and 9999-12-27..31; Previous() panics where the previous week/month/quarter/year would lie before 0000-01-01). "
             "F8 (NewPeriodFromPatternString panicked on 9999-W52 .. 9999-W99, reachable via --period) is fixed in /repo (9e99f6b); the model mirrors the fixed code, "
             "its 48 strings run on every check from corpus/C15/patterns.txt and nothing suppresses a crash on them. Quarter() uses float64 ceil in Go and integer division in the model: covered by the "
             "exhaustive correspondence, not by proof."),
 "C08": dict(
   text='9 theorems in coq/Properties/C08.v for ALL byte strings: lines lossless, blocks lossless, no blocks iff all blank, consecutive numbering, block shape, well-formed lines, located lines. Tied to the code by the `blocks` correspondence on conforming documents and byte streams with an independent re-concatenation/numbering/shape oracle the same blocks demanded of the parallel parser for every worker count and forced arrival order (suite `parallel-blocks`), and the no-op reconcile run.',
   design="§4 C08", technique="Coq proof (list induction) over hand model; extracted-model-vs-Go differential correspondence",
   note=TB + 'Axioms: none. Model reflects fix F1.'),
 "C06": dict(
   text='11 theorems in coq/Properties/C06.v: parse_text is total on every byte string (records with one block each XOR >= 1 error; never Crash/Err), blockwise characterisation, evaluation guards exact, C06_evaluate_total_partial (total, report, today, with-totals, tag aggregation never crash under the int64 guard), C06_json_total / C06_json_inputs_total (`klog json` prints a document for every accepted text under the guard and for every rejected text), C06_now_no_crash (with --now: closing open ranges is Ok or the ordinary error, never a panic, and total/report/today then return, under the guard plus 4319 minutes of head room per open range), with the K1 witness; filters and --period arguments are C13/C15. Tied to the code by exhaustive token strings, mutated documents, random bytes, very long inputs and far-right errors, and an oracle-only run of every read-only command (serial and parallel) on whatever the parser returned.',
   design="§4 C06", technique="Coq proof (totality by induction, Crash-freedom) over hand model; differential correspondence + end-to-end command runs",
   note=TB + 'Axioms: none. Known finding K1. Hanging/memory exhaustion of the implementation: harness time-outs only. Model reflects fixes F1, F2, F3.'),
 "C10": dict(
   text='25 theorems in coq/Properties/C10.v: every reported error names an existing line, quotes it, stays within it (+1), errors ascend; renderings are total and agree (terminal line/caret offset/caret count = JSON line/column-1/length; guard exact); first_error_at_fault for all 15 fault classes. Tied to the code by faulted documents (first error on the faulty line), malformed byte streams and an oracle-only suite parsing the real terminal and JSON renderings, serial and parallel.',
   design="§4 C10", technique="Coq proof (case analysis over error sites) over hand model; differential correspondence + rendering oracle",
   note=TB + 'Axioms: none. Model reflects fixes F3, F9.'),
 "C07": dict(
   text='9 theorems in coq/Properties/C07.v: par_parse s n order = parse_text s for every text, n >= 1 and every arrival permutation (C07_parallel_eq_serial), any arrival multiset, chunks partition the text at rune starts never between CR and LF, any CRLF-respecting partition works, and the refuted witness for arbitrary partitions (the F11 defect). Tied to the code by texts x worker counts 1..len+2 x arrival orders forced through the add-only hook; the Go side compares parallel with serial (records, blocks, line indices, errors incl. messages); a second suite runs every worker count 1..NumCPU+2 of the real scheduler (no hook) on large generated files and compares with the serial parser.',
   design="§4 C07", technique="Coq proof (permutation invariance, loop invariant) over hand model; differential correspondence with forced schedules",
   note=TB + 'Axioms: none. Real goroutine scheduling and channel semantics are not modelled (results are stored by index). Model reflects fixes F1 and F11.'),
 "C12": dict(
   text="Theorems in coq/Properties/C12.v over the executable model of klog's evaluation views (coq/Model/Report.v: service.Sort, groupByDate over the "
        "period hashes of klog/service/period, allDatesRange for --fill, the row loop with hashesAlreadyProcessed, --diff, --now; klog total; "
        "splitIntoCurrentAndOther and the figures of klog today incl. the end-time; the prefixes of print --with-totals), for EVERY list of records with valid "
        "dates, every aggregation (day, week, month, quarter, year), fill / diff / now flag, under the int64 guard stated exactly (sum of |minutes| + sum of "
        "|should-totals| <= 2^63-1): the groups are a partition of the records, one group per calendar period, keyed injectively; the report is computed "
        "(no panic) and is equal to a closed-form specification (one row per period holding exactly the records whose date lies in it); the row totals "
        "(and should / diff columns) add up to the grand total = sum over all entries = what klog total prints; every record has exactly one row; rows are "
        "strictly chronological; an empty row exists only with --fill and means no record lies in that period; with --fill every period between two records "
        "has a row and no row lies outside first..last; the period key is klog's own Period() (same key <=> between since and until, via C15's period_tiles); "
        "any sorted permutation of the records (whatever order an unstable sort leaves among equal dates) gives the same report; today = current ++ other is a "
        "permutation, the three rows add up and equal klog total; with-totals: entry figures add up to the record figure, record figures to the total; parsed "
        "records always carry valid dates; service.Filter keeps them, so everything holds behind any filter. Tied to the code by running the REAL command lines "
        "(klog report / total / today / print --with-totals through klog.Run with a controlled clock) on generated files (unsorted, duplicate dates, 0-70 "
        "records incl. >12 for pdqsort, New Year / ISO week 52/53/1, quarter ends, leap days, 0000-01-01, 9999-12-31, negative totals, open ranges with --now, "
        "date / period / shortcut / entry-type filters), parsing the tables back into keyed rows, comparing with the extracted model, and judging the "
        "implementation's output with an independent Python oracle (datetime / isocalendar) written from the property text.",
   design="§4 C12", technique="Coq proof (Permutation, induction over the date list with a seen-set invariant, lia; reuse of C15 hash/period lemmas and C02 sum lemmas) "
                             "over hand model; extracted-model-vs-Go differential correspondence through the real CLI; independent calendar oracle",
   note=TB + "Axioms: none (Closed under the global context, 14 theorems). Go's sort.Slice (pdqsort with klog's non-strict comparator) is NOT modelled; the model "
             "sorts by stable insertion, C12_sort_order_irrelevant shows the report cannot depend on the choice among sorted permutations, and the correspondence "
             "(files with up to 70 records and many equal dates) checks that Go's result is one. Known findings: K12 (the first row of `report --aggregate week` "
             "has no year label when it lies in ISO year -1: records dated 0000-01-01/02), K1-C12 (int64 overflow panics, K1 seen through the views). Tag filters "
             "are left to C13; --chart is not modelled (it adds a column, no number)."),
 "C02": dict(
   text="21 theorems in coq/Properties/C02.v: entry minutes = the specification's sentence; total/should-total/diff equal the mathematical sums exactly when every partial sum fits safemath's range and crash otherwise (dichotomy, K1 witness); additivity, permutation invariance, independence of dates/overlaps; CloseOpenRanges characterised exactly (which records close, at which offset, when it refuses) and total --now = total + closing gains. Tied to the code by `klog total --diff [--now]` on conforming documents and on multi-open-range scenarios at chosen instants, compared with the model and with an independent Python evaluation of the specification's rules. Further suites: the same evaluations with a config.ini present (oracle-only: settings for what klog writes must not change what it reports) and `--now` around the daylight-saving switches of 2024 with the process in TZ=Europe/Berlin.",
   design="§4 C02", technique="Coq proof (list induction, lia) over hand model; differential correspondence + spec oracle",
   note=TB + 'Axioms: none. Known finding K1 (sums beyond int64 panic).'),
 "C01": dict(
   text="25 theorems in coq/Properties/C01.v over the parser model and a Coq formalisation of the specification (Spec/Spec.v: AST, wf, render, denote): every well-formed specification document is accepted and parses to exactly the denoted records (C01_parse_conforming, with the value-literal, entry-line and record layers as theorems of their own), and every listed fault class (bad/non-Gregorian date, headline text, indentation first/later, bad time, missing dash, bad end, minutes overflow, bad placeholder, reversed range, second open range, blank summary start, blank line inside, stray text) injected into an arbitrary well-formed document is rejected with >= 1 error and no records. Tied to the code by documents drawn from an independent Python transcription of the grammar whose expected records are compared with the implementation's, and 12 kinds of injected faults.",
   design="§4 C01", technique="Coq proof (layered induction over spec AST) over hand model; differential correspondence + grammar-based generator with expected denotation",
   note=TB + 'Axioms: none. C01_parse_rejects_malformed_entry_partial is the only partial statement (generic malformed entry via parse_entry_value = EvErr). Known finding K3 (Zs-only lines, refuted witness in the file). Model reflects fixes F2, F10.'),
 "C09": dict(
   text='9 theorems in coq/Properties/C09.v: print = render of the canonical document, print/parse round trip under no_trailing_cr (K2 witness refuted), print idempotent, parse o print o parse = parse for every well-formed document, literal normalisations. Tied to the code by `klog print --no-style` through the real CLI on conforming documents: output parsed and printed again by model and implementation, with a round-trip/layout oracle; CRLF files with a summary line ending in a CR of its own (K2) are generated and recognised as the known finding only while klog answers exactly as the model of that defect does.',
   design="§4 C09", technique="Coq proof over hand model; differential correspondence through the real CLI + round-trip oracle",
   note=TB + 'Axioms: none. Known finding K2 (summary line ending in a lone CR).'),
 "C03": dict(
   text="24 theorems in coq/Properties/C03.v: an inductive relation `edit` (every original line survives in order with text and ending; at most c allowed rewrites; an ending gained only where lines are added; at most n contiguous blocks) proved for insert, each reconciler operation and each whole command with exact budgets (track/start/create (0,1), stop (2,1), switch (2,2), pause (1,1) per write); placeholder and value-token rewrites characterised. Tied to the code by histories of real CLI commands with a dynamic-programming minimal-edit oracle on the implementation's files.",
   design="§4 C03", technique="Coq proof over hand model; differential correspondence on command histories + minimal-edit oracle",
   note=TB + 'Axioms: none. Model reflects fix F7.'),
 "C04": dict(
   text="42 theorems in coq/Properties/C04.v: an abstract model on parsed records (add entry / new record at its chronological position with configured should-total / close the open range with appended summary / pause by whole elapsed minutes carrying tags) and, for all six commands and all histories in which any step may be rejected, exec reports what the model says and re-reading the file yields exactly the model's records (C04_exec_total_partial, C04_history_total_partial); all listed rejections (second open range, nothing to stop or pause, end before start, unknown entry to resume, malformed track texts in six families, flag conflicts) fail and change nothing. _partial because files are spec-conforming (every parser-accepted file is proved equivalent to one: C04_accepted_equivalent) and because of the K2/K15 guards; two refuted witnesses. Tied to the code by histories of up to 8 real CLI commands (the file of one step feeds the next) compared step by step with an independent abstract model in Python.",
   design="§4 C04", technique="Coq proof (refinement, partial) over hand model; differential correspondence on histories + abstract-model oracle",
   note=TB + 'Axioms: none. Known finding K15 (track with leading blank). Pause loop driven through the add-only tick hook; ticker and signals not modelled.'),
 "C05": dict(
   text='14 theorems in coq/Properties/C05.v: success => the written file parses (all commands incl. every pause tick); failure of a non-pause command => file untouched, for every failure class and for a failure in step k of n (switch). Tied to the code by histories on valid and invalid targets with parameters chosen to make steps fail: success => parses, failure => bytes identical and non-zero exit, no crash; plus an oracle-only suite whose user-supplied texts (track text, --summary) are hostile (carriage returns, empty and blank lines, NUL, BOM, invalid UTF-8, percent signs, very long lines).',
   design="§4 C05", technique="Coq proof over hand model; differential correspondence + fault-oriented histories",
   note=TB + "Axioms: none. Exit codes are read off klog.Run by the harness (not in the model). os.WriteFile atomicity is outside the property's quantifier."),
 "C11": dict(
   text='24 theorems in coq/Properties/C11.v: the election returns the most voted value, ties to the earliest first vote (unique characterisation), default when nobody votes, unanimous value otherwise; own explicit style wins; inserted lines are exactly indent^level ++ text ++ eol; value formats follow directive > configuration > record > file > default. Determinism holds because exec is a function. Tied to the code by histories on files with every style combination, ties and whitespace-only lines, each run 4 times from scratch, with a style oracle (eol, indentation, date separator, clock convention, dash spacing, placeholder length).',
   design="§4 C11", technique="Coq proof over hand model; differential correspondence with repetition + style oracle",
   note=TB + 'Axioms: none. Model reflects fixes F4, F5.'),
 "C17": dict(
   text="11 theorems in coq/Properties/C17.v: rounding = nearest multiple with ties up, in [0,1440]; at_time by target date (today, +1440, -1440, missing time; impossible exactly at rounded 24:00 for yesterday); stop's fallback to yesterday only when automatic and no record today; never a crash (first-day witness refuted); stop with an explicit date looks at that date's record only (C17_stop_explicit_date, fix F13). Tied to the code by a clock-face sweep of start/stop/switch at every minute x roundings x date selections x record layouts and `total --now` at every minute.",
   design="§4 C17", technique="Coq proof (lia / lifted clock-face sweep) over hand model; exhaustive clock sweep correspondence",
   note=TB + 'Axioms: none. Model reflects fixes F6, F13.'),
 "C20": dict(
   text="Theorems in coq/Properties/C20.v over the executable model of `klog json` (coq/Model/JsonView.v: Context.ReadInputs over one or several files, "
        "ToJson with its record / entry / tag / error views in the member order of view.go, the safemath panics of service.Total and service.Diff, "
        "strings.TrimRight; on top of the model of Go's encoding/json in coq/Model/Json.v, the parser, evaluation and tag models) and of the terminal "
        "report of the same errors (PrettifyParsingError with Reflower, colours off): (1) whatever is printed, compact or --pretty, with or without the "
        "newline of stdout, is accepted by the JSON parser and read back as the document with every string passed through string([]rune(s)) - for ANY "
        "parse results and file names (generalisation of C19's print/parse theorem to arbitrary bytes: decode(encode s) = sanitize s), and read back as "
        "EXACTLY the document for every text the parser has read and every valid-UTF-8 path (the parser's summaries, the derived tag strings and all "
        "value notations are proved valid UTF-8); the command prints a document or panics with an integer overflow, and panics exactly when there is no "
        "syntax error and some record's running total or total-minus-should leaves safemath's range (K1); (2) exactly one of records / errors is null; "
        "(3) a decoding function of_view with of_view (view r) = data_of r for every well-formed record, every record the parser returns is well-formed "
        "(valid date and times, summary lines without LF, record summary lines non-empty, entry summaries non-nil), hence end to end text -> parser -> "
        "klog json -> JSON parser -> of_document = the data of the parsed records in order, for one or several files; data_of forgets exactly dash "
        "spacing, placeholder length and the sign notation of durations; (4) total_mins = sum of the entries' total_mins, diff_mins = total_mins - "
        "should_total_mins, a range's total_mins = end_mins - start_mins, read off the JSON members, under the exact no-overflow guard; (5) every error "
        "object has line = line index + 1, column = position + 1, length, title/details of its code and the file, and the terminal report consists of one "
        "block per error from which a reader takes the same line number, caret offset = column - 1 and caret count = length, ending in the re-flowed "
        "title: details. Tied to the code by byte-identical correspondence of stdout of the REAL `klog json [--pretty] FILE...` run through klog.Run "
        "(conforming, faulted and arbitrary-byte files, summaries of quotes / backslashes / control characters / <>& / U+2028-9 / invalid UTF-8, very long "
        "lines, odd file names, several files), of json.ToJson called directly with arbitrary origin bytes, and of the error text of `klog print`; "
        "independent Python oracles (json.loads, envelope, member order and types, arithmetic relations, notation = minutes, data of the specgen AST incl. "
        "tags, error numbers = the parser's own, terminal blocks = error objects) and an implementation-only suite for --sort and the filters.",
   design="§4 C20", technique="Coq proof (induction over rune lists, JSON values, parser runs; lia) over hand model; extracted-model-vs-Go differential "
                             "correspondence on whole command lines; Python json module as independent parser",
   note=TB + "Axioms: none (Closed under the global context, 13 theorems). to_json takes the file path as an argument (it appears in the error objects); the "
             "harness hands klog paths below /proc/self/cwd so that model and implementation see the same path. Filters and --sort are checked by an oracle "
             "on the implementation only (their model belongs to C13). Known finding K1 (`klog json` panics when a record's total overflows int64) is printed, "
             "not suppressed beyond its exact inputs. Observation outside the property: kong passes positional arguments through encoding/json, so a file whose "
             "NAME is not valid UTF-8 cannot be named on the command line (its invalid bytes arrive as U+FFFD: 'No such file')."),
 "C13": dict(
   text="Theorems in coq/Properties/C13.v over the executable model of klog's query layer (coq/Model/Query.v: service.Filter with "
        "reduceRecordToMatchingTags / ...EntryTypes, service.Sort, FilterArgs.ApplyFilter statement by statement incl. every PlusDays / Period() / "
        "Previous() panic as Crash, SortArgs.ApplySort, the date / period / tag / entry-type decoders and kong's comma-separated --tag list): "
        "(1) service.Filter = filter_map of a DECLARATIVE selection: a record is kept iff its date satisfies every date clause (day-number comparisons on "
        "calendar dates) and it has a matching entry or - without a type clause - its own summary carries every queried tag; its entries are exactly the "
        "matching ones (tags of record summary + entry summary carry all queried tags in C14's sense, and the entry is of the queried type) in original "
        "order; date, summary, should-total untouched; record order preserved; (2) a query = type filter o tag filter o date filter, the three commute "
        "pairwise, and matching is the conjunction of the parts; (3) one theorem per flag: --since/--until inclusive, --after/--before strict (via "
        "PlusDays +-1 and C15's day-number theorems), --date/--today/--yesterday/--tomorrow, --period = [since, until], --this-* = the dates whose C15 "
        "period is the clock's period, --last-* = the period that ends the day before the clock's period begins; which flag wins when several compete; the "
        "query is defined exactly when every needed neighbour date / period is inside 0000..9999, otherwise ApplyFilter panics; (4) sorting: the executable "
        "stable insertion sort meets the specification `permutation + ordered by date`, preserves the multiset, is stable, and ANY function meeting the "
        "specification yields the same date sequence and per date the same multiset of records - exactly what the correspondence compares, since Go's "
        "unstable sort.Slice with klog's non-strict comparator is deliberately not modelled. Tied to the code by running the REAL command lines `klog print "
        "--no-style` (output parsed back) and `klog json` (decoded) through klog.Run with a controlled clock on generated files and flag combinations "
        "(dates clustered at year / ISO-week 52/53/1 / quarter / month boundaries, leap days, years 0000 and 9999, duplicates; query dates equal to record "
        "dates and their neighbours; all 16 relative shortcuts with the clock around period boundaries; tags with/without values, quoted, mixed case, in "
        "record and entry summaries, comma lists; 13 spellings of the 5 entry types; --sort on files of up to 120 records with many ties), compared with "
        "the extracted model and judged by an independent Python reference selection over the generator's own AST (datetime / isocalendar).",
   design="§4 C13", technique="Coq proof (list induction, option-Kleisli composition, Permutation/StronglySorted, reuse of C15 period_tiles / previous_period / "
                             "plus_days and C14 tag-set lemmas) over hand model; extracted-model-vs-Go differential correspondence through the real CLI; "
                             "independent reference-selection oracle",
   note=TB + "Axioms: none (Closed under the global context, 38 theorems incl. 2 refuted: C13_args_every_clause_refuted = known finding K13a, several date "
             "clauses for one bound are not intersected but silently override each other (shortcut > after/before > period > since/until; tomorrow > "
             "yesterday > today > date); C13_args_total_refuted = K13b, a relative shortcut panics when its (previous) period leaves 0000..9999 although the "
             "clock is inside 0000-01-02..9999-12-30 (K4 reached from the command line)). Observation through `klog print` shows a should-total of 0 minutes "
             "like an absent one (C09); `klog json` shows it as 0. Summary.Tags() is taken as C14's summary_tags (C14_summary_tags: equal on every input, no "
             "panic). strings.ToUpper in the entry-type decoder and kong's backslash escape in --tag lists are modelled for ASCII / backslash-free arguments "
             "only. service.Filter narrows records with SetEntries on the caller's own objects (suite `aliasing` counts it: a note, nothing observable at "
             "print/json). 'duration-positive' includes 0m (>= 0), as the code does; the property text does not say."),
}

NOT_YET = {}

def main():
    props = [json.loads(l)["id"] for l in open(os.path.join(ROOT, "properties.jsonl"))]
    checks = []
    for pid in props:
        if pid in CLAIMED:
            c = CLAIMED[pid]
            checks.append({
                "property_id": pid,
                "quick_cmd": "python3 check.py %s --tier quick" % pid,
                "thorough_cmd": "python3 check.py %s --tier thorough" % pid,
                "evidence_file": "/verif/evidence/%s.json" % pid,
                "replay_cmd_template": "python3 check.py %s --replay {path}" % pid,
                "engine": "coq-model+correspondence",
                "level_claimed": {"category": "proof", "text": c["text"], "design_ref": c["design"]},
                "level_note": c["note"],
                "technique": c["technique"],
            })
    na = [{"property_id": p, "reason": NOT_YET.get(p, "check not built yet in this session (claimed at level proof in DESIGN.md; will be added as its model and theorems land)")}
          for p in props if p not in CLAIMED]
    m = {
        "version": 1,
        "setup_cmd": "python3 check.py --setup",
        "hooks": {
            "guard": "verif",
            "enable": "go build -tags verif (the harness module /verif/harness replaces github.com/jotaen/klog with /repo)",
            "baseline_off_cmd": "cd /repo && go test -mod=mod -vet=off -count=1 -timeout 25m ./...",
            "source_commits": ["1f9ef10", "3105718", "69764b3"],
            "add_only": True,
        },
        "engines": [{"name": "coq-model+correspondence", "path": "/verif/check.py",
                     "serves_properties": sorted(CLAIMED), "kind_free_text":
                     "Coq 8.16.1 development (coq/) with property theorems; model extracted to OCaml (build/driver) and compared with the Go implementation (build/harness) on generated and exhaustive request streams"}],
        "checks": checks,
        "notes": "See DESIGN.md. known_findings.json lists genuine defects (known/fixed).",
        "not_applicable": na,
    }
    json.dump(m, open(os.path.join(ROOT, "MANIFEST.json"), "w"), indent=1)

if __name__ == "__main__":
    main()
