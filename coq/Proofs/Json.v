(* Lemmas about Model/Json.v: UTF-8, the string codec, numbers, the print/parse round trip. *)
From Klog Require Import Base.Prelude Base.Utf8 Model.Json.
From Coq Require Import ZifyBool ZifyN.
Open Scope N_scope.
Ltac Zify.zify_post_hook ::= Z.div_mod_to_equations.

(* ---------- Unicode scalar values and their UTF-8 form ---------- *)

Definition scalar (r : N) : Prop := (r < 55296 \/ 57343 < r) /\ r <= 1114111.

Ltac split_ifs :=
  repeat match goal with
  | |- context [if ?c then _ else _] =>
      lazymatch c with
      | context [if _ then _ else _] => fail
      | _ => let H := fresh "C" in destruct c eqn:H; try (exfalso; lia)
      end
  end.
Ltac split_ifs_in H :=
  repeat match type of H with
  | context [if ?c then _ else _] =>
      lazymatch c with
      | context [if _ then _ else _] => fail
      | _ => let C := fresh "C" in destruct c eqn:C
      end
  end.

(* decoding the encoding of a scalar value gives it back, whatever follows *)
Lemma decode_encode r X : scalar r -> decode_rune (encode_rune r ++ X) = (r, length (encode_rune r)).
Proof.
  intros [Hs Hm]. unfold encode_rune.
  destruct (r <? 128) eqn:E1; [simpl; rewrite E1; reflexivity|].
  destruct (r <? 2048) eqn:E2.
  { cbn [app length]. unfold decode_rune, is_cont. split_ifs. all: try (f_equal; lia). }
  destruct ((55296 <=? r) && (r <=? 57343) || (1114111 <? r)) eqn:E3; [exfalso; lia|].
  destruct (r <? 65536) eqn:E4.
  { cbn [app length]. unfold decode_rune, is_cont, in_range. split_ifs. all: try (f_equal; lia). }
  cbn [app length]. unfold decode_rune, is_cont, in_range. split_ifs. all: try (f_equal; lia).
Qed.

(* a successful decoding step read the encoding of a scalar value *)
Lemma encode_decode s r w : s <> [] -> decode_rune s = (r, w) -> invalid_rune (r, w) = false ->
  scalar r /\ encode_rune r = firstn w s /\ (1 <= w)%nat /\ (w <= length s)%nat.
Proof.
  intros Hne H Hv. unfold invalid_rune, rune_error in Hv. cbn [fst snd] in Hv.
  destruct s as [|b0 t]; [congruence|]. unfold decode_rune, is_cont, in_range, rune_error in H.
  destruct (b0 <? 128) eqn:E0.
  { inversion H; subst. unfold scalar, encode_rune. rewrite E0. simpl. repeat split; lia. }
  destruct (b0 <? 194) eqn:E1. { inversion H; subst. simpl in Hv. discriminate. }
  destruct (b0 <? 224) eqn:E2.
  { destruct t as [|b1 t]; [inversion H; subst; discriminate|].
    split_ifs_in H; inversion H; subst; try discriminate.
    unfold scalar, encode_rune. cbn [firstn length]. split_ifs. repeat split; try lia. f_equal; [lia | f_equal; lia]. }
  destruct (b0 <? 240) eqn:E3.
  { destruct t as [|b1 [|b2 t]]; try (inversion H; subst; discriminate).
    split_ifs_in H; inversion H; subst; try discriminate;
    unfold scalar, encode_rune; cbn [firstn length]; split_ifs; (repeat split; try lia); (f_equal; [lia | f_equal; [lia | f_equal; lia]]). }
  destruct (b0 <? 245) eqn:E4.
  { destruct t as [|b1 [|b2 [|b3 t]]]; try (inversion H; subst; discriminate).
    split_ifs_in H; inversion H; subst; try discriminate;
    unfold scalar, encode_rune; cbn [firstn length]; split_ifs; (repeat split; try lia); (f_equal; [lia | f_equal; [lia | f_equal; [lia | f_equal; lia]]]). }
  inversion H; subst; discriminate.
Qed.

Lemma encode_rune_length r : (1 <= length (encode_rune r) <= 4)%nat.
Proof. unfold encode_rune. split_ifs; simpl; lia. Qed.

Lemma encode_rune_ascii r : r < 128 -> encode_rune r = [r].
Proof. intros H. unfold encode_rune. apply N.ltb_lt in H. rewrite H. reflexivity. Qed.

(* the first byte of a multi-byte encoding is not ASCII *)
Lemma encode_rune_head r : 128 <= r -> exists b t, encode_rune r = b :: t /\ 128 <= b.
Proof.
  intros H. unfold encode_rune. split_ifs; eexists; eexists; (split; [reflexivity | lia]).
Qed.

Lemma scalar_not_invalid r : scalar r -> invalid_rune (r, length (encode_rune r)) = false.
Proof.
  intros _. unfold invalid_rune, rune_error. cbn [fst snd].
  destruct (r =? 65533) eqn:E; [|reflexivity]. apply N.eqb_eq in E. subst. reflexivity.
Qed.

Lemma utf8_encode_cons r rs : utf8_encode (r :: rs) = encode_rune r ++ utf8_encode rs.
Proof. reflexivity. Qed.

Lemma utf8_encode_length rs : (length rs <= length (utf8_encode rs))%nat.
Proof.
  induction rs as [|r rs IH]; [simpl; lia|]. rewrite utf8_encode_cons, app_length. simpl.
  pose proof (encode_rune_length r). lia.
Qed.

Lemma skipn_app_exact {A} (a b : list A) : skipn (length a) (a ++ b) = b.
Proof. induction a; simpl; auto. Qed.
Lemma firstn_app_exact {A} (a b : list A) : firstn (length a) (a ++ b) = a.
Proof. induction a; simpl; congruence. Qed.

(* utf8.ValidString holds exactly of the encodings of lists of scalar values *)
Lemma valid_fuel_runes fuel : forall s, valid_utf8_fuel fuel s = true -> exists rs, Forall scalar rs /\ s = utf8_encode rs.
Proof.
  induction fuel as [|k IH]; intros s H.
  - destruct s; [exists []; split; [constructor | reflexivity] | discriminate].
  - destruct s as [|b t]; [exists []; split; [constructor | reflexivity]|].
    cbn [valid_utf8_fuel] in H.
    destruct (decode_rune (b :: t)) as [r w] eqn:D.
    destruct (invalid_rune (r, w)) eqn:V; [discriminate|].
    cbn [snd] in H.
    destruct (encode_decode (b :: t) r w ltac:(discriminate) D V) as (Hs & He & _ & _).
    destruct (IH _ H) as (rs & Hrs & Heq).
    exists (r :: rs). split; [constructor; assumption|].
    rewrite utf8_encode_cons, He, <- Heq. symmetry. apply firstn_skipn.
Qed.

Lemma runes_valid_fuel rs : Forall scalar rs -> forall fuel, (length (utf8_encode rs) <= fuel)%nat ->
  valid_utf8_fuel fuel (utf8_encode rs) = true.
Proof.
  induction 1 as [|r rs Hr Hrs IH]; intros fuel Hf.
  - destruct fuel; reflexivity.
  - rewrite utf8_encode_cons in *. rewrite app_length in Hf.
    pose proof (encode_rune_length r) as Hl.
    destruct (encode_rune r ++ utf8_encode rs) as [|b t] eqn:E.
    { apply (f_equal (@length N)) in E. rewrite app_length in E. simpl in E. lia. }
    destruct fuel as [|k]; [lia|].
    cbn [valid_utf8_fuel]. rewrite <- E. rewrite decode_encode by assumption.
    rewrite scalar_not_invalid by assumption. cbn [snd]. rewrite skipn_app_exact.
    apply IH. lia.
Qed.

Theorem valid_utf8_runes s : valid_utf8 s <-> exists rs, Forall scalar rs /\ s = utf8_encode rs.
Proof.
  split.
  - apply valid_fuel_runes.
  - intros (rs & H & ->). apply runes_valid_fuel; [assumption | lia].
Qed.

Lemma valid_utf8_nil : valid_utf8 [].
Proof. reflexivity. Qed.

Lemma valid_utf8_app a b : valid_utf8 a -> valid_utf8 b -> valid_utf8 (a ++ b).
Proof.
  rewrite !valid_utf8_runes. intros (ra & Ha & ->) (rb & Hb & ->).
  exists (ra ++ rb). split; [apply Forall_app; split; assumption|].
  unfold utf8_encode. rewrite flat_map_app. reflexivity.
Qed.

(* an ASCII byte in front of valid text, and the text behind an ASCII byte *)
Lemma valid_utf8_cons_ascii b s : b < 128 -> (valid_utf8 (b :: s) <-> valid_utf8 s).
Proof.
  intros Hb. unfold valid_utf8, valid_utf8b. cbn [length valid_utf8_fuel].
  assert (D : decode_rune (b :: s) = (b, 1%nat)).
  { unfold decode_rune. apply N.ltb_lt in Hb. rewrite Hb. reflexivity. }
  rewrite D. unfold invalid_rune, rune_error. cbn [fst snd skipn].
  assert (E : (b =? 65533) = false) by lia. rewrite E. reflexivity.
Qed.
(* ---------- the string codec ---------- *)

(* what the encoder writes for one scalar value *)
Definition enc_out (r : N) : bytes :=
  if r <? 128 then esc_ascii r
  else if (r =? 8232) || (r =? 8233) then esc_202x r
  else encode_rune r.

Lemma enc_out_length r : (1 <= length (enc_out r))%nat.
Proof.
  unfold enc_out, esc_ascii, esc_202x. pose proof (encode_rune_length r).
  split_ifs; simpl; lia.
Qed.

Lemma encode_body_step r R k : scalar r -> encode_body (S k) (encode_rune r ++ R) = enc_out r ++ encode_body k R.
Proof.
  intros Hr. unfold enc_out. destruct (r <? 128) eqn:E.
  - rewrite encode_rune_ascii by lia. cbn [app encode_body]. rewrite E. reflexivity.
  - destruct (encode_rune_head r ltac:(lia)) as (b & t & He & Hb).
    remember (encode_rune r ++ R) as s eqn:Hs.
    assert (Hs' : s = b :: (t ++ R)) by (rewrite Hs, He; reflexivity).
    rewrite Hs'. cbn [encode_body]. replace (b <? 128) with false by lia.
    rewrite <- Hs', Hs. rewrite decode_encode by assumption.
    rewrite scalar_not_invalid by assumption. cbn [fst snd].
    rewrite skipn_app_exact, firstn_app_exact. destruct ((r =? 8232) || (r =? 8233)); reflexivity.
Qed.

Lemma small_cases (P : N -> Prop) :
  P 0 -> P 1 -> P 2 -> P 3 -> P 4 -> P 5 -> P 6 -> P 7 -> P 8 -> P 9 -> P 10 -> P 11 -> P 12 -> P 13 -> P 14 -> P 15 ->
  P 16 -> P 17 -> P 18 -> P 19 -> P 20 -> P 21 -> P 22 -> P 23 -> P 24 -> P 25 -> P 26 -> P 27 -> P 28 -> P 29 -> P 30 -> P 31 ->
  forall r, r < 32 -> P r.
Proof.
  intros. destruct r as [|p]; [assumption|].
  do 5 (try destruct p as [p|p|]); try assumption; exfalso; lia.
Qed.

Lemma read_step r Y k : scalar r ->
  read_string_fuel (S k) (enc_out r ++ Y) = prepend (encode_rune r) (read_string_fuel k Y).
Proof.
  intros Hr. unfold enc_out. destruct (r <? 128) eqn:E.
  - destruct (r <? 32) eqn:E32.
    + assert (Hlt : r < 32) by lia. clear E E32 Hr. revert r Hlt. apply small_cases; reflexivity.
    + rewrite encode_rune_ascii by lia. unfold esc_ascii.
      destruct ((r =? 34) || (r =? 92)) eqn:Q.
      * assert (r = 34 \/ r = 92) as [-> | ->] by lia; reflexivity.
      * replace (r =? 8) with false by lia. replace (r =? 12) with false by lia.
        replace (r =? 10) with false by lia. replace (r =? 13) with false by lia.
        replace (r =? 9) with false by lia. rewrite E32.
        cbn [app read_string_fuel].
        replace (r =? 34) with false by lia. replace (r =? 92) with false by lia.
        rewrite E32, E. reflexivity.
  - destruct ((r =? 8232) || (r =? 8233)) eqn:Q.
    + assert (r = 8232 \/ r = 8233) as [-> | ->] by lia; reflexivity.
    + destruct (encode_rune_head r ltac:(lia)) as (b & t & He & Hb).
      remember (encode_rune r ++ Y) as s eqn:Hs.
      assert (Hs' : s = b :: (t ++ Y)) by (rewrite Hs, He; reflexivity).
      rewrite Hs'. cbn [read_string_fuel].
      replace (b =? 34) with false by lia. replace (b =? 92) with false by lia.
      replace (b <? 32) with false by lia. replace (b <? 128) with false by lia.
      rewrite <- Hs', Hs. rewrite decode_encode by assumption. cbn [fst snd].
      rewrite skipn_app_exact. reflexivity.
Qed.

Lemma encode_body_nil fe : encode_body fe [] = [].
Proof. destruct fe; reflexivity. Qed.

Lemma encode_body_runes_length rs : Forall scalar rs -> forall fe, (length rs <= fe)%nat ->
  (length rs <= length (encode_body fe (utf8_encode rs)))%nat.
Proof.
  induction 1 as [|r rs Hr Hrs IH]; intros fe Hf; [simpl; lia|].
  destruct fe as [|k]; [simpl in Hf; lia|].
  rewrite utf8_encode_cons, encode_body_step, app_length by assumption.
  pose proof (enc_out_length r). simpl in Hf. specialize (IH k ltac:(lia)). simpl. lia.
Qed.

Lemma roundtrip_runes rs : Forall scalar rs -> forall fe fr Y, (length rs <= fe)%nat -> (length rs < fr)%nat ->
  read_string_fuel fr (encode_body fe (utf8_encode rs) ++ 34 :: Y) = Ok (utf8_encode rs, Y).
Proof.
  induction 1 as [|r rs Hr Hrs IH]; intros fe fr Y Hfe Hfr.
  - cbn [utf8_encode flat_map]. rewrite encode_body_nil. destruct fr as [|k]; [simpl in Hfr; lia|]. reflexivity.
  - destruct fe as [|ke]; [simpl in Hfe; lia|]. destruct fr as [|kr]; [simpl in Hfr; lia|].
    rewrite utf8_encode_cons, encode_body_step by assumption. rewrite <- app_assoc.
    rewrite read_step by assumption. simpl in Hfe, Hfr. rewrite IH by lia. reflexivity.
Qed.

(* reading back what the encoder wrote for valid UTF-8, with anything after the closing quote *)
Lemma read_encoded s Y : valid_utf8 s -> read_string (encode_body (length s) s ++ 34 :: Y) = Ok (s, Y).
Proof.
  intros H. apply valid_utf8_runes in H as (rs & Hrs & ->). unfold read_string.
  apply roundtrip_runes; [assumption | apply utf8_encode_length |].
  rewrite app_length. pose proof (encode_body_runes_length rs Hrs (length (utf8_encode rs)) (utf8_encode_length rs)).
  simpl. lia.
Qed.

Theorem json_string_roundtrip s : valid_utf8 s -> decode_string (encode_string s) = Ok s.
Proof.
  intros H. unfold encode_string, decode_string. cbn [app].
  change (encode_body (length s) s ++ [34]) with (encode_body (length s) s ++ 34 :: []).
  rewrite read_encoded by assumption. reflexivity.
Qed.

Lemma encode_string_shape s : encode_string s = 34 :: encode_body (length s) s ++ [34].
Proof. reflexivity. Qed.
(* ---------- numbers ---------- *)

Lemma dec_fuel_app fuel : forall z acc, dec_fuel fuel z acc = dec_fuel fuel z [] ++ acc.
Proof.
  induction fuel as [|k IH]; intros z acc; [reflexivity|].
  cbn [dec_fuel]. destruct (z <? 10)%Z; [reflexivity|].
  rewrite IH. rewrite (IH _ [_]). rewrite <- app_assoc. reflexivity.
Qed.

Lemma digits_val_snoc ds c : digits_val (ds ++ [c]) = (digits_val ds * 10 + digit_val c)%Z.
Proof. unfold digits_val. rewrite fold_left_app. reflexivity. Qed.

Lemma all_digits_snoc ds c : all_digits (ds ++ [c]) = all_digits ds && is_digit c.
Proof. unfold all_digits. rewrite forallb_app. simpl. rewrite andb_true_r. reflexivity. Qed.

Lemma digit_char_ok d : (0 <= d <= 9)%Z -> is_digit (digit_char d) = true /\ digit_val (digit_char d) = d
  /\ ((1 <= d)%Z -> is_digit19 (digit_char d) = true) /\ (d = 0%Z -> digit_char d = 48).
Proof. intros H. unfold is_digit, is_digit19, digit_val, digit_char. repeat split; intros; lia. Qed.

(* the decimal form of a non-negative integer: digits, its value, no leading zero *)
Lemma dec_fuel_spec fuel : forall z, (0 <= z < 2 ^ Z.of_nat fuel)%Z -> (1 <= fuel)%nat ->
  let ds := dec_fuel fuel z [] in
  all_digits ds = true /\ digits_val ds = z /\
  ((0 < z)%Z -> exists c t, ds = c :: t /\ is_digit19 c = true) /\ (z = 0%Z -> ds = [48]).
Proof.
  induction fuel as [|k IH]; intros z Hz Hf; [lia|].
  cbn [dec_fuel]. cbv zeta.
  assert (Hm : (0 <= z mod 10 <= 9)%Z) by (pose proof (Z.mod_pos_bound z 10); lia).
  destruct (digit_char_ok _ Hm) as (D1 & D2 & D3 & D4).
  destruct (z <? 10)%Z eqn:E.
  - assert (Hzz : (z mod 10 = z)%Z) by (apply Z.mod_small; lia).
    repeat split.
    + simpl. rewrite D1. reflexivity.
    + unfold digits_val. simpl. lia.
    + intros Hp. eexists; eexists; split; [reflexivity|]. apply D3. lia.
    + intros ->. simpl. reflexivity.
  - rewrite dec_fuel_app.
    assert (Hk : (1 <= k)%nat).
    { destruct k; [|lia]. simpl in Hz. lia. }
    assert (Hq : (0 <= z / 10 < 2 ^ Z.of_nat k)%Z).
    { rewrite Nat2Z.inj_succ, Z.pow_succ_r in Hz by lia. split; [apply Z.div_pos; lia|].
      apply Z.div_lt_upper_bound; lia. }
    destruct (IH (z / 10)%Z Hq Hk) as (A1 & A2 & A3 & A4).
    assert (Hqp : (0 < z / 10)%Z) by (apply Z.div_str_pos; lia).
    repeat split.
    + rewrite all_digits_snoc, A1, D1. reflexivity.
    + rewrite digits_val_snoc, A2, D2. pose proof (Z.div_mod z 10). lia.
    + intros _. destruct (A3 Hqp) as (c & t & -> & Hc). eexists; eexists; split; [reflexivity | exact Hc].
    + intros ->. discriminate.
Qed.

Lemma dec_nonneg_spec z : (0 <= z)%Z ->
  let ds := dec_nonneg z in
  all_digits ds = true /\ digits_val ds = z /\
  ((0 < z)%Z -> exists c t, ds = c :: t /\ is_digit19 c = true) /\ (z = 0%Z -> ds = [48]).
Proof.
  intros Hz. unfold dec_nonneg. apply dec_fuel_spec; [|lia].
  rewrite Nat2Z.inj_succ, Z2Nat.id by apply Z.log2_nonneg.
  destruct (Z.eq_dec z 0) as [->|Hn]; [simpl; lia|].
  pose proof (Z.log2_spec z ltac:(lia)). lia.
Qed.

(* what may follow a number literal without being absorbed into it *)
Definition num_stop (R : bytes) : bool :=
  match R with
  | [] => true
  | c :: _ => negb (is_digit c || (c =? 46) || (c =? 101) || (c =? 69))
  end.

Lemma span_digits ds R : all_digits ds = true -> num_stop R = true -> span is_digit (ds ++ R) = (ds, R).
Proof.
  induction ds as [|c ds IH]; intros Hd Hs.
  - destruct R as [|c R]; [reflexivity|]. simpl in *. destruct (is_digit c); [discriminate | reflexivity].
  - simpl in Hd. apply andb_true_iff in Hd as [Hc Hd]. simpl. rewrite Hc, IH by assumption. reflexivity.
Qed.

Lemma is_digit19_digit c : is_digit19 c = true -> is_digit c = true /\ (c =? 48) = false /\ (c =? 45) = false.
Proof. unfold is_digit19, is_digit. lia. Qed.

Lemma num_stop_cons c R : num_stop (c :: R) = true ->
  is_digit c = false /\ (c =? 46) = false /\ (c =? 101) || (c =? 69) = false.
Proof.
  simpl. destruct (is_digit c), (c =? 46), (c =? 101), (c =? 69); simpl; intros H; try discriminate; repeat split.
Qed.

Lemma scan_frac_stop R : num_stop R = true -> scan_frac R = Some ([], R).
Proof.
  intros Hs. destruct R as [|c R]; [reflexivity|]. unfold scan_frac.
  destruct (num_stop_cons c R Hs) as (_ & -> & _). reflexivity.
Qed.

Lemma scan_exp_stop R : num_stop R = true -> scan_exp R = Some ([], R).
Proof.
  intros Hs. destruct R as [|c R]; [reflexivity|]. unfold scan_exp.
  destruct (num_stop_cons c R Hs) as (_ & _ & ->). reflexivity.
Qed.

Lemma scan_unsigned_dec z R : (0 <= z)%Z -> num_stop R = true ->
  scan_unsigned (dec_nonneg z ++ R) = Some (dec_nonneg z, R).
Proof.
  intros Hz Hs. destruct (dec_nonneg_spec z Hz) as (A1 & A2 & A3 & A4).
  assert (Hint : scan_int (dec_nonneg z ++ R) = Some (dec_nonneg z, R)).
  { destruct (Z.eq_dec z 0) as [->|Hn].
    - rewrite (A4 eq_refl). reflexivity.
    - destruct (A3 ltac:(lia)) as (c & t & Hds & Hc). rewrite Hds in *.
      destruct (is_digit19_digit c Hc) as (Hd & H48 & H45).
      simpl in A1. rewrite Hd in A1. simpl in A1.
      unfold scan_int. cbn [app]. rewrite H48, Hc. rewrite span_digits by assumption. reflexivity. }
  unfold scan_unsigned. rewrite Hint, scan_frac_stop, scan_exp_stop by assumption.
  rewrite !app_nil_r. reflexivity.
Qed.

Lemma dec_head z : exists c t, dec z = c :: t /\ (c = 45 \/ is_digit c = true).
Proof.
  unfold dec. destruct (z <? 0)%Z eqn:E.
  - eexists; eexists; split; [reflexivity | left; reflexivity].
  - destruct (dec_nonneg_spec z ltac:(lia)) as (A1 & A2 & A3 & A4).
    destruct (Z.eq_dec z 0) as [->|Hn].
    + rewrite (A4 eq_refl). eexists; eexists; split; [reflexivity | right; reflexivity].
    + destruct (A3 ltac:(lia)) as (c & t & -> & Hc). eexists; eexists; split; [reflexivity|].
      right. apply is_digit19_digit in Hc. tauto.
Qed.

Lemma is_digit_not_minus c : is_digit c = true -> (c =? 45) = false.
Proof. unfold is_digit. lia. Qed.

Lemma dec_nonneg_head z : (0 <= z)%Z -> exists c t, dec_nonneg z = c :: t /\ is_digit c = true.
Proof.
  intros Hz. destruct (dec_nonneg_spec z Hz) as (A1 & A2 & A3 & A4).
  destruct (Z.eq_dec z 0) as [->|Hn].
  - rewrite (A4 eq_refl). eexists; eexists; split; reflexivity.
  - destruct (A3 ltac:(lia)) as (c & t & -> & Hc). eexists; eexists; split; [reflexivity|].
    apply is_digit19_digit in Hc. tauto.
Qed.

Lemma scan_number_dec z R : num_stop R = true -> scan_number (dec z ++ R) = Some (dec z, R).
Proof.
  intros Hs. unfold dec. destruct (z <? 0)%Z eqn:E.
  - unfold scan_number. cbn [app]. change (45 =? 45) with true. cbv iota.
    rewrite scan_unsigned_dec by (try lia; assumption). reflexivity.
  - destruct (dec_nonneg_head z ltac:(lia)) as (c & t & Hd & Hc).
    unfold scan_number. rewrite Hd. cbn [app]. rewrite (is_digit_not_minus c Hc).
    change (c :: t ++ R) with ((c :: t) ++ R). rewrite <- Hd.
    apply scan_unsigned_dec; [lia | assumption].
Qed.

Lemma number_value_dec z : number_value (dec z) = JNum z.
Proof.
  unfold number_value, dec. destruct (z <? 0)%Z eqn:E.
  - change (45 =? 45) with true. cbv iota.
    destruct (dec_nonneg_spec (- z)%Z ltac:(lia)) as (A1 & A2 & _).
    rewrite A1, A2. replace (- - z)%Z with z by lia. unfold dec. rewrite E.
    assert (H : bytes_eqb (45 :: dec_nonneg (- z)) (45 :: dec_nonneg (- z)) = true) by (apply bytes_eqb_eq; reflexivity).
    rewrite H. reflexivity.
  - destruct (dec_nonneg_head z ltac:(lia)) as (c & t & Hd & Hc).
    rewrite Hd. rewrite (is_digit_not_minus c Hc). rewrite <- Hd.
    destruct (dec_nonneg_spec z ltac:(lia)) as (A1 & A2 & _).
    rewrite A1, A2. unfold dec. rewrite E.
    assert (H : bytes_eqb (dec_nonneg z) (dec_nonneg z) = true) by (apply bytes_eqb_eq; reflexivity).
    rewrite H. reflexivity.
Qed.
(* ---------- print then parse ---------- *)

Lemma json_ind2 (P : json -> Prop) :
  P JNull -> (forall b, P (JBool b)) -> (forall z, P (JNum z)) -> (forall l, P (JRaw l)) -> (forall s, P (JStr s)) ->
  (forall l, Forall P l -> P (JArr l)) ->
  (forall l, Forall (fun kx => P (snd kx)) l -> P (JObj l)) ->
  forall v, P v.
Proof.
  intros Hn Hb Hz Hr Hs Ha Ho. fix IH 1. intros [ | b | z | l | s | l | l].
  - exact Hn.
  - apply Hb.
  - apply Hz.
  - apply Hr.
  - apply Hs.
  - apply Ha. induction l as [|x l IHl]; constructor; [apply IH | exact IHl].
  - apply Ho. induction l as [|kx l IHl]; constructor; [apply IH | exact IHl].
Qed.

Definition ws_only (w : bytes) : Prop := forallb is_ws w = true.

Lemma skip_ws_app w s : ws_only w -> skip_ws (w ++ s) = skip_ws s.
Proof.
  unfold ws_only. induction w as [|c w IH]; intros H; [reflexivity|].
  simpl in H. apply andb_true_iff in H as [Hc Hw]. simpl. rewrite Hc. apply IH, Hw.
Qed.

Lemma skip_ws_nonws c s : is_ws c = false -> skip_ws (c :: s) = c :: s.
Proof. intros H. simpl. rewrite H. reflexivity. Qed.

Lemma skip_ws_only w : ws_only w -> skip_ws w = [].
Proof. intros H. rewrite <- (app_nil_r w). rewrite skip_ws_app by assumption. reflexivity. Qed.

Lemma parse_value_ws fuel w s : ws_only w -> parse_value fuel (w ++ s) = parse_value fuel s.
Proof. intros H. destruct fuel; [reflexivity|]. cbn [parse_value]. rewrite skip_ws_app by assumption. reflexivity. Qed.

Lemma parse_members_ws fuel w s : ws_only w -> parse_members fuel (w ++ s) = parse_members fuel s.
Proof. intros H. destruct fuel; [reflexivity|]. cbn [parse_members]. rewrite skip_ws_app by assumption. reflexivity. Qed.

Lemma num_stop_ws w c R : ws_only w -> (c = 44 \/ c = 93 \/ c = 125) -> num_stop (w ++ c :: R) = true.
Proof.
  intros Hw Hc. destruct w as [|x w].
  - simpl. destruct Hc as [-> | [-> | ->]]; reflexivity.
  - unfold ws_only in Hw. simpl in Hw. apply andb_true_iff in Hw as [Hx _]. simpl.
    unfold is_ws in Hx. unfold is_digit. lia.
Qed.

Lemma num_stop_ws_only w : ws_only w -> num_stop w = true.
Proof.
  intros Hw. destruct w as [|x w]; [reflexivity|].
  unfold ws_only in Hw. simpl in Hw. apply andb_true_iff in Hw as [Hx _]. simpl.
  unfold is_ws in Hx. unfold is_digit. lia.
Qed.

Definition elems_cost (cost : json -> nat) (l : list json) : nat := fold_right (fun x a => S (cost x + a)) 0%nat l.
Definition membs_cost (cost : json -> nat) (l : list (bytes * json)) : nat :=
  fold_right (fun kx a => S (cost (snd kx) + a)) 0%nat l.

(* fuel that suffices to parse the printed form *)
Fixpoint cost (v : json) : nat :=
  match v with
  | JArr l => S (fold_right (fun x a => S (cost x + a)) 0%nat l)
  | JObj l => S (fold_right (fun kx a => S (cost (snd kx) + a)) 0%nat l)
  | _ => 1%nat
  end.

Lemma cost_arr l : cost (JArr l) = S (elems_cost cost l).
Proof. reflexivity. Qed.
Lemma cost_obj l : cost (JObj l) = S (membs_cost cost l).
Proof. reflexivity. Qed.

Lemma json_ok_arr x l : json_ok (JArr (x :: l)) <-> json_ok x /\ json_ok (JArr l).
Proof. simpl. tauto. Qed.
Lemma json_ok_obj kx l : json_ok (JObj (kx :: l)) <-> (valid_utf8 (fst kx) /\ json_ok (snd kx)) /\ json_ok (JObj l).
Proof. simpl. tauto. Qed.

Section RoundTrip.
  Variable nl : nat -> bytes.
  Variable csp : bytes.
  Hypothesis nl_ws : forall d, ws_only (nl d).
  Hypothesis csp_ws : ws_only csp.

  Notation pr := (print_json nl csp).

  (* every printed value starts with a character that is neither white space nor a closing bracket *)
  Lemma print_head d v : json_ok v -> exists c t, pr d v = c :: t /\ is_ws c = false /\ (c =? 93) = false /\ (c =? 125) = false.
  Proof.
    intros Hok. destruct v as [ | [|] | z | l | s | [|x l] | [|kx l]]; simpl in Hok;
      try (eexists; eexists; split; [reflexivity | repeat split; reflexivity]).
    - destruct (dec_head z) as (c & t & Hd & Hc). exists c, t. split; [exact Hd|].
      destruct Hc as [-> | Hc]; [repeat split; reflexivity|]. unfold is_digit in Hc. unfold is_ws. repeat split; lia.
    - contradiction.
  Qed.

  Definition P (v : json) : Prop :=
    json_ok v -> forall d fuel R, (cost v <= fuel)%nat -> num_stop R = true ->
    parse_value fuel (pr d v ++ R) = Ok (v, R).

  Definition elem_text (d : nat) (x : json) : bytes := nl (S d) ++ pr (S d) x.
  Definition memb_text (d : nat) (kx : bytes * json) : bytes :=
    nl (S d) ++ encode_string (fst kx) ++ [58] ++ csp ++ pr (S d) (snd kx).

  Lemma join_cons2 sep (a b : bytes) l : join sep (a :: b :: l) = a ++ sep ++ join sep (b :: l).
  Proof. reflexivity. Qed.

  Lemma join_map_cons2 {A} sep (f : A -> bytes) a b l :
    join sep (map f (a :: b :: l)) = f a ++ sep ++ join sep (map f (b :: l)).
  Proof. reflexivity. Qed.

  Lemma elements_ok d : forall l, l <> [] -> Forall P l -> json_ok (JArr l) ->
    forall fuel R, (elems_cost cost l <= fuel)%nat ->
    parse_elements fuel (join [44] (map (elem_text d) l) ++ nl d ++ 93 :: R) = Ok (l, R).
  Proof.
    induction l as [|x l IH]; intros Hne HP Hok fuel R Hf; [congruence|].
    apply json_ok_arr in Hok as [Hx Hl]. inversion HP as [|? ? Px Pl]; subst.
    unfold elems_cost in Hf. cbn [fold_right] in Hf. fold (elems_cost cost l) in Hf.
    destruct fuel as [|k]; [lia|]. cbn [parse_elements].
    destruct l as [|y l'].
    - cbn [map join]. unfold elem_text at 1. rewrite <- !app_assoc. rewrite parse_value_ws by apply nl_ws.
      rewrite (Px Hx (S d) k (nl d ++ 93 :: R)); [|simpl in Hf; lia | apply num_stop_ws; [apply nl_ws | tauto]].
      cbn [bind]. rewrite skip_ws_app by apply nl_ws. reflexivity.
    - rewrite join_map_cons2. unfold elem_text at 1. rewrite <- !app_assoc.
      rewrite parse_value_ws by apply nl_ws.
      rewrite (Px Hx (S d) k); [|lia | reflexivity].
      cbn [bind app]. rewrite skip_ws_nonws by reflexivity.
      rewrite (IH ltac:(discriminate) Pl Hl k R ltac:(lia)). reflexivity.
  Qed.

  Lemma members_ok d : forall l, l <> [] -> Forall (fun kx => P (snd kx)) l -> json_ok (JObj l) ->
    forall fuel R, (membs_cost cost l <= fuel)%nat ->
    parse_members fuel (join [44] (map (memb_text d) l) ++ nl d ++ 125 :: R) = Ok (l, R).
  Proof.
    induction l as [|[key x] l IH]; intros Hne HP Hok fuel R Hf; [congruence|].
    apply json_ok_obj in Hok as [[Hkey Hx] Hl]. inversion HP as [|? ? Px Pl]; subst. cbn [fst snd] in *.
    unfold membs_cost in Hf. cbn [fold_right snd] in Hf. fold (membs_cost cost l) in Hf.
    destruct fuel as [|k]; [lia|].
    assert (Hstep : forall rest, num_stop rest = true ->
              parse_members (S k) (memb_text d (key, x) ++ rest) =
              match skip_ws rest with
              | 44 :: r' => let* (l0, r'') := parse_members k r' in Ok ((key, x) :: l0, r'')
              | 125 :: r' => Ok ([(key, x)], r')
              | _ => syntax_err
              end).
    { intros rest Hrest. unfold memb_text. cbn [fst snd]. rewrite <- !app_assoc.
      rewrite parse_members_ws by apply nl_ws. cbn [parse_members].
      rewrite encode_string_shape. cbn [app]. rewrite skip_ws_nonws by reflexivity.
      rewrite <- app_assoc. cbn [app].
      rewrite read_encoded by assumption. cbn [bind].
      rewrite skip_ws_nonws by reflexivity.
      rewrite parse_value_ws by apply csp_ws.
      rewrite (Px Hx (S d) k rest); [|lia | assumption]. reflexivity. }
    destruct l as [|y l'].
    - cbn [map join]. rewrite Hstep by (apply num_stop_ws; [apply nl_ws | tauto]).
      rewrite skip_ws_app by apply nl_ws. reflexivity.
    - rewrite join_map_cons2. rewrite <- !app_assoc. rewrite Hstep by reflexivity.
      cbn [app]. rewrite skip_ws_nonws by reflexivity.
      rewrite (IH ltac:(discriminate) Pl Hl k R ltac:(lia)). reflexivity.
  Qed.

  Lemma parse_print_all : forall v, P v.
  Proof.
    apply json_ind2; unfold P.
    - intros _ d fuel R Hf _. destruct fuel; [simpl in Hf; lia|]. reflexivity.
    - intros b _ d fuel R Hf _. destruct fuel; [simpl in Hf; lia|]. destruct b; reflexivity.
    - intros z _ d fuel R Hf Hs. destruct fuel as [|k]; [simpl in Hf; lia|].
      cbn [print_json print_atom]. destruct (dec_head z) as (c & t & Hd & Hc).
      cbn [parse_value]. rewrite Hd. cbn [app].
      assert (Hws : is_ws c = false).
      { destruct Hc as [-> | Hc]; [reflexivity|]. unfold is_digit in Hc. unfold is_ws. lia. }
      rewrite skip_ws_nonws by assumption.
      assert (Hcases : (c =? 123) = false /\ (c =? 91) = false /\ (c =? 34) = false /\
                       (c =? 116) = false /\ (c =? 102) = false /\ (c =? 110) = false).
      { destruct Hc as [-> | Hc]; [repeat split; reflexivity|]. unfold is_digit in Hc. repeat split; lia. }
      destruct Hcases as (-> & -> & -> & H1 & H2 & H3).
      cbn [has_prefix bytes_of_string]. 
      change (N_of_ascii "t") with 116. change (N_of_ascii "f") with 102. change (N_of_ascii "n") with 110.
      rewrite (N.eqb_sym 116 c), (N.eqb_sym 102 c), (N.eqb_sym 110 c), H1, H2, H3. cbn [andb].
      change (c :: t ++ R) with ((c :: t) ++ R). rewrite <- Hd.
      rewrite scan_number_dec by assumption. rewrite number_value_dec. reflexivity.
    - intros l Hok. simpl in Hok. contradiction.
    - intros s Hok d fuel R Hf _. destruct fuel as [|k]; [simpl in Hf; lia|].
      cbn [print_json print_atom]. rewrite encode_string_shape. cbn [app parse_value].
      rewrite skip_ws_nonws by reflexivity. change (34 =? 123) with false. change (34 =? 91) with false.
      change (34 =? 34) with true. cbv iota.
      rewrite <- app_assoc. cbn [app]. simpl in Hok. rewrite read_encoded by assumption. reflexivity.
    - intros l HP Hok d fuel R Hf _. rewrite cost_arr in Hf. destruct fuel as [|k]; [lia|].
      destruct l as [|x l].
      + reflexivity.
      + assert (Hpr : pr d (JArr (x :: l)) = 91 :: join [44] (map (elem_text d) (x :: l)) ++ nl d ++ [93]) by reflexivity.
        rewrite Hpr. cbn [app parse_value]. rewrite skip_ws_nonws by reflexivity.
        change (91 =? 123) with false. change (91 =? 91) with true. cbv iota.
        rewrite <- !app_assoc. cbn [app].
        pose proof (elements_ok d (x :: l) ltac:(discriminate) HP Hok k R ltac:(lia)) as He.
        (* the first character after the bracket *)
        apply json_ok_arr in Hok as [Hx _].
        destruct (print_head (S d) x Hx) as (c & t & Hc & Hws & H93 & _).
        assert (Hsk : exists t', skip_ws (join [44] (map (elem_text d) (x :: l)) ++ nl d ++ 93 :: R) = c :: t').
        { destruct l as [|y l'].
          - cbn [map join]. unfold elem_text. rewrite <- !app_assoc. rewrite skip_ws_app by apply nl_ws.
            rewrite Hc. cbn [app]. rewrite skip_ws_nonws by assumption. eexists; reflexivity.
          - rewrite join_map_cons2. unfold elem_text at 1. rewrite <- !app_assoc.
            rewrite skip_ws_app by apply nl_ws. rewrite Hc. cbn [app]. rewrite skip_ws_nonws by assumption.
            eexists; reflexivity. }
        destruct Hsk as (t' & ->). rewrite H93. rewrite He. reflexivity.
    - intros l HP Hok d fuel R Hf _. rewrite cost_obj in Hf. destruct fuel as [|k]; [lia|].
      destruct l as [|kx l].
      + reflexivity.
      + assert (Hpr : pr d (JObj (kx :: l)) = 123 :: join [44] (map (memb_text d) (kx :: l)) ++ nl d ++ [125]) by reflexivity.
        rewrite Hpr. cbn [app parse_value]. rewrite skip_ws_nonws by reflexivity.
        change (123 =? 123) with true. cbv iota.
        rewrite <- !app_assoc. cbn [app].
        pose proof (members_ok d (kx :: l) ltac:(discriminate) HP Hok k R ltac:(lia)) as He.
        assert (Hsk : exists t', skip_ws (join [44] (map (memb_text d) (kx :: l)) ++ nl d ++ 125 :: R) = 34 :: t').
        { destruct l as [|y l'].
          - cbn [map join]. unfold memb_text. rewrite <- !app_assoc. rewrite skip_ws_app by apply nl_ws.
            rewrite encode_string_shape. cbn [app]. rewrite skip_ws_nonws by reflexivity. eexists; reflexivity.
          - rewrite join_map_cons2. unfold memb_text at 1. rewrite <- !app_assoc.
            rewrite skip_ws_app by apply nl_ws. rewrite encode_string_shape. cbn [app].
            rewrite skip_ws_nonws by reflexivity. eexists; reflexivity. }
        destruct Hsk as (t' & ->). change (34 =? 125) with false. cbv iota. rewrite He. reflexivity.
  Qed.

  (* the printed form is long enough to pay for its own parsing *)
  Lemma join_length sep (l : list bytes) : (fold_right (fun x a => length x + a) 0 l <= length (join sep l))%nat.
  Proof.
    induction l as [|x l IH]; [simpl; lia|]. destruct l as [|y l]; [simpl; lia|].
    rewrite join_cons2, !app_length. cbn [fold_right] in *. lia.
  Qed.

  Lemma cost_le_length : forall v d, json_ok v -> (S (cost v) <= 2 * length (pr d v))%nat.
  Proof.
    apply (json_ind2 (fun v => forall d, json_ok v -> (S (cost v) <= 2 * length (pr d v))%nat)).
    - intros; simpl; lia.
    - intros [|]; simpl; lia.
    - intros z d _. destruct (dec_head z) as (c & t & Hd & _). cbn [print_json print_atom cost]. rewrite Hd. simpl. lia.
    - intros l d H. simpl in H. contradiction.
    - intros s d _. cbn [print_json print_atom cost]. rewrite encode_string_shape. simpl. lia.
    - intros l HP d Hok. rewrite cost_arr. destruct l as [|x l]; [simpl; lia|].
      assert (Hpr : pr d (JArr (x :: l)) = 91 :: join [44] (map (elem_text d) (x :: l)) ++ nl d ++ [93]) by reflexivity.
      rewrite Hpr. cbn [length]. rewrite !app_length. cbn [length].
      pose proof (join_length [44] (map (elem_text d) (x :: l))) as Hj.
      assert (Hsum : (elems_cost cost (x :: l) <= 2 * fold_right (fun x a => length x + a) 0 (map (elem_text d) (x :: l)))%nat).
      { clear Hj Hpr. revert HP Hok. generalize (x :: l). intros l0 HP Hok.
        induction l0 as [|y l0 IH]; [simpl; lia|].
        apply json_ok_arr in Hok as [Hy Hl0]. inversion HP as [|? ? Py Pl0]; subst.
        specialize (IH Pl0 Hl0). specialize (Py (S d) Hy).
        unfold elems_cost in *. cbn [fold_right map]. unfold elem_text at 1. rewrite app_length.
        lia. }
      lia.
    - intros l HP d Hok. rewrite cost_obj. destruct l as [|kx l]; [simpl; lia|].
      assert (Hpr : pr d (JObj (kx :: l)) = 123 :: join [44] (map (memb_text d) (kx :: l)) ++ nl d ++ [125]) by reflexivity.
      rewrite Hpr. cbn [length]. rewrite !app_length. cbn [length].
      pose proof (join_length [44] (map (memb_text d) (kx :: l))) as Hj.
      assert (Hsum : (membs_cost cost (kx :: l) <= 2 * fold_right (fun x a => length x + a) 0 (map (memb_text d) (kx :: l)))%nat).
      { clear Hj Hpr. revert HP Hok. generalize (kx :: l). intros l0 HP Hok.
        induction l0 as [|y l0 IH]; [simpl; lia|].
        apply json_ok_obj in Hok as [[_ Hy] Hl0]. inversion HP as [|? ? Py Pl0]; subst.
        specialize (IH Pl0 Hl0). specialize (Py (S d) Hy).
        unfold membs_cost in *. cbn [fold_right map]. unfold memb_text at 1. rewrite !app_length.
        rewrite encode_string_shape. cbn [length]. lia. }
      lia.
  Qed.

  (* printing with this layout, then parsing: the identity, also with white space after the value *)
  Theorem parse_print_layout v d w : json_ok v -> ws_only w -> parse_json (pr d v ++ w) = Ok v.
  Proof.
    intros Hok Hw. unfold parse_json.
    rewrite (parse_print_all v Hok d _ w); [| |apply num_stop_ws_only, Hw].
    - cbn [bind]. rewrite skip_ws_only by assumption. reflexivity.
    - pose proof (cost_le_length v d Hok). rewrite app_length. lia.
  Qed.
End RoundTrip.

Lemma nl_compact_ws d : ws_only (nl_compact d).
Proof. reflexivity. Qed.

Lemma nl_indent_ws d : ws_only (nl_indent d).
Proof.
  unfold nl_indent, ws_only. cbn [forallb]. change (is_ws 10) with true. cbn [andb].
  induction d as [|d IH]; [reflexivity|]. cbn [repeat_bytes app forallb]. rewrite IH. reflexivity.
Qed.

Theorem parse_print_compact v : json_ok v -> parse_json (print_compact v) = Ok v.
Proof.
  intros H. unfold print_compact. rewrite <- (app_nil_r (print_json _ _ _ _)).
  apply parse_print_layout; [exact nl_compact_ws | reflexivity | assumption | reflexivity].
Qed.

Theorem parse_print_pretty v : json_ok v -> parse_json (print_pretty v) = Ok v.
Proof.
  intros H. unfold print_pretty. rewrite <- (app_nil_r (print_json _ _ _ _)).
  apply parse_print_layout; [exact nl_indent_ws | reflexivity | assumption | reflexivity].
Qed.

(* what json.Encoder.Encode writes (value + newline) parses back *)
Theorem parse_encoder_output pretty v : json_ok v -> parse_json (encoder_output pretty v) = Ok v.
Proof.
  intros H. unfold encoder_output, print_compact, print_pretty. destruct pretty.
  - apply parse_print_layout; [exact nl_indent_ws | reflexivity | assumption | reflexivity].
  - apply parse_print_layout; [exact nl_compact_ws | reflexivity | assumption | reflexivity].
Qed.

(* ---------- the fuel is never exhausted: parsing any text ends in a value or a syntax error ---------- *)

Lemma skip_ws_length s : (length (skip_ws s) <= length s)%nat.
Proof. induction s as [|c s IH]; simpl; [lia|]. destruct (is_ws c); simpl; lia. Qed.

Lemma skip_ws_cons s c r : skip_ws s = c :: r -> (length r < length s)%nat.
Proof. intros H. pose proof (skip_ws_length s) as L. rewrite H in L. simpl in L. lia. Qed.

Lemma prepend_ok p x d r : prepend p x = Ok (d, r) -> exists d', x = Ok (d', r).
Proof. destruct x as [[d' r'] | e | c]; simpl; intros H; inversion H; subst; eauto. Qed.

Lemma prepend_crash p x c : prepend p x = Crash c -> x = Crash c.
Proof. destruct x as [[d' r'] | e | c']; simpl; intros H; inversion H; subst; reflexivity. Qed.

Lemma hex4_length s v r : hex4 s = Some (v, r) -> (length r <= length s)%nat.
Proof.
  unfold hex4. destruct s as [|a [|b [|c [|d t]]]]; try discriminate.
  destruct (hexv a), (hexv b), (hexv c), (hexv d); try discriminate. intros H. inversion H; subst. simpl. lia.
Qed.

Lemma skipn_length_le {A} n (l : list A) : (length (skipn n l) <= length l)%nat.
Proof. rewrite skipn_length. lia. Qed.

Ltac break_read H :=
  repeat match type of H with
  | context [if ?c then _ else _] => destruct c eqn:?
  | context [match ?x with _ => _ end] => destruct x eqn:?
  end.

(* the text after the closing quote is shorter than the text after the opening quote *)
Lemma read_string_fuel_rest f : forall s d r, read_string_fuel f s = Ok (d, r) -> (length r < length s)%nat.
Proof.
  induction f as [|k IH]; intros s d r H; [discriminate|].
  cbn [read_string_fuel] in H. destruct s as [|c t]; [discriminate|].
  destruct (c =? 34); [inversion H; subst; simpl; lia|].
  destruct (c =? 92).
  - destruct t as [|e r1]; [discriminate|].
    repeat match type of H with
    | (if ?c then _ else _) = _ => destruct c
    end; try discriminate;
    try (apply prepend_ok in H as (d' & H); apply IH in H; simpl in *; lia).
    destruct (hex4 r1) as [[v r2]|] eqn:E4; [|discriminate].
    apply hex4_length in E4.
    destruct (is_surrogate v).
    + destruct r2 as [|x1 [|x2 r3]] eqn:Er2.
      * apply prepend_ok in H as (d' & H). apply IH in H. simpl in *. lia.
      * destruct x1 as [|p1]; try (apply prepend_ok in H as (d' & H); apply IH in H; simpl in *; lia).
        repeat (destruct p1 as [p1|p1|]; try (apply prepend_ok in H as (d' & H); apply IH in H; simpl in *; lia)).
      * assert (Hfall : forall d', read_string_fuel k (x1 :: x2 :: r3) = Ok (d', r) -> (length r < length (c :: e :: r1))%nat).
        { intros d' H'. apply IH in H'. simpl in *. lia. }
        destruct x1 as [|p1]; try (apply prepend_ok in H as (d' & H); eapply Hfall; exact H).
        repeat (destruct p1 as [p1|p1|]; try (apply prepend_ok in H as (d' & H); eapply Hfall; exact H)).
        destruct x2 as [|p2]; try (apply prepend_ok in H as (d' & H); eapply Hfall; exact H).
        repeat (destruct p2 as [p2|p2|]; try (apply prepend_ok in H as (d' & H); eapply Hfall; exact H)).
        destruct (hex4 r3) as [[v2 r4]|] eqn:E5; [|apply prepend_ok in H as (d' & H); eapply Hfall; exact H].
        apply hex4_length in E5.
        destruct (is_high v && is_low v2); apply prepend_ok in H as (d' & H); [|eapply Hfall; exact H].
        apply IH in H. simpl in *. lia.
    + apply prepend_ok in H as (d' & H). apply IH in H. simpl in *. lia.
  - destruct (c <? 32); [discriminate|].
    destruct (c <? 128); apply prepend_ok in H as (d' & H); apply IH in H.
    + simpl in *. lia.
    + pose proof (skipn_length_le (snd (decode_rune (c :: t))) (c :: t)). lia.
Qed.

Lemma read_string_fuel_no_crash f : forall s c, read_string_fuel f s <> Crash c.
Proof.
  induction f as [|k IH]; intros s c H; [discriminate|].
  cbn [read_string_fuel] in H. destruct s as [|x t]; [discriminate|].
  repeat match type of H with
  | (if ?b then _ else _) = _ => destruct b
  | match ?x with _ => _ end = _ => destruct x
  end; try discriminate; apply prepend_crash in H; eapply IH; exact H.
Qed.

Lemma read_string_rest s d r : read_string s = Ok (d, r) -> (length r < length s)%nat.
Proof. apply read_string_fuel_rest. Qed.
Lemma read_string_no_crash s c : read_string s <> Crash c.
Proof. apply read_string_fuel_no_crash. Qed.

Lemma span_length {A} (p : A -> bool) l : (length (snd (span p l)) <= length l)%nat.
Proof. rewrite <- (span_app p l) at 2. rewrite app_length. lia. Qed.

Lemma scan_int_rest s p r : scan_int s = Some (p, r) -> (length r <= length s)%nat.
Proof.
  unfold scan_int. destruct s as [|c r1]; [discriminate|].
  destruct (c =? 48); [intros H; inversion H; subst; simpl; lia|].
  destruct (is_digit19 c); [|discriminate].
  pose proof (span_length is_digit r1) as L. destruct (span is_digit r1). intros H. inversion H; subst. simpl in *. lia.
Qed.

Lemma scan_frac_rest s p r : scan_frac s = Some (p, r) -> (length r <= length s)%nat.
Proof.
  unfold scan_frac. destruct s as [|c r1]; [intros H; inversion H; subst; lia|].
  destruct (c =? 46); [|intros H; inversion H; subst; lia].
  pose proof (span_length is_digit r1) as L. destruct (span is_digit r1) as [ds r4]. destruct ds; [discriminate|].
  intros H. inversion H; subst. simpl in *. lia.
Qed.

Lemma scan_exp_rest s p r : scan_exp s = Some (p, r) -> (length r <= length s)%nat.
Proof.
  unfold scan_exp. destruct s as [|e r5]; [intros H; inversion H; subst; lia|].
  destruct ((e =? 101) || (e =? 69)); [|intros H; inversion H; subst; lia].
  destruct r5 as [|x r'].
  - simpl. discriminate.
  - destruct ((x =? 43) || (x =? 45)).
    + pose proof (span_length is_digit r') as L. destruct (span is_digit r') as [ds r7]. destruct ds; [discriminate|].
      intros H. inversion H; subst. simpl in *. lia.
    + pose proof (span_length is_digit (x :: r')) as L. destruct (span is_digit (x :: r')) as [ds r7]. destruct ds; [discriminate|].
      intros H. inversion H; subst. simpl in *. lia.
Qed.

Lemma scan_unsigned_rest s lit r : scan_unsigned s = Some (lit, r) -> (length r <= length s)%nat.
Proof.
  unfold scan_unsigned.
  destruct (scan_int s) as [[ip s2]|] eqn:E1; [|discriminate]. apply scan_int_rest in E1.
  destruct (scan_frac s2) as [[fp s3]|] eqn:E2; [|discriminate]. apply scan_frac_rest in E2.
  destruct (scan_exp s3) as [[ep s4]|] eqn:E3; [|discriminate]. apply scan_exp_rest in E3.
  intros H. inversion H; subst. lia.
Qed.

Lemma scan_number_rest s lit r : scan_number s = Some (lit, r) -> (length r <= length s)%nat.
Proof.
  unfold scan_number. destruct s as [|c t]; [discriminate|]. destruct (c =? 45).
  - destruct (scan_unsigned t) as [[l rest]|] eqn:E; [|discriminate]. intros H. inversion H; subst.
    apply scan_unsigned_rest in E. simpl. lia.
  - apply scan_unsigned_rest.
Qed.

Definition total_on {A} (x : outcome (A * bytes)) (s : bytes) : Prop :=
  (forall c, x <> Crash c) /\ (forall a r, x = Ok (a, r) -> (length r <= length s)%nat).

Lemma parse_total : forall fuel,
  (forall s, (2 * length s + 1 <= fuel)%nat -> total_on (parse_value fuel s) s) /\
  (forall s, (2 * length s + 2 <= fuel)%nat -> total_on (parse_elements fuel s) s) /\
  (forall s, (2 * length s + 2 <= fuel)%nat -> total_on (parse_members fuel s) s).
Proof.
  induction fuel as [|k (IHv & IHe & IHm)].
  { repeat split; intros; lia. }
  split; [|split].
  - (* value *)
    intros s Hf. cbn [parse_value]. destruct (skip_ws s) as [|c r] eqn:Es; [split; [discriminate | discriminate]|].
    pose proof (skip_ws_cons _ _ _ Es) as Hr.
    destruct (c =? 123).
    { destruct (skip_ws r) as [|c' r'] eqn:Er; [split; discriminate|].
      pose proof (skip_ws_cons _ _ _ Er) as Hr'.
      destruct (c' =? 125); [split; [discriminate | intros a r0 H; inversion H; subst; lia]|].
      destruct (IHm r ltac:(lia)) as [Hc Hl].
      destruct (parse_members k r) as [[m r'']|e|c0] eqn:Em; cbn [bind].
      - split; [discriminate|]. intros a r0 H. inversion H; subst. specialize (Hl _ _ eq_refl). lia.
      - split; discriminate.
      - exfalso. eapply Hc. reflexivity. }
    destruct (c =? 91).
    { destruct (skip_ws r) as [|c' r'] eqn:Er; [split; discriminate|].
      pose proof (skip_ws_cons _ _ _ Er) as Hr'.
      destruct (c' =? 93); [split; [discriminate | intros a r0 H; inversion H; subst; lia]|].
      destruct (IHe r ltac:(lia)) as [Hc Hl].
      destruct (parse_elements k r) as [[m r'']|e|c0] eqn:Em; cbn [bind].
      - split; [discriminate|]. intros a r0 H. inversion H; subst. specialize (Hl _ _ eq_refl). lia.
      - split; discriminate.
      - exfalso. eapply Hc. reflexivity. }
    destruct (c =? 34).
    { destruct (read_string r) as [[str r']|e|c0] eqn:E; cbn [bind].
      - apply read_string_rest in E. split; [discriminate|]. intros a r0 H. inversion H; subst. lia.
      - split; discriminate.
      - exfalso. eapply read_string_no_crash. exact E. }
    destruct (has_prefix b!"true" (c :: r)).
    { split; [discriminate|]. intros a r0 H. assert (r0 = skipn 3 r) by congruence. subst r0. pose proof (skipn_length_le 3 r). lia. }
    destruct (has_prefix b!"false" (c :: r)).
    { split; [discriminate|]. intros a r0 H. assert (r0 = skipn 4 r) by congruence. subst r0. pose proof (skipn_length_le 4 r). lia. }
    destruct (has_prefix b!"null" (c :: r)).
    { split; [discriminate|]. intros a r0 H. assert (r0 = skipn 3 r) by congruence. subst r0. pose proof (skipn_length_le 3 r). lia. }
    destruct (scan_number (c :: r)) as [[lit r']|] eqn:En; [|split; discriminate].
    apply scan_number_rest in En. split; [discriminate|]. intros a r0 H. inversion H; subst. simpl in En. lia.
  - (* elements *)
    intros s Hf. cbn [parse_elements].
    destruct (IHv s ltac:(lia)) as [Hc Hl].
    destruct (parse_value k s) as [[v r]|e|c0] eqn:Ev; cbn [bind]; [|split; discriminate|exfalso; eapply Hc; reflexivity].
    specialize (Hl _ _ eq_refl).
    destruct (skip_ws r) as [|x r'] eqn:Er; [split; discriminate|].
    pose proof (skip_ws_cons _ _ _ Er) as Hr'.
    assert (Hcomma : total_on (let* (l, r'') := parse_elements k r' in Ok (v :: l, r'')) s).
    { destruct (IHe r' ltac:(lia)) as [Hc' Hl'].
      destruct (parse_elements k r') as [[l r'']|e|c0] eqn:Ee; cbn [bind].
      - split; [discriminate|]. intros a r0 H. inversion H; subst. specialize (Hl' _ _ eq_refl). lia.
      - split; discriminate.
      - exfalso. eapply Hc'. reflexivity. }
    assert (Hclose : total_on (Ok ([v], r')) s).
    { split; [discriminate|]. intros a r0 H. inversion H; subst. lia. }
    assert (Herr : total_on (@syntax_err (list json * bytes)) s) by (split; discriminate).
    destruct x as [|p]; [exact Herr|].
    repeat (destruct p as [p|p|]; try exact Herr; try exact Hcomma; try exact Hclose).
  - (* members *)
    intros s Hf. cbn [parse_members].
    assert (Herr : total_on (@syntax_err (list (bytes * json) * bytes)) s) by (split; discriminate).
    destruct (skip_ws s) as [|q r0] eqn:Es; [exact Herr|].
    pose proof (skip_ws_cons _ _ _ Es) as Hr0.
    assert (Hmain : total_on (let* (key, r1) := read_string r0 in
                              match skip_ws r1 with
                              | 58 :: r2 =>
                                let* (v, r) := parse_value k r2 in
                                match skip_ws r with
                                | 44 :: r' => let* (l, r'') := parse_members k r' in Ok ((key, v) :: l, r'')
                                | 125 :: r' => Ok ([(key, v)], r')
                                | _ => syntax_err
                                end
                              | _ => syntax_err
                              end) s).
    { destruct (read_string r0) as [[key r1]|e|c0] eqn:Ek; cbn [bind]; [|split; discriminate|exfalso; eapply read_string_no_crash; exact Ek].
      apply read_string_rest in Ek.
      destruct (skip_ws r1) as [|y r2] eqn:E1; [exact Herr|].
      pose proof (skip_ws_cons _ _ _ E1) as Hr2.
      assert (Hval : total_on (let* (v, r) := parse_value k r2 in
                               match skip_ws r with
                               | 44 :: r' => let* (l, r'') := parse_members k r' in Ok ((key, v) :: l, r'')
                               | 125 :: r' => Ok ([(key, v)], r')
                               | _ => syntax_err
                               end) s).
      { destruct (IHv r2 ltac:(lia)) as [Hc Hl].
        destruct (parse_value k r2) as [[v r]|e|c0] eqn:Ev; cbn [bind]; [|split; discriminate|exfalso; eapply Hc; reflexivity].
        specialize (Hl _ _ eq_refl).
        destruct (skip_ws r) as [|x r'] eqn:Er; [exact Herr|].
        pose proof (skip_ws_cons _ _ _ Er) as Hr'.
        assert (Hcomma : total_on (let* (l, r'') := parse_members k r' in Ok ((key, v) :: l, r'')) s).
        { destruct (IHm r' ltac:(lia)) as [Hc' Hl'].
          destruct (parse_members k r') as [[l r'']|e|c0] eqn:Ee; cbn [bind].
          - split; [discriminate|]. intros a r3 H. inversion H; subst. specialize (Hl' _ _ eq_refl). lia.
          - split; discriminate.
          - exfalso. eapply Hc'. reflexivity. }
        assert (Hclose : total_on (Ok ([(key, v)], r')) s).
        { split; [discriminate|]. intros a r3 H. inversion H; subst. lia. }
        destruct x as [|p]; [exact Herr|].
        repeat (destruct p as [p|p|]; try exact Herr; try exact Hcomma; try exact Hclose). }
      destruct y as [|p]; [exact Herr|].
      repeat (destruct p as [p|p|]; try exact Herr; try exact Hval). }
    destruct q as [|p]; [exact Herr|].
    repeat (destruct p as [p|p|]; try exact Herr; try exact Hmain).
Qed.

(* parse_json is total: a value or a syntax error, never out of fuel *)
Theorem parse_json_no_crash s c : parse_json s <> Crash c.
Proof.
  unfold parse_json. destruct (parse_total (2 * length s + 2)) as (Hv & _ & _).
  destruct (Hv s ltac:(lia)) as [Hc _].
  destruct (parse_value (2 * length s + 2) s) as [[v r]|e|c0] eqn:E; cbn [bind].
  - destruct (skip_ws r); discriminate.
  - discriminate.
  - exfalso. eapply Hc. reflexivity.
Qed.
