(* Suite "styler" (C18): requests evaluated by the model for the correspondence check.

   style-format <scheme> <props> <props2> <hex text>   -> ok <hex Format(text)> <hex FormatAndRestore(text, props2)> | crash
   style-strip <hex text>                              -> ok <hex StripAllAnsiSequences(text)> <rune count of it>
   style-doc <scheme> <tok>...                         -> ok <hex render under scheme> <hex render under no_colour> | crash
       tok: P<hex> plain text | (<props> open a styled piece | ) close it
   table-render <scheme> <cols> <hex sep> <cell>...    -> ok <hex Collect output> | crash
       cell: L,<style>,<hex> | R,<style>,<hex> | F,<style>,<hex> | S,<n>    style: n (plain) | <props>
   style-print <scheme> <tok>...                       -> ok <hex `klog print` under scheme> <hex under no_colour>
       tok: R,<hex date>,<hex should-total text> new record | S,<segs> record summary line
          | E,<d|r|o>,<hex value> new entry (duration, range, open range) | L,<segs> entry summary line
       segs: t<hex> (text) and g<hex> (tag) joined by "."; "-" for none
   props: <colour>,<background>,<bold 0/1>,<underlined 0/1>;  "-" is the empty string. *)
From Klog Require Import Base.Prelude Base.Utf8 Model.Show Model.Styler Model.Table Model.TextSer.
Open Scope Z_scope.

(* "-" stands for the empty string, as in requests *)
Definition hx0 (s : bytes) : bytes := match s with [] => b!"-" | _ => hex_of_bytes s end.

Definition parse_props (s : bytes) : props :=
  match split_on 44%N s [] with
  | [c; b; bo; u] =>
    mk_props (Z.to_N (parse_int c)) (Z.to_N (parse_int b)) (bytes_eqb bo b!"1") (bytes_eqb u b!"1")
  | _ => no_props
  end.

(* recursive descent over the document tokens; returns the pieces read and the remaining tokens *)
Fixpoint parse_doc (fuel : nat) (toks : list bytes) : list piece * list bytes :=
  match fuel with
  | O => ([], toks)
  | S k =>
    match toks with
    | [] => ([], [])
    | t :: r =>
      match t with
      | 80%N :: h =>                                   (* P<hex> *)
        let '(ps, rest) := parse_doc k r in (Plain (arg_bytes h) :: ps, rest)
      | 40%N :: pr =>                                  (* (<props> *)
        let '(kids, rest) := parse_doc k r in
        let '(ps, rest') := parse_doc k rest in
        (Styled (parse_props pr) kids :: ps, rest')
      | _ => ([], r)                                   (* ) or anything else closes *)
      end
    end
  end.

Definition styled_text (th : theme) (style text : bytes) : bytes :=
  if bytes_eqb style b!"n" then text else format th (parse_props style) text.

Definition parse_cell (th : theme) (s : bytes) : option op :=
  match split_on 44%N s [] with
  | [k; a] => if bytes_eqb k b!"S" then Some (OSkip (parse_int a)) else None
  | k :: rest =>
    match rev rest with
    | h :: rstyle =>
      let style := join [44%N] (rev rstyle) in
      let v := styled_text th style (arg_bytes h) in
      if bytes_eqb k b!"L" then Some (OCellL v)
      else if bytes_eqb k b!"R" then Some (OCellR v)
      else if bytes_eqb k b!"F" then Some (OFill v)
      else None
    | [] => None
    end
  | [] => None
  end.

(* ---- records for style-print (built back to front, then reversed) ---- *)

Definition parse_seg (x : bytes) : seg :=
  match x with
  | 103%N :: h => (true, arg_bytes h)
  | _ :: h => (false, arg_bytes h)
  | [] => (false, [])
  end.

Definition parse_segs (s : bytes) : list seg :=
  if bytes_eqb s b!"-" then [] else map parse_seg (split_on 46%N s []).

Definition parse_kind (s : bytes) : entry_kind :=
  if bytes_eqb s b!"r" then KRange else if bytes_eqb s b!"o" then KOpenRange else KDuration.

Definition add_print_tok (acc : list p_record) (t : bytes) : list p_record :=
  match split_on 44%N t [] with
  | [k; a; b] =>
    if bytes_eqb k b!"R" then mk_record (arg_bytes a) (arg_bytes b) [] [] :: acc
    else if bytes_eqb k b!"E" then
      match acc with
      | r :: rest => mk_record (pr_date_text r) (pr_should_text r) (pr_summary_lines r)
                               (mk_entry (parse_kind a) (arg_bytes b) [] :: pr_entries r) :: rest
      | [] => []
      end
    else acc
  | [k; a] =>
    match acc with
    | r :: rest =>
      if bytes_eqb k b!"S" then
        mk_record (pr_date_text r) (pr_should_text r) (parse_segs a :: pr_summary_lines r) (pr_entries r) :: rest
      else if bytes_eqb k b!"L" then
        match pr_entries r with
        | e :: es => mk_record (pr_date_text r) (pr_should_text r) (pr_summary_lines r)
                               (mk_entry (pe_kind e) (pe_text e) (parse_segs a :: pe_summary e) :: es) :: rest
        | [] => acc
        end
      else acc
    | [] => []
    end
  | _ => acc
  end.

Definition finish_entry (e : p_entry) : p_entry := mk_entry (pe_kind e) (pe_text e) (rev (pe_summary e)).
Definition finish_record (r : p_record) : p_record :=
  mk_record (pr_date_text r) (pr_should_text r) (rev (pr_summary_lines r)) (rev (map finish_entry (pr_entries r))).

Definition parse_records (toks : list bytes) : list p_record :=
  rev (map finish_record (fold_left add_print_tok toks [])).

Definition keep_some {A} (l : list (option A)) : list A :=
  flat_map (fun o => match o with Some x => [x] | None => [] end) l.

Definition suite_styler (cmd : bytes) (args : list bytes) : option bytes :=
  if bytes_eqb cmd b!"style-format" then
    match args with
    | [scheme; p; p2; s] =>
      Some (match new_styler scheme with
            | Ok th => words [b!"ok"; hx0 (format th (parse_props p) (arg_bytes s));
                              hx0 (format_and_restore th (parse_props p) (arg_bytes s) (parse_props p2))]
            | _ => b!"crash"
            end)
    | _ => None
    end
  else if bytes_eqb cmd b!"style-strip" then
    match args with
    | [s] => let r := strip (arg_bytes s) in
             Some (words [b!"ok"; hx0 r; dec (Z.of_nat (rune_count r))])
    | _ => None
    end
  else if bytes_eqb cmd b!"style-doc" then
    match args with
    | scheme :: toks =>
      Some (match new_styler scheme with
            | Ok th => let doc := fst (parse_doc (length toks) toks) in
                       words [b!"ok"; hx0 (render_doc th doc); hx0 (render_doc no_colour doc)]
            | _ => b!"crash"
            end)
    | _ => None
    end
  else if bytes_eqb cmd b!"style-print" then
    match args with
    | scheme :: toks =>
      Some (match new_styler scheme with
            | Ok th => let doc := print_doc (parse_records toks) in
                       words [b!"ok"; hx0 (render_doc th doc); hx0 (render_doc no_colour doc)]
            | _ => b!"crash"
            end)
    | _ => None
    end
  else if bytes_eqb cmd b!"table-render" then
    match args with
    | scheme :: cols :: sep :: cells =>
      Some (match new_styler scheme with
            | Ok th =>
              show_outcome hx0
                (let* t := build (parse_int cols) (arg_bytes sep) (keep_some (map (parse_cell th) cells)) in
                 collect t)
            | _ => b!"crash"
            end)
    | _ => None
    end
  else None.
