(* C15 — calendar periods tile the calendar exactly.
   Property theorems only: each is closed by [exact <lemma>] and followed by Print Assumptions.
   Vocabulary (defined in Proofs/Calendar.v, Proofs/Period.v, Proofs/PeriodPattern.v):
     valid c            c is a date 0000-01-01 .. 9999-12-31 (civil.IsValid + civil2Date's year range)
     wf_date c          c is a date of the proleptic Gregorian calendar, any year
     next_day           the Gregorian RULE (month lengths, leap years by 4/100/400): the independent reference
     days_of            day number (Hinnant), 1970-01-01 = 0;  monday_of c = day number of the Monday of c's week
     period_of k c      Week/Month/Quarter/Year{c}.Period()    previous_period k c = X{c}.Previous().Period()
     period_edge, previous_edge   the dates whose (previous) period reaches outside 0000..9999: there the Go code
                                  panics (finding K4); the theorems below exclude exactly those and prove the panic.
   Period PATTERNS never panic (finding F8, fixed in /repo by 9e99f6b): C15_pattern_total. *)
From Klog Require Import Base.Prelude Model.Calendar Model.Period Proofs.Calendar Proofs.Period Proofs.PeriodPattern.
Open Scope Z_scope.

(* ------------------------------------------------------------------ 1. day numbers *)

(* date -> day number -> date and day number -> date -> day number are identities on 0000-01-01..9999-12-31 *)
Theorem C15_civil_days_roundtrip :
  (forall c, valid c -> civil_from_days (days_of c) = c) /\
  (forall z, days_of (mk 0 1 1) <= z <= days_of (mk 9999 12 31) ->
             valid (civil_from_days z) /\ days_of (civil_from_days z) = z).
Proof. exact civil_days_roundtrip. Qed.
Print Assumptions C15_civil_days_roundtrip.

(* the same for every year, negative ones included (the ISO week of 0000-01-01 needs year -1) *)
Theorem C15_civil_days_roundtrip_all_years :
  (forall c, wf_date c -> civil_from_days (days_of c) = c) /\
  (forall z, wf_date (civil_from_days z) /\ days_of (civil_from_days z) = z).
Proof. exact (conj cfd_days days_cfd). Qed.
Print Assumptions C15_civil_days_roundtrip_all_years.

(* the day number advances by one exactly as the Gregorian rule advances the date *)
Theorem C15_days_next_day : forall c, valid c -> c <> mk 9999 12 31 ->
  valid (next_day c) /\ days_of (next_day c) = days_of c + 1.
Proof. exact days_next_day. Qed.
Print Assumptions C15_days_next_day.

(* Date.IsAfterOrEqual (year, month, day compared in turn) is the order of day numbers *)
Theorem C15_date_order : forall a b, valid a -> valid b -> (cdate_geb a b = true <-> days_of b <= days_of a).
Proof. exact date_order. Qed.
Print Assumptions C15_date_order.

(* Date.PlusDays(n) is the date n days later; it panics exactly when that date is outside 0000..9999 *)
Theorem C15_plus_days_spec : forall c n, valid c ->
  (forall r, plus_days c n = Ok r <-> (valid r /\ days_of r = days_of c + n)) /\
  (plus_days c n = Crash CUnrepresentableDate <-> ~ exists r, valid r /\ days_of r = days_of c + n) /\
  (forall e, plus_days c n <> Err e).
Proof. exact plus_days_full_spec. Qed.
Print Assumptions C15_plus_days_spec.

(* ------------------------------------------------------------------ 2. weekday, ISO week, quarter *)

(* Monday = 1 .. Sunday = 7; 1970-01-01 is a Thursday; each day the weekday advances by one *)
Theorem C15_weekday_spec :
  (forall c, 1 <= weekday c <= 7) /\
  weekday (mk 1970 1 1) = 4 /\
  (forall c, valid c -> c <> mk 9999 12 31 -> weekday (next_day c) = weekday c mod 7 + 1).
Proof. exact weekday_spec. Qed.
Print Assumptions C15_weekday_spec.

(* ISO 8601 weeks: the seven days Monday..Sunday of a week, and only they, share (year, week);
   week 1 is the week with January 4th; seven days later is the next week number of the same year, or week 1 of
   the next year after the last week (52 or 53); the ISO year differs from the date's year by at most one *)
Theorem C15_iso_week_spec :
  (forall a b, valid a -> valid b -> (iso_week a = iso_week b <-> monday_of a = monday_of b)) /\
  (forall c, valid c -> monday_of c <= days_of c <= monday_of c + 6 /\ weekday c = days_of c - monday_of c + 1) /\
  (forall y, iso_week (mk y 1 4) = (y, 1)) /\
  (forall a b, valid a -> valid b -> days_of b = days_of a + 7 ->
     let y := fst (iso_week a) in let w := snd (iso_week a) in
     1 <= w <= weeks_in_year y /\ 52 <= weeks_in_year y <= 53 /\
     ((w < weeks_in_year y /\ iso_week b = (y, w + 1)) \/ (w = weeks_in_year y /\ iso_week b = (y + 1, 1)))) /\
  (forall c, valid c -> c_year c - 1 <= fst (iso_week c) <= c_year c + 1).
Proof. exact iso_week_spec. Qed.
Print Assumptions C15_iso_week_spec.

(* a year has 53 ISO weeks exactly when it starts on a Thursday, or on a Wednesday and is a leap year *)
Theorem C15_weeks_in_year : forall y,
  weeks_in_year y = if (weekday (mk y 1 1) =? 4) || ((weekday (mk y 1 1) =? 3) && is_leap y) then 53 else 52.
Proof. exact weeks_in_year_rule. Qed.
Print Assumptions C15_weeks_in_year.

(* the quarter of month m is the q in 1..4 with 3q-2 <= m <= 3q *)
Theorem C15_quarter_spec : forall c, valid c ->
  1 <= quarter c <= 4 /\ 3 * quarter c - 2 <= c_month c <= 3 * quarter c.
Proof. exact quarter_valid_spec. Qed.
Print Assumptions C15_quarter_spec.

(* ------------------------------------------------------------------ 3. periods tile the calendar *)

(* For every date whose period is representable: Period() returns (s, u) with s <= c <= u, s and u the first and
   last day of that week / month / quarter / year ([first_last_ok]), and every date from s to u has the same period. *)
Theorem C15_period_tiles : forall k c, valid c -> ~ period_edge k c ->
  exists s u, period_of k c = Ok (s, u) /\ valid s /\ valid u /\ days_of s <= days_of c <= days_of u
    /\ first_last_ok k s u
    /\ (forall c', valid c' -> days_of s <= days_of c' <= days_of u -> period_of k c' = Ok (s, u)).
Proof. exact period_tiles. Qed.
Print Assumptions C15_period_tiles.

(* the excluded dates are exactly those where the Go code panics: the weeks of 0000-01-01/02 and 9999-12-27..31 (K4) *)
Theorem C15_period_edge_crash : forall k c, valid c -> period_edge k c -> period_of k c = Crash CUnrepresentableDate.
Proof. exact period_edge_crash. Qed.
Print Assumptions C15_period_edge_crash.

(* the unguarded statement "every valid date has a week period" is false of the code *)
Theorem C15_period_total_refuted :
  exists c, valid c /\ period_of KWeek c = Crash CUnrepresentableDate.
Proof. exists (mk 0 1 1). split; [reflexivity | vm_compute; reflexivity]. Qed.
Print Assumptions C15_period_total_refuted.

(* the previous period is a period of the same kind, lies before c, and ends the day before c's period begins *)
Theorem C15_previous_period : forall k c, valid c -> ~ previous_edge k c ->
  exists s' u', previous_period k c = Ok (s', u') /\ valid s' /\ valid u' /\ days_of s' <= days_of u' < days_of c
    /\ first_last_ok k s' u'
    /\ period_of k u' = Ok (s', u')
    /\ (forall s u, period_of k c = Ok (s, u) -> next_day u' = s /\ days_of u' + 1 = days_of s).
Proof. exact previous_period_adjacent. Qed.
Print Assumptions C15_previous_period.

(* where no previous period exists inside 0000..9999 (first week, 0000-01, 0000-Q1, year 0000) Previous() panics (K4) *)
Theorem C15_previous_edge_crash : forall k c, valid c -> previous_edge k c -> is_crash (previous_period k c) = true.
Proof. exact previous_edge_crash. Qed.
Print Assumptions C15_previous_edge_crash.

Theorem C15_previous_total_refuted :
  exists c, valid c /\ previous_period KYear c = Crash CExplicitPanic /\ previous_period KMonth c = Crash CUnrepresentableDate.
Proof. exists (mk 0 1 31). split; [reflexivity | split; vm_compute; reflexivity]. Qed.
Print Assumptions C15_previous_total_refuted.

(* report buckets: Hash() never panics and two dates get the same hash exactly when they lie in the same period —
   for ALL valid dates, the two boundary weeks included (ISO year -1 wraps to 2^32-128 and stays distinct) *)
Theorem C15_hash_eq_iff_same_period : forall k a b, valid a -> valid b ->
  exists ha hb, hash_of k a = Ok ha /\ hash_of k b = Ok hb /\ (ha = hb <-> same_period k a b).
Proof. exact hash_eq_iff_same_period. Qed.
Print Assumptions C15_hash_eq_iff_same_period.

Theorem C15_day_hash_eq_iff : forall a b, valid a -> valid b ->
  exists ha hb, day_hash a = Ok ha /\ day_hash b = Ok hb /\ (ha = hb <-> a = b).
Proof. exact day_hash_eq_iff. Qed.
Print Assumptions C15_day_hash_eq_iff.

(* [same_period] is "Period() returns the same period" wherever Period() is defined *)
Theorem C15_same_period_iff_period_eq : forall k a b, valid a -> valid b -> ~ period_edge k a -> ~ period_edge k b ->
  (same_period k a b <-> period_of k a = period_of k b).
Proof. exact same_period_iff_period_eq. Qed.
Print Assumptions C15_same_period_iff_period_eq.

(* ------------------------------------------------------------------ 4. period patterns *)

(* a string is accepted exactly when it is YYYY, YYYY-MM, YYYY-Qq or YYYY-Ww[w] and names an existing, representable
   period ([names_period]: month 1..12, quarter 1..4, an ISO week that some date has), and then with exactly its bounds *)
Theorem C15_pattern_spec : forall s since until,
  period_from_pattern s = Ok (since, until) <-> names_period s since until.
Proof. exact pattern_spec. Qed.
Print Assumptions C15_pattern_spec.

(* everything else is rejected with an error *)
Theorem C15_pattern_reject : forall s,
  (forall since until, ~ names_period s since until) -> period_from_pattern s = Err EInvalidPeriod.
Proof. exact pattern_reject. Qed.
Print Assumptions C15_pattern_reject.

(* parsing a pattern is total: NewPeriodFromPatternString never panics, whatever the string
   (true since the fix 9e99f6b of finding F8; before it 9999-W52 .. 9999-W99 panicked) *)
Theorem C15_pattern_total : forall s k, period_from_pattern s <> Crash k.
Proof. exact pattern_total. Qed.
Print Assumptions C15_pattern_total.

(* in particular the week patterns of year 9999 from W52 on — W52 would end on 10000-01-02, W53.. do not exist —
   are rejected *)
Theorem C15_pattern_9999_rejected : forall s w, week_str s 9999 w -> 52 <= w ->
  period_from_pattern s = Err EInvalidPeriod.
Proof. exact pattern_9999_rejected. Qed.
Print Assumptions C15_pattern_9999_rejected.

(* ------------------------------------------------------------------ non-vacuity and the cases named in the property *)

Example C15_nonvacuous_dates :
  valid (mk 2024 2 29) /\ ~ period_edge KWeek (mk 2024 2 29) /\ ~ previous_edge KWeek (mk 2024 2 29) /\
  period_of KWeek (mk 2024 2 29) = Ok (mk 2024 2 26, mk 2024 3 3) /\
  previous_period KMonth (mk 2024 3 31) = Ok (mk 2024 2 1, mk 2024 2 29) /\
  iso_week (mk 2021 1 3) = (2020, 53) /\ iso_week (mk 0 1 1) = (-1, 52) /\
  hash_of KWeek (mk 0 1 1) = Ok 4294967220.
Proof.
  split; [reflexivity|]. split; [unfold period_edge, week_edge, mk; cbn; lia|].
  split; [unfold previous_edge, mk; cbn; lia|]. repeat (match goal with |- _ /\ _ => split end); vm_compute; reflexivity.
Qed.

Example C15_nonvacuous_patterns :
  names_period b!"2020-W53" (mk 2020 12 28) (mk 2021 1 3) /\
  period_from_pattern b!"2020-W53" = Ok (mk 2020 12 28, mk 2021 1 3) /\
  period_from_pattern b!"2020-02" = Ok (mk 2020 2 1, mk 2020 2 29) /\
  period_from_pattern b!"0000-W1" = Ok (mk 0 1 3, mk 0 1 9) /\
  period_from_pattern b!"9999-W51" = Ok (mk 9999 12 20, mk 9999 12 26).
Proof.
  split; [apply pattern_spec; vm_compute; reflexivity|]. repeat (match goal with |- _ /\ _ => split end); vm_compute; reflexivity.
Qed.

(* month 00 / 13, quarter 0 / 5, week 00, week 53 of a 52-week year, week 54: rejected, not rolled over *)
Example C15_nonexistent_periods_rejected :
  period_from_pattern b!"2021-00" = Err EInvalidPeriod /\ period_from_pattern b!"2021-13" = Err EInvalidPeriod /\
  period_from_pattern b!"2021-Q0" = Err EInvalidPeriod /\ period_from_pattern b!"2021-Q5" = Err EInvalidPeriod /\
  period_from_pattern b!"2021-W00" = Err EInvalidPeriod /\ period_from_pattern b!"2021-W0" = Err EInvalidPeriod /\
  period_from_pattern b!"2021-W53" = Err EInvalidPeriod /\ period_from_pattern b!"2020-W54" = Err EInvalidPeriod /\
  period_from_pattern b!"9999-W52" = Err EInvalidPeriod /\ period_from_pattern b!"9999-W53" = Err EInvalidPeriod /\
  period_from_pattern b!"9999-W99" = Err EInvalidPeriod /\
  (forall since until, ~ names_period b!"2021-W53" since until).
Proof.
  assert (N : forall since until, ~ names_period b!"2021-W53" since until).
  { intros since until H. apply pattern_spec in H. vm_compute in H. discriminate. }
  repeat (match goal with |- _ /\ _ => split end); try exact N; vm_compute; reflexivity.
Qed.
