(* C04 — mutating commands have exactly their intended effect over any command history.
   Property theorems only; each is closed by [exact <lemma>] and followed by Print Assumptions.
   Model: Model/Commands.v ([exec], [exec_simple]) over Model/Reconcile.v and Model/Parser.v.

   THE ABSTRACT MODEL works on parsed records (Proofs/CommandsRefine.v, CommandsStop.v, CommandsPause.v, CommandsHistory.v):
     add_entry e r            the record r with the entry e added at its end
     insert_record r rs       rs with r put where klog puts a new record: before the first record when it is dated
                              earlier, otherwise after the record [new_record_position] selects (the last record not
                              dated later, for a file in date order)
     a_add_entry / a_track    add the entry to the FIRST record dated d; without one, insert a new record holding it,
                              with the configured should-total and the date written with the separator most records use;
                              a second open range in a record is rejected
     a_start                  resolve the summary (--summary / --resume / --resume-nth: [resolve_summary], a function of
                              the records), refuse a second open range, add the open range - written in the clock
                              convention, dash spacing and placeholder length the target record / the file uses
     a_stop                   the first record dated d - or, when there is none and neither date nor time was selected,
                              the first record of the day before with the time 24h later - gets its open range closed
                              (a_close_in): a range from the open range's start to the given time, keeping the dash
                              spacing, rejected when it would end before it starts; summary text is appended: the first
                              line joins the entry's last line, the others follow (append_summary)
     a_switch                 a_close_in, then an open range starting at the same time, in the same record
     a_pause                  today's record, else yesterday's: a pause entry `-0m` with the given summary and the open
                              range's tags (or, with --extend, nothing yet); then per clock reading the last non-positive
                              duration entry of that record is decreased by the newly completed whole minutes
     a_exec / a_exec_history  the above behind one command type [scommand]; a history threads the records through
   Dates, times and roundings are resolved by [at_date] / [at_time], whose meaning is C17.

   THE FILES quantified over are the specification-conforming ones: [spec_state file recs] says that the lines of
   [file] are the lines of the specification records [recs] (Spec/Spec.v: any blank lines before / between / after the
   records, any of the four indentations per record, LF or CRLF per line, last line with or without newline), and that
   an unterminated last line does not end in a carriage return. Every rendered well-formed specification document is
   one (C04_spec_files_exist); by C01 these are the files the parser is specified to accept. Every theorem returns such
   a file again, which is what makes the statements chain (C04_history_refines).

   THE ARGUMENTS are specification objects too ([scommand], [step_pre]): the entry given to `track` is a specification
   entry; summary lines are specification summary lines; none ends in a carriage return (inserted before a bare LF it
   would be read back as part of a CRLF ending: finding K2); valid dates and times; should-totals within int64.
   Three requirements concern the file: no open-range line ends in a blank directly after the placeholder (such a
   line reads back like one without the blank, but text appended by `stop` would then start with it - no model on the
   parsed data can tell the two apart); the summaries `--resume` may pick up are free of trailing carriage returns
   ([summaries_ok]); the open range's tags as `pause` prints them are well-formed text ([tags_ok]).

   PARTIAL in this sense: proved is `the model accepts -> the command succeeds and re-reading the file yields exactly
   the model's records' for all six commands and for histories (C04_exec_refines_partial, C04_history_refines_partial),
   and `the model rejects -> the command fails with the same error and the file is unchanged' for start, stop and
   switch (C04_exec_rejects_partial: second open range, nothing to stop, end before start, no record, unknown entry to
   resume, impossible time). Not proved: the rejecting direction for track (a second open range is caught by the
   safeguard re-parse, which needs the rejection half of C01 at line level) and pause; and the extension from
   specification-conforming files to all files the parser accepts (again the rejection half of C01). *)
From Klog Require Import Base.Prelude Base.Utf8 Model.Calendar Model.Values Model.Record Model.Lines Model.Parser
  Model.Reconcile Model.Commands Proofs.Values Spec.Spec Proofs.SpecEntry Proofs.SpecRecord Proofs.SpecDoc
  Proofs.Reconcile Proofs.Commands Proofs.Rounding Proofs.CommandsSpec Proofs.CommandsRefine Proofs.CommandsStop
  Proofs.CommandsPause Proofs.CommandsHistory Proofs.CommandsReject.
Open Scope Z_scope.

(* the files: every rendered well-formed specification document whose last line is terminated or does not end in CR *)
Theorem C04_spec_files_exist : forall d, wf d -> last_line_safe (doc_lines d) -> spec_state (render d) (do_records d).
Proof.
  intros d W Hs. destruct (conforms_doc d W) as (lead & gs & C). exact (spec_state_of_conforms _ _ _ _ C Hs).
Qed.
Print Assumptions C04_spec_files_exist.

(* what such a file parses to *)
Theorem C04_spec_state_parse : forall file recs, spec_state file recs ->
  exists bs, parse_text file = Ok (Parsed (denote_recs recs) bs).
Proof. intros file recs (lead & gs & C & _). eexists. exact (spec_file_parse _ _ _ _ C). Qed.
Print Assumptions C04_spec_state_parse.

(* ---------- the property, one command: whenever the model accepts, the command succeeds, the file it writes is again
   a conforming one, and re-reading it yields exactly the model's records ---------- *)
Theorem C04_exec_refines_partial : forall now cfg sc file recs rs',
  spec_state file recs -> step_pre now cfg sc recs ->
  a_exec now cfg sc (denote_recs recs) = COk rs' ->
  exists file' recs',
    exec now cfg (to_command sc) file = (file', COk tt) /\
    spec_state file' recs' /\ denote_recs recs' = rs' /\
    exists bs', parse_text file' = Ok (Parsed (denote_recs recs') bs').
Proof. exact exec_refines. Qed.
Print Assumptions C04_exec_refines_partial.

(* ---------- the property, any history: the file produced by one command is the input of the next ---------- *)
Theorem C04_history_refines_partial : forall cfg h file recs rs',
  spec_state file recs -> history_pre cfg h file ->
  a_exec_history cfg h (denote_recs recs) = COk rs' ->
  exists recs', spec_state (exec_history cfg h file) recs' /\ denote_recs recs' = rs' /\
    exists bs', parse_text (exec_history cfg h file) = Ok (Parsed rs' bs').
Proof. exact history_refines. Qed.
Print Assumptions C04_history_refines_partial.

(* ---------- a command the model rejects fails, with the model's error, and changes nothing (start, stop, switch) ---------- *)
Theorem C04_exec_rejects_partial : forall now cfg sc file recs e, rejecting sc = true ->
  spec_state file recs -> step_pre now cfg sc recs ->
  a_exec now cfg sc (denote_recs recs) = CErr e ->
  exec now cfg (to_command sc) file = (file, CErr e).
Proof. exact exec_rejects. Qed.
Print Assumptions C04_exec_rejects_partial.

(* ---------- the commands one by one ---------- *)

Theorem C04_create_refines : forall now cfg ds should srunes file recs d,
  spec_state file recs -> at_date now ds = Ok d -> valid_cdate (dt d) = true ->
  let should' := match should with Some m => Some m | None => cfg_should cfg end in
  should_fits should' -> forallb summary_line_ok srunes = true -> no_cr_lines (map utf8_encode srunes) ->
  exists file' recs',
    exec_simple now cfg (Create ds should (map utf8_encode srunes)) file = COk file' /\
    spec_state file' recs' /\
    denote_recs recs' =
      insert_record {| rec_date := a_new_date d (date_format cfg ds) (denote_recs recs); rec_should := should';
                       rec_summary := map utf8_encode srunes; rec_entries := [] |} (denote_recs recs) /\
    exists bs', parse_text file' = Ok (Parsed (denote_recs recs') bs').
Proof. exact create_refines. Qed.
Print Assumptions C04_create_refines.

Theorem C04_track_refines : forall now cfg ds file recs d se,
  spec_state file recs -> at_date now ds = Ok d -> valid_cdate (dt d) = true -> should_fits (cfg_should cfg) ->
  wf_entry se = true -> no_cr_lines (entry_arg se) ->
  a_add_entry_ok d (denote_entry se) (denote_recs recs) ->
  exists file' recs',
    exec_simple now cfg (Track ds (entry_arg se)) file = COk file' /\
    spec_state file' recs' /\
    denote_recs recs' = a_add_entry cfg d (date_format cfg ds) (denote_entry se) (denote_recs recs) /\
    exists bs', parse_text file' = Ok (Parsed (denote_recs recs') bs').
Proof. exact track_refines. Qed.
Print Assumptions C04_track_refines.

Theorem C04_start_refines : forall now cfg a s file recs d t rs',
  spec_state file recs -> at_date now (a_date a) = Ok d -> at_time now cfg a = COk t -> valid_time t ->
  valid_cdate (dt d) = true -> should_fits (cfg_should cfg) ->
  summaries_ok s (denote_recs recs) ->
  a_start cfg d (date_format cfg (a_date a)) t (time_format cfg a) s (denote_recs recs) = COk rs' ->
  exists file' recs',
    exec_simple now cfg (Start a s) file = COk file' /\
    spec_state file' recs' /\ denote_recs recs' = rs' /\
    exists bs', parse_text file' = Ok (Parsed (denote_recs recs') bs').
Proof. exact start_refines. Qed.
Print Assumptions C04_start_refines.

Theorem C04_stop_refines : forall now cfg a summary add_r file recs d t y rs',
  spec_state file recs -> at_date now (a_date a) = Ok d -> at_time now cfg a = COk t -> valid_time t ->
  plus_days (dt d) (-1) = Ok y -> valid_cdate (dt d) = true ->
  match summary with Some s => s | None => [] end = map utf8_encode add_r -> add_ok add_r ->
  (forall rg, In rg recs -> open_entry_ok (fst rg)) ->
  a_stop (was_automatic a) d y t (time_format cfg a) (map utf8_encode add_r) (denote_recs recs) = COk rs' ->
  exists file' recs',
    exec_simple now cfg (Stop a summary) file = COk file' /\
    spec_state file' recs' /\ denote_recs recs' = rs' /\
    exists bs', parse_text file' = Ok (Parsed (denote_recs recs') bs').
Proof. exact stop_refines. Qed.
Print Assumptions C04_stop_refines.

Theorem C04_switch_refines : forall now cfg a s file recs d t rs',
  spec_state file recs -> at_date now (a_date a) = Ok d -> at_time now cfg a = COk t -> valid_time t ->
  (forall rg, In rg recs -> open_entry_ok (fst rg)) ->
  (forall current summary, resolve_summary s current None = COk summary -> summary_ok summary) ->
  a_switch d t (time_format cfg a) s (denote_recs recs) = COk rs' ->
  exists file' recs',
    exec_simple now cfg (Switch a s) file = COk file' /\
    spec_state file' recs' /\ denote_recs recs' = rs' /\
    exists bs', parse_text file' = Ok (Parsed (denote_recs recs') bs').
Proof. exact switch_refines. Qed.
Print Assumptions C04_switch_refines.

(* pause, with all its clock readings: the entry after the ticks holds minus the whole minutes completed (the
   accumulation is [a_pause_loop]: an increment is written only when floor(t/60) exceeds what was captured so far, so a
   clock that jumps backwards writes nothing) *)
Theorem C04_pause_refines : forall now cfg summary sr no_tags extend ticks file recs y rs',
  spec_state file recs -> plus_days (now_date now) (-1) = Ok y ->
  match summary with Some s => s | None => [] end = map utf8_encode sr ->
  match sr with [] => True | s0r :: mr => text_ok s0r = true /\ forallb (fun t => text_ok t && negb (all_blank t)) mr = true end ->
  no_cr_lines (map utf8_encode sr) -> tags_ok recs ->
  a_pause (now_date now) y summary no_tags extend ticks (denote_recs recs) = COk rs' ->
  exists file' recs',
    exec now cfg (Pause summary no_tags extend ticks) file = (file', COk tt) /\
    spec_state file' recs' /\ denote_recs recs' = rs' /\
    exists bs', parse_text file' = Ok (Parsed (denote_recs recs') bs').
Proof. exact pause_refines. Qed.
Print Assumptions C04_pause_refines.

(* a record inserted by the model sits where [insert_record] says, and changing it there is changing the insertion *)
Theorem C04_insert_record_place : forall x rs, nth_error (insert_record x rs) (insert_index (dt (rec_date x)) rs) = Some x.
Proof. exact insert_record_nth. Qed.
Print Assumptions C04_insert_record_place.

(* a new record is placed chronologically: a file in date order stays in date order *)
Theorem C04_create_keeps_sorted : forall x rs, Proofs.Calendar.wf_date (dt (rec_date x)) -> dates_wf rs -> date_sorted rs ->
  date_sorted (insert_record x rs).
Proof. exact insert_record_sorted. Qed.
Print Assumptions C04_create_keeps_sorted.

(* [summaries_ok] follows from: the --summary text is conforming, and no summary line of the file ends in a carriage return *)
Theorem C04_summaries_ok_of : forall s recs,
  forallb (fun rg => wf_record (fst rg)) recs = true ->
  match s_text s with Some text => summary_ok text | None => True end ->
  (forall rg se, In rg recs -> In se (sr_entries (fst rg)) -> no_cr_lines (e_summary (denote_entry se))) ->
  summaries_ok s (denote_recs recs).
Proof. exact summaries_ok_of. Qed.
Print Assumptions C04_summaries_ok_of.

(* ---------- the two guards on the file are needed ---------- *)

(* without [last_line_safe]: `track` on a valid file whose unterminated last line ends in a carriage return changes
   the summary of an EXISTING entry (the CR and the added LF read back as a CRLF ending) - the unguarded property
   "changes no other record, entry, summary" is false of the code *)
Theorem C04_unterminated_cr_refuted :
  exists file', exec_simple w_now w_cfg (Track DDefault [b!"2h"]) w_file_cr = COk file' /\
    option_map (map (fun r => map e_summary (rec_entries r))) (records_of (parse_text w_file_cr)) = Some [[[b!"foo" ++ [13%N]]]] /\
    option_map (map (fun r => map e_summary (rec_entries r))) (records_of (parse_text file')) = Some [[[b!"foo"]; [[]]]].
Proof. exact last_line_cr_witness. Qed.
Print Assumptions C04_unterminated_cr_refuted.

(* without [open_entry_ok]: two files with the SAME records on which the same `stop --summary x` yields DIFFERENT
   records - a model on parsed records cannot be exact there *)
Theorem C04_same_records_different_effect_refuted :
  records_of (parse_text w_file_blank) = records_of (parse_text w_file_noblank) /\
  records_of (parse_text w_file_blank) <> None /\
  exists f1 f2, exec_simple w_now w_cfg (Stop w_args (Some [b!"x"])) w_file_blank = COk f1 /\
                exec_simple w_now w_cfg (Stop w_args (Some [b!"x"])) w_file_noblank = COk f2 /\
                option_map (map (fun r => map e_summary (rec_entries r))) (records_of (parse_text f1)) = Some [[[b!" x"]]] /\
                option_map (map (fun r => map e_summary (rec_entries r))) (records_of (parse_text f2)) = Some [[[b!"x"]]].
Proof. exact trailing_blank_witness. Qed.
Print Assumptions C04_same_records_different_effect_refuted.

(* ---------- non-vacuity: a file, a history with all kinds of effects, the model's prediction, and the real run ---------- *)
Definition ex_t (h m : Z) : s_time := {| st_shift := 0; st_hh := h; st_pad := false; st_mm := m; st_clock := C24 |}.
Definition ex_doc : s_doc :=
  {| do_lead := [];
     do_records :=
       [ ({| sr_date := {| sd_year := 2020; sd_month := 1; sd_day := 1; sd_dash := true |};
             sr_should := None; sr_trail := []; sr_summary := []; sr_indent := I2;
             sr_entries := [ {| se_value := SDur {| du_sign := SNone; du_h := Some b!"1"; du_m := None |}; se_first := Some b!"read"; se_more := [] |};
                             {| se_value := SOpen (ex_t 8 0) 1 1 0; se_first := Some b!"work #klog"; se_more := [] |} ] |}, []) ];
     do_crlf := fun _ => false;
     do_final_newline := true |}.

Definition ex_cfg : config := {| cfg_round := None; cfg_should := Some 480; cfg_dashes := None; cfg_24h := None |}.
Definition ex_clock (day h m : Z) : Commands.clock := {| now_date := {| c_year := 2020; c_month := 1; c_day := day |}; now_h := h; now_m := m |}.
Definition ex_args : at_args := {| a_date := DDefault; a_time := None; a_round := None |}.

Definition ex_history : history :=
  [ (ex_clock 1 9 30, SPause None false false [30; 70; 10; 130]);                     (* a pause of 2 whole minutes, with a backwards jump *)
    (ex_clock 1 12 0, SStop ex_args (Some [b!"done"; b!"more"]));                     (* closed at 12:00, two summary lines added *)
    (ex_clock 2 8 15, SStart ex_args {| s_text := None; s_resume := true; s_nth := 0 |});   (* a new record, the summary resumed *)
    (ex_clock 2 9 0, STrack (DExplicit {| dt := {| c_year := 2019; c_month := 12; c_day := 31 |}; dt_dashes := false |})
                            {| se_value := SDur {| du_sign := SNone; du_h := None; du_m := Some b!"45" |}; se_first := None; se_more := [] |}) ].

Example ex_file_is_conforming : spec_state (render ex_doc) (do_records ex_doc).
Proof.
  apply C04_spec_files_exist; [vm_compute; reflexivity|].
  apply last_line_safe_terminated. intros pre l E. vm_compute in E.
  repeat (destruct pre as [|? pre]; [injection E as <-; discriminate|injection E as _ E]). destruct pre; discriminate E.
Qed.

Example ex_file : render ex_doc = b!"2020-01-01
  1h read
  8:00 - ? work #klog
".
Proof. vm_compute. reflexivity. Qed.

(* the model accepts the history ... *)
Example ex_model_accepts : exists rs', a_exec_history ex_cfg ex_history (denote_recs (do_records ex_doc)) = COk rs' /\ length rs' = 3%nat.
Proof. eexists. split; [vm_compute; reflexivity|reflexivity]. Qed.

(* ... and this is what the real commands make of the file *)
Example ex_run : exec_history ex_cfg ex_history (render ex_doc) = b!"2019/12/31 (8h!)
  45m

2020-01-01
  1h read
  8:00 - 12:00 work #klog done
    more
  -2m #klog

2020-01-02 (8h!)
  8:15 - ? #klog
".
Proof. vm_cast_no_check (@eq_refl bytes (exec_history ex_cfg ex_history (render ex_doc))). Qed.

(* the hypotheses of the one-step theorem are satisfiable: `stop -s ...` on the example file *)
Example ex_step_pre : step_pre (ex_clock 1 12 0) ex_cfg (SStop ex_args (Some [b!"done"; b!"more"])) (do_records ex_doc)
  /\ exists rs', a_exec (ex_clock 1 12 0) ex_cfg (SStop ex_args (Some [b!"done"; b!"more"])) (denote_recs (do_records ex_doc)) = COk rs'.
Proof.
  split; [|eexists; vm_compute; reflexivity].
  cbn [step_pre]. split; [|split; [|split]].
  - intros d H. vm_compute in H. injection H as <-. reflexivity.
  - intros t H. vm_compute in H. injection H as <-. unfold valid_time. cbn. lia.
  - split; [split; reflexivity|reflexivity].
  - intros rg [<-|[]] se Hin Ho. cbn in Hin. destruct Hin as [<-|[<-|[]]]; [discriminate Ho|]. intros E. discriminate E.
Qed.

(* ... and those of the history theorem: a history of track and create (whose requirements do not depend on the file) *)
Definition ex_history2 : history :=
  [ (ex_clock 2 9 0, STrack DDefault {| se_value := SDur {| du_sign := SNone; du_h := None; du_m := Some b!"45" |}; se_first := Some b!"walk"; se_more := [b!"in the park"] |});
    (ex_clock 2 9 5, SCreate DTomorrow (Some 0) [b!"Public holiday"]);
    (ex_clock 2 9 9, STrack DYesterday {| se_value := SRange (ex_t 13 0) 0 0 (ex_t 14 30); se_first := None; se_more := [] |}) ].

Example ex_history2_pre : history_pre ex_cfg ex_history2 (render ex_doc).
Proof.
  assert (Hsh : should_fits (cfg_should ex_cfg)) by (unfold should_fits, ex_cfg, max_int64; cbn [cfg_should]; lia).
  unfold ex_history2. cbn [history_pre]. split; [|split; [|split; [|exact I]]]; intros recs _; cbn [step_pre].
  - split; [intros d H; vm_compute in H; injection H as <-; reflexivity|]. split; [exact Hsh|]. split; reflexivity.
  - split; [intros d H; vm_compute in H; injection H as <-; reflexivity|]. split; [unfold should_fits, max_int64; lia|]. split; reflexivity.
  - split; [intros d H; vm_compute in H; injection H as <-; reflexivity|]. split; [exact Hsh|]. split; reflexivity.
Qed.

Example ex_history2_model : exists rs', a_exec_history ex_cfg ex_history2 (denote_recs (do_records ex_doc)) = COk rs' /\ length rs' = 3%nat.
Proof. eexists. split; [vm_compute; reflexivity|reflexivity]. Qed.

(* a rejection: `start` on the example file, whose record has an open range *)
Example ex_start_rejected :
  a_exec (ex_clock 1 9 0) ex_cfg (SStart ex_args {| s_text := None; s_resume := false; s_nth := 0 |}) (denote_recs (do_records ex_doc)) = CErr CEManipulation
  /\ exec (ex_clock 1 9 0) ex_cfg (Start ex_args {| s_text := None; s_resume := false; s_nth := 0 |}) (render ex_doc) = (render ex_doc, CErr CEManipulation).
Proof. split; [vm_compute; reflexivity|]. vm_cast_no_check (@eq_refl (bytes * cresult unit) (render ex_doc, CErr CEManipulation)). Qed.
