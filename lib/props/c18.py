"""C18 — colour and styling never change what is printed.

Suites (requests are documented in coq/Model/SuiteStyler.v and harness/suite_styler.go):
  format  style-format   Styler.Format / FormatAndRestore under every scheme and every combination of props
  strip   style-strip    StripAllAnsiSequences + rune count (exhaustive over short strings of the critical alphabet)
  doc     style-doc      nested Format/FormatAndRestore document trees, styled and unstyled rendering
  table   table-render   NewTable/CellL/CellR/Skip/Fill/Collect
  cli     style-cli      END TO END, oracle only: whole klog command lines on generated valid files under every
                         way of choosing the colour scheme

The oracles are written from the property text: an SGR sequence is ESC [ <digits and ;>* m (parameters are
optional, "ESC[m" is a reset); "visible characters" = runes left after removing them. (klog's own pattern missed
ESC[m until 332f4bb: fixed finding K18, its input stays in corpus/C18/.)
"""
import sys, os, re, itertools
sys.path.insert(0, os.path.dirname(os.path.dirname(os.path.abspath(__file__))))
from common import hx, unhx
from check import Suite

ESC = b"\x1b"
SGR = re.compile(rb"\x1b\[[0-9;]*m")      # the property's notion of an SGR sequence: parameters optional
SCHEMES = ["dark", "light", "basic", "no_colour"]


def sgr_strip(b):
    return SGR.sub(b"", b)


def go_rune_count(b):
    """utf8.RuneCountInString: every byte that does not start a valid encoding counts as one rune"""
    i, n, L = 0, 0, len(b)
    while i < L:
        c = b[i]
        w = 1
        if 0xC2 <= c <= 0xDF:
            if i + 1 < L and 0x80 <= b[i + 1] <= 0xBF: w = 2
        elif 0xE0 <= c <= 0xEF:
            lo, hi = (0xA0 if c == 0xE0 else 0x80), (0x9F if c == 0xED else 0xBF)
            if i + 2 < L and lo <= b[i + 1] <= hi and 0x80 <= b[i + 2] <= 0xBF: w = 3
        elif 0xF0 <= c <= 0xF4:
            lo, hi = (0x90 if c == 0xF0 else 0x80), (0x8F if c == 0xF4 else 0xBF)
            if i + 3 < L and lo <= b[i + 1] <= hi and 0x80 <= b[i + 2] <= 0xBF and 0x80 <= b[i + 3] <= 0xBF: w = 4
        i += w; n += 1
    return n


def vis(b, pattern=SGR):
    return go_rune_count(pattern.sub(b"", b))


def valid_utf8(b):
    try:
        b.decode("utf-8"); return True
    except UnicodeDecodeError:
        return False


DANGLING = re.compile(rb"\x1b(\[[0-9;]*)?\Z")


def tidy(b):
    """does not end inside an incomplete sequence; visible text is complete UTF-8"""
    return not DANGLING.search(b) and valid_utf8(sgr_strip(b))


# ------------------------------------------------------------------ texts

UNICODE_WORDS = ["café", "naïve", "読む", "日本語", "Ünï", "ελληνικά", "привет", "שלום", "🎉", "é", "ﬁ", "İi", "x​y"]
ESC_FRAGMENTS = [b"\x1b", b"\x1b[", b"\x1b[3", b"\x1b[38;5;", b"1m", b"m", b"0m", b";1m", b"[0m", b"\x1b[31mred\x1b[0m",
                 b"\x1b[m", b"\x1b[;m", b"\x1b[1;31m", b"\x1b[2J", b"\x1b]0;t\x07", b"\x1b\x1b[0m", b"\x1b[\x1b[0m3m"]
TEXTS = [b"", b"hello", b" ", "héllo wörld".encode(), "読む 日本語 🎉".encode(), b"a\tb", b"\xff\xfe", b"\xc3", b"\xe2\x82",
         b"100%", b"#tag=1m"] + ESC_FRAGMENTS


def all_props():
    for c in range(0, 11):
        for b in range(0, 11):
            for bo in (0, 1):
                for u in (0, 1):
                    yield "%d,%d,%d,%d" % (c, b, bo, u)


def rnd_props(rng):
    return "%d,%d,%d,%d" % (rng.randrange(11), rng.choice([0, 0, 0, rng.randrange(11)]), rng.randrange(2), rng.randrange(2))


def rnd_text(rng, esc=0.3):
    parts = []
    for _ in range(rng.randrange(0, 4)):
        r = rng.random()
        if r < esc:
            parts.append(rng.choice(ESC_FRAGMENTS))
        elif r < esc + 0.3:
            parts.append(rng.choice(UNICODE_WORDS).encode())
        else:
            parts.append(rng.choice([b"a", b"work", b"x y", b"#tag", b"42", b"-", b";", b"[", b"m"]))
    return b"".join(parts)


# ------------------------------------------------------------------ format

def gen_format(tier, rng):
    out = []
    props = list(all_props())
    for sch in SCHEMES:
        for p in props:
            ts = TEXTS if tier != "quick" else [rng.choice(TEXTS), rng.choice(TEXTS)]
            for t in ts:
                out.append("style-format %s %s %s %s" % (sch, p, rnd_props(rng), hx(t)))
    for t in TEXTS:
        for sch in SCHEMES + ["", "DARK", "colour", "no-colour"]:
            out.append("style-format %s %s %s %s" % (sch or "-", rnd_props(rng), rnd_props(rng), hx(t)))
    n = 2000 if tier == "quick" else 100000
    for _ in range(n):
        out.append("style-format %s %s %s %s" % (rng.choice(SCHEMES), rnd_props(rng), rnd_props(rng), hx(rnd_text(rng))))
    return out


def oracle_format(req, out):
    _, sch, p, p2, t = req.split(" ")
    text = unhx(t)
    if sch not in SCHEMES:
        return None if out == "crash" else "NewStyler accepted the unknown colour theme %r" % sch
    f = out.split(" ")
    if len(f) != 3 or f[0] != "ok":
        return "Format failed: %s" % out
    fm, fr = unhx(f[1]), unhx(f[2])
    # a single styled text has nothing before or after it: removing the sequences must give back the text
    for name, o in (("Format", fm), ("FormatAndRestore", fr)):
        if sgr_strip(o) != sgr_strip(text):
            return "%s under %s changes the text: %r -> %r" % (name, sch, text, o)
        if sch == "no_colour" and o != text:
            return "%s under no_colour is not the identity" % name
    return None


# ------------------------------------------------------------------ strip

ALPHA = [b"\x1b", b"[", b"1", b";", b"m", b"x"]


def gen_strip(tier, rng):
    out = []
    maxlen = 5 if tier == "quick" else 7
    for n in range(0, maxlen + 1):
        for tup in itertools.product(ALPHA, repeat=n):
            out.append("style-strip " + hx(b"".join(tup)))
    out += ["style-strip " + hx(t) for t in TEXTS]
    wide = [b"\x1b", b"[", b"0", b"9", b";", b"m", b"M", b":", b"?", b"\xc3\xa9", b"\xe8\xaa\xad", b"\xff", b"\xc3", b" ", b"\n", b"\x1b[0m", b"\x1b[38;5;120m"]
    n = 4000 if tier == "quick" else 200000
    for _ in range(n):
        out.append("style-strip " + hx(b"".join(rng.choice(wide) for _ in range(rng.randrange(0, 14)))))
    return out


def oracle_strip(req, out):
    s = unhx(req.split(" ")[1])
    f = out.split(" ")
    if len(f) != 3 or f[0] != "ok":
        return "StripAllAnsiSequences failed: %s" % out
    f = f[1:]
    got = unhx(f[0])
    if got != sgr_strip(s):
        return "StripAllAnsiSequences(%r) = %r, removing the SGR sequences gives %r" % (s, got, sgr_strip(s))
    if int(f[1]) != go_rune_count(got):
        return "rune count of %r reported as %s" % (got, f[1])
    return None


# ------------------------------------------------------------------ doc

def rnd_doc(rng, depth=0):
    """list of tokens: P<hex> | (<props> ... )"""
    toks = []
    for _ in range(rng.randrange(1, 4)):
        if depth < 3 and rng.random() < 0.45:
            toks.append("(" + rnd_props(rng))
            toks += rnd_doc(rng, depth + 1)
            toks.append(")")
        else:
            toks.append("P" + hx(rnd_text(rng, 0.45)))
    return toks


def doc_plain_and_marks(toks):
    """unstyled text and the byte offsets of the style boundaries"""
    text, marks = b"", []
    for t in toks:
        if t[0] == "P":
            text += unhx(t[1:])
        else:
            marks.append(len(text))
    return text, marks


def straddles(pattern, text, marks):
    for m in pattern.finditer(text):
        for k in marks:
            if m.start() < k < m.end():
                return True
    return False


def gen_doc(tier, rng):
    out = []
    n = 6000 if tier == "quick" else 300000
    for _ in range(n):
        out.append("style-doc %s %s" % (rng.choice(SCHEMES), " ".join(rnd_doc(rng))))
    # the witnesses of the Coq development
    out.append("style-doc dark P%s (5,0,0,0 P%s )" % (hx(b"\x1b[3"), hx(b"1mX")))
    out.append("style-doc dark (2,0,0,0 P%s (2,0,1,0 P%s ) P%s ) P0a" % (hx("café \x1b[3".encode()), hx(b"#t='\x1b[4'"), hx(b"1m done")))
    return out


def oracle_doc(req, out):
    f = req.split(" ")
    sch, toks = f[1], f[2:]
    o = out.split(" ")
    if len(o) != 3 or o[0] != "ok":
        return "rendering failed: %s" % out
    styled, plain = unhx(o[1]), unhx(o[2])
    text, marks = doc_plain_and_marks(toks)
    if plain != text:
        return "the unstyled rendering is not the concatenation of the texts"
    if sch == "no_colour" and styled != plain:
        return "no_colour rendering differs from the plain text"
    if not straddles(SGR, text, marks) and sgr_strip(styled) != sgr_strip(plain):
        return "no sequence straddles a style boundary, yet stripped outputs differ: %r vs %r" % (sgr_strip(styled), sgr_strip(plain))
    return None


def nontrivial_doc(req, out):
    o = out.split(" ")
    return len(o) == 3 and o[1] != o[2]


# ------------------------------------------------------------------ table

CELL_TEXTS = [b"", b"a", b"Total", b"   Total", b"1h30m", b"-2h", b"#tag", "#読む".encode(), "café".encode(), "🎉🎉".encode(),
              "ελληνικά".encode(), b"=", b"-", b"x y z", b"(12)", b"\x1b[31mred\x1b[0m", b"\x1b[1;4mU\x1b[0m"]
ODD_TEXTS = [b"\x1b[3", b"\x1b", b"1m", b"\x1b[m", b"\xc3", b"\xff", b"\xe2\x82", b"ab\x1b["]


def rnd_cell(rng, odd):
    k = rng.random()
    if k < 0.12:
        return "S,%d" % rng.choice([1, 1, 2, 3, 0, -1])
    text = rng.choice(ODD_TEXTS) if rng.random() < odd else rng.choice(CELL_TEXTS)
    style = "n" if rng.random() < 0.4 else rnd_props(rng)
    if k < 0.22:
        fill = rng.choice([b"=", b"-", "═".encode(), b"=", b"=-", b"", b"\x1b[2m=\x1b[0m"]) if odd or rng.random() < 0.5 else b"="
        return "F,%s,%s" % (style, hx(fill))
    return "%s,%s,%s" % (rng.choice("LR"), style, hx(text))


def gen_table(tier, rng):
    out = []
    n = 5000 if tier == "quick" else 250000
    for i in range(n):
        cols = rng.choice([2, 2, 3, 3, 4, 5, 7, 1, 0, -3]) if rng.random() < 0.1 else rng.randrange(2, 7)
        odd = 0.15 if i % 4 == 0 else 0.0
        sep = rng.choice([b" ", b" ", b" ", b"", b" | ", "│".encode(), b"\x1b[2m|\x1b[0m"] + ([b"\x1b[", b"1m", b"\xc3"] if odd else []))
        ncell = rng.randrange(0, 5) * max(cols, 1) + (rng.randrange(0, max(cols, 1)) if rng.random() < 0.2 else 0)
        cells = [rnd_cell(rng, odd) for _ in range(ncell)]
        out.append("table-render %s %d %s %s" % (rng.choice(SCHEMES), cols, hx(sep), " ".join(cells)))
    # the tables of the Coq development
    out.append("table-render dark 2 20 L,n,61 L,n,62 L,n,63")
    out.append("table-render dark 2 20 L,n,616263 L,n,78 F,n,3d2d F,n,3d2d")
    return [l.rstrip(" ") for l in out]


def table_cells(req):
    """[(kind, styled, text)] with skips expanded; None if a token is not understood"""
    f = req.split(" ")
    cells = []
    for c in f[4:]:
        p = c.split(",")
        if len(p) == 2 and p[0] == "S":
            cells += [("L", False, b"")] * max(int(p[1]), 0)
        elif len(p) >= 3 and p[0] in "LRF":
            cells.append((p[0], ",".join(p[1:-1]) != "n", unhx(p[-1])))
        else:
            return None
    return cells


def oracle_table(req, out, pattern=SGR):
    f = req.split(" ")
    cols, sep = int(f[2]), unhx(f[3])
    if f[1] not in SCHEMES:
        return None
    if cols <= 1:
        return None if out == "crash" else "a table with %d columns was accepted" % cols
    if not out.startswith("ok "):
        return "Collect failed on a table with %d columns: %s" % (cols, out)
    text = unhx(out[3:])
    cells = table_cells(req)
    if cells is None or not text.endswith(b"\n"):
        return "unexpected output"
    if any(b"\n" in t for _, _, t in cells) or b"\n" in sep:
        return None
    rows = text[:-1].split(b"\n") if cells else []
    if len(rows) != (len(cells) + cols - 1) // cols:
        return "%d cells in %d columns printed as %d rows" % (len(cells), cols, len(rows))
    # the alignment claim needs: full rows, tidy texts, one-character fills
    if len(cells) % cols != 0 or not tidy(sep):
        return None
    for kind, styled, t in cells:
        if not tidy(t) or (kind == "F" and vis(t, pattern) != 1):
            return None
    width = [0] * cols
    for i, (kind, styled, t) in enumerate(cells):
        width[i % cols] = max(width[i % cols], vis(t, pattern))
    want = sum(width) + (cols - 1) * vis(sep, pattern)
    for r in rows:
        if vis(r, pattern) != want:
            return "row %r shows %d characters, the columns add up to %d" % (r, vis(r, pattern), want)
    return None


def nontrivial_table(req, out):
    return out.startswith("ok ") and len(out) > 6


# ------------------------------------------------------------------ print (model of the whole `klog print` output)

P_WORDS = ["work", "meeting", "(urgent)", "50%", "a/b", "Q&A", "v1.2", "done!", "[wip]", "m", "1m", "0m", ";", "[0m", "38;5;1m"] + UNICODE_WORDS
P_ESC = ["\x1b[3", "\x1b[31mred\x1b[0m", "\x1b", "\x1b[", "\x1b[m", "\x1b[1;4m", "\x1b[38;5;", "x\x1b[0", "\x1b[;", "\x1b[0"]
P_TAGS_PLAIN = ["#gym", "#home-office", "#読む", "#ticket=891", "#Ünï", "#x=", "#a_b-c", "#1m", "#0", "#日本語=値", "#tag=v-1", "#m", "#1"]
P_TAGS_QUOTED = ["#project=\"22/48.3\"", "#t='a b'", "#p=\"\"", "#q=\"it's\"", "#emoji=\"🎉 party\"", "#e=\"\x1b[3\"", "#e='\x1b[31mred\x1b[0m'",
                 "#e=\"\x1b[m\"", "#e=\"\x1b\"", "#e='1m\x1b['", "#e=\"\x1b[38;5;\""]


def rnd_segs(rng, esc, first_nonblank=True):
    """a summary line as (is_tag, text) segments whose tags are exactly what klog's tag pattern finds"""
    segs = []
    n = rng.randrange(1, 6)
    after = None  # None | 'plain' | 'quoted'
    for i in range(n):
        r = rng.random()
        if r < 0.45:
            if rng.random() < 0.45:
                segs.append((True, rng.choice(P_TAGS_QUOTED if esc else P_TAGS_QUOTED[:5]))); after = "quoted"
            else:
                segs.append((True, rng.choice(P_TAGS_PLAIN))); after = "plain"
        else:
            ws = [rng.choice(P_ESC) if (esc and rng.random() < 0.5) else rng.choice(P_WORDS) for _ in range(rng.randrange(1, 4))]
            t = " ".join(ws)
            lead = ""
            if after == "plain":
                lead = rng.choice([" ", " ", ",", ".", ":", "!", ")", "\x1b[3", "\x1b"] if esc else [" ", " ", ",", "."])
            elif after == "quoted":
                lead = rng.choice(["", " ", "1m", "m", ";", "[0m", " "])
            elif i > 0 or not first_nonblank:
                lead = rng.choice(["", " "])
            t = lead + t
            t += rng.choice(["", "", " ", "\x1b[3" if esc else "", "\x1b[" if esc else ""])
            if segs and not segs[-1][0]:
                segs[-1] = (False, segs[-1][1] + t)
            else:
                segs.append((False, t))
            after = None
    if first_nonblank and not segs[0][0] and segs[0][1][:1] in (" ", ""):
        segs[0] = (False, "x" + segs[0][1])
    return segs


def enc_segs(segs):
    return ".".join(("g" if tag else "t") + hx(t) for tag, t in segs if t != "") or "-"


def gen_print(tier, rng):
    out = []
    n = 2500 if tier == "quick" else 120000
    for i in range(n):
        esc = i % 3 != 0
        toks = []
        for _ in range(rng.choice([1, 1, 2, 3])):
            y, m, d = rng.randrange(1990, 2030), rng.randrange(1, 13), rng.randrange(1, 29)
            sepc = rng.choice("-/")
            should = rng.choice(["", "", "8h!", "7h30m!", "-2h!", "0m!", "1000h!"])
            if should == "0m!": should = ""
            toks.append("R,%s,%s" % (hx("%04d%s%02d%s%02d" % (y, sepc, m, sepc, d)), hx(should)))
            for _ in range(rng.choice([0, 0, 1, 2])):
                toks.append("S," + enc_segs(rnd_segs(rng, esc)))
            has_open = False
            for _ in range(rng.choice([0, 1, 2, 3])):
                k = rng.random()
                if k < 0.4:
                    toks.append("E,d," + hx(rng.choice(["1h", "2h30m", "-45m", "0m", "-1h15m", "1500h59m", "5m", "-0m"])))
                elif k < 0.85 or has_open:
                    toks.append("E,r," + hx(rng.choice(["8:00 - 17:00", "8:00-9:15", "<23:00 - 6:00", "22:00 - 1:30>", "9:00am - 1:15pm", "0:00 - 0:00", "12:00am-12:00pm"])))
                else:
                    has_open = True
                    toks.append("E,o," + hx(rng.choice(["14:00 - ?", "9:30-?", "<22:00 - ???", "1:00pm - ?"])))
                k = rng.random()
                if k < 0.55:
                    toks.append("L," + enc_segs(rnd_segs(rng, esc)))
                elif k < 0.65:
                    toks.append("L,-")
                    toks.append("L," + enc_segs(rnd_segs(rng, esc)))
                if k < 0.65:
                    for _ in range(rng.choice([0, 0, 1, 2])):
                        toks.append("L," + enc_segs(rnd_segs(rng, esc, first_nonblank=rng.random() < 0.7)))
        out.append("style-print %s %s" % (rng.choice(["dark", "light", "basic", "dark", "no_colour"]), " ".join(toks)))
    return out


def oracle_print(req, out):
    o = out.split(" ")
    if len(o) != 3 or o[0] != "ok":
        return "klog print failed on a generated valid file: %s" % out[:300]
    styled, plain = unhx(o[1]), unhx(o[2])
    if req.split(" ")[1] == "no_colour" and styled != plain:
        return "no_colour output differs from itself"
    # `klog print` is proved boundary-safe for every record (C18_print_boundary_safe): no precondition here
    if sgr_strip(styled) != sgr_strip(plain):
        return "removing the SGR sequences from the styled output does not give the unstyled text: %r" % (first_diff(sgr_strip(styled), sgr_strip(plain)),)
    return None


# ------------------------------------------------------------------ end to end

WORDS = ["work", "meeting", "lunch", "call", "review", "and", "with", "the", "project", "email", "fix", "bug", "(urgent)", "50%", "a/b", "x=y",
         "Q&A", "re:", "v1.2", "done!", "[wip]", "m", "1m", "0m", ";"] + UNICODE_WORDS
TAGS = ["#gym", "#home-office", "#読む", "#ticket=891", "#project=\"22/48.3\"", "#t='a b'", "#Ünï", "#x=", "#a_b-c", "#GYM", "#ticket=892", "#ticket",
        "#p=\"\"", "#日本語=値", "#1", "#tag=v-1", "#q=\"it's\"", "#emoji=\"🎉 party\""]
ESC_WORDS = ["\x1b[3", "\x1b[31mred\x1b[0m", "\x1b", "\x1b[", "\x1b[m", "\x1b[1;4m", "\x1b[38;5;", "x\x1b[0"]
ESC_TAGS = ["#e=\"\x1b[3\"", "#e='\x1b[31mred\x1b[0m'", "#e=\"\x1b[m\"", "#e=\"\x1b\"", "#e='1m\x1b['"]


def rnd_summary(rng, esc):
    ws = []
    for _ in range(rng.randrange(1, 6)):
        r = rng.random()
        if esc and r < 0.25:
            ws.append(rng.choice(ESC_WORDS))
        elif esc and r < 0.35:
            ws.append(rng.choice(ESC_TAGS))
        elif r < 0.6:
            ws.append(rng.choice(TAGS))
        else:
            ws.append(rng.choice(WORDS))
    s = " ".join(ws)
    if esc and rng.random() < 0.3:
        # glue fragments directly to tags and words
        s = s.replace(" #", "#", 1) if rng.random() < 0.5 else s.replace(" ", "", 1)
    return s


def fmt_time(m, rng):
    """m: offset in minutes from midnight, -1440 <= m < 2880"""
    pre = post = ""
    if m < 0: pre, m = "<", m + 1440
    elif m >= 1440: post, m = ">", m - 1440
    h, mi = divmod(m, 60)
    if rng.random() < 0.25:
        ap = "am" if h < 12 else "pm"
        return "%s%d:%02d%s%s" % (pre, 12 if h % 12 == 0 else h % 12, mi, ap, post)
    return "%s%d:%02d%s" % (pre, h, mi, post)


def rnd_duration(rng, sign=True):
    k = rng.random()
    if k < 0.1: h, m = rng.choice([0, 1000, 99999, 1500]), rng.choice([0, 0, 59])
    elif k < 0.2: h, m = 0, rng.randrange(0, 400)
    else: h, m = rng.randrange(0, 12), rng.choice([0, 0, 15, 30, 45, rng.randrange(60)])
    s = ("%dh" % h if h or (not m and rng.random() < 0.5) else "") + ("%dm" % m if m or not h else "")
    if h and m and h < 1000: s = "%dh%dm" % (h, m)
    if not s: s = "0m"
    if sign:
        s = rng.choice(["", "", "", "-", "-", "+"]) + s
    return s


def days_from_civil(y, m, d):
    y -= m <= 2
    era = y // 400
    yoe = y - era * 400
    doy = (153 * (m + (-3 if m > 2 else 9)) + 2) // 5 + d - 1
    doe = yoe * 365 + yoe // 4 - yoe // 100 + doy
    return era * 146097 + doe - 719468


def civil_from_days(z):
    z += 719468
    era = z // 146097
    doe = z - era * 146097
    yoe = (doe - doe // 1460 + doe // 36524 - doe // 146096) // 365
    y = yoe + era * 400
    doy = doe - (365 * yoe + yoe // 4 - yoe // 100)
    mp = (5 * doy + 2) // 153
    d = doy - (153 * mp + 2) // 5 + 1
    m = mp + (3 if mp < 10 else -9)
    return (y + (m <= 2), m, d)


def rnd_file(rng, today, esc, now_min=720):
    """a valid klog file (Specification.md): records with Unicode summaries and tags, should-totals, durations,
       ranges with shifted times, at most one open range per record"""
    t0 = days_from_civil(*today)
    nrec = rng.choice([1, 2, 3, 4, 6, 9])
    spread = rng.choice([3, 12, 45, 45, 120, 400] if rng.random() < 0.3 else [3, 12, 45])
    recs = []
    for _ in range(nrec):
        day = t0 - rng.choice([0, 0, 1, 1, rng.randrange(0, spread), -rng.randrange(0, 9)])
        y, m, d = civil_from_days(day)
        sepc = rng.choice("--/")
        head = "%04d%s%02d%s%02d" % (y, sepc, m, sepc, d)
        if rng.random() < 0.45:
            head += " (%s!)" % rnd_duration(rng, sign=rng.random() < 0.2).lstrip("+")
        lines = [head]
        for _ in range(rng.choice([0, 0, 1, 2])):
            lines.append(rnd_summary(rng, esc))
        ind = rng.choice(["    ", "    ", "  ", "   ", "\t"])
        has_open = False
        for _ in range(rng.choice([0, 1, 2, 3, 5])):
            k = rng.random()
            if k < 0.4:
                val = rnd_duration(rng)
            elif k < 0.88 or has_open or (t0 - day not in (0, 1) and rng.random() < 0.85):
                a = rng.randrange(-300, 1440) if rng.random() < 0.15 else rng.randrange(0, 1440)
                b = a + rng.choice([0, 5, 45, 90, 480, rng.randrange(0, 1440)])
                b = min(b, 2879)
                dash = rng.choice([" - ", " - ", "-"])
                val = fmt_time(a, rng) + dash + fmt_time(b, rng)
            else:
                has_open = True
                # mostly closable by --now: started before the clock reading when the record is today's
                start = rng.randrange(0, now_min + 1) if (day == t0 and rng.random() < 0.85) else rng.randrange(0, 1440)
                val = fmt_time(start, rng) + rng.choice([" - ?", "-?", " - ???"])
            line = ind + val
            k = rng.random()
            if k < 0.6:
                line += " " + rnd_summary(rng, esc)
            lines.append(line)
            if k > 0.45:
                for _ in range(rng.choice([0, 0, 1, 2])):
                    lines.append(ind + ind + rnd_summary(rng, esc))
        recs.append("\n".join(lines))
    blank = rng.choice(["\n\n", "\n\n", "\n\n\n", "\n \n"])
    text = blank.join(recs) + rng.choice(["\n", "", "\n\n"])
    if rng.random() < 0.1:
        text = text.replace("\n", "\r\n")
    return text.encode("utf-8")


def rnd_flags(rng, cmd):
    fl = []
    if cmd == "print":
        fl += rng.choice([[], [], ["--sort", "asc"], ["--sort", "desc"], ["--tag", "gym"], ["--no-warn"]])
    elif cmd == "print --with-totals":
        fl += rng.choice([[], [], ["--sort", "asc"], ["--no-warn"]])
    elif cmd == "total":
        fl += rng.choice([[], ["--diff"], ["--now"], ["--diff", "--now"], ["--decimal"], ["--diff", "--decimal"], ["--tag", "ticket"]])
    elif cmd == "report":
        fl += ["--aggregate", rng.choice(["day", "week", "month", "quarter", "year", "d", "w", "m", "q", "y"])] if rng.random() < 0.85 else []
        for f, p in (("--fill", 0.4), ("--diff", 0.5), ("--chart", 0.4), ("--now", 0.3), ("--decimal", 0.15)):
            if rng.random() < p: fl.append(f)
    elif cmd == "tags":
        for f, p in (("--values", 0.6), ("--count", 0.5), ("--now", 0.25), ("--decimal", 0.1)):
            if rng.random() < p: fl.append(f)
    elif cmd == "today":
        for f, p in (("--diff", 0.6), ("--now", 0.5), ("--decimal", 0.1)):
            if rng.random() < p: fl.append(f)
    if cmd in ("report", "tags", "today", "total") and rng.random() < 0.75 and "--no-warn" not in fl:
        fl.append("--no-warn")
    return fl


CLI_COMMANDS = ["print", "print --with-totals", "total", "report", "tags", "today"]
TABLE_COMMANDS = ("report", "tags", "today")
VARIANTS = ["dark", "light", "basic", "no_colour", "no-style", "NO_COLOR"]
PLAIN = (3, 4, 5)


def gen_cli(tier, rng):
    out = []
    nfiles = 150 if tier == "quick" else 2500
    for i in range(nfiles):
        today = (rng.choice([2024, 2024, 2023, 2020, 1999]), rng.randrange(1, 13), rng.randrange(1, 29))
        hh, mm = rng.randrange(0, 24), rng.randrange(0, 60)
        clock = "%04d-%02d-%02dT%02d:%02d" % (today + (hh, mm))
        esc = (i % 5 == 4)
        file = rnd_file(rng, today, esc, hh * 60 + mm)
        for cmd in CLI_COMMANDS:
            out.append("style-cli %s %s %s" % (hx(file), clock, " ".join(cmd.split(" ") + rnd_flags(rng, cmd))))
        if i % 3 == 0:
            # the report's optional columns all at once, with gap rows
            fl = ["report", "--aggregate", rng.choice(["day", "week", "month"]), "--fill", "--chart", "--no-warn"] + rng.choice([[], ["--diff"], ["--diff", "--now"]])
            out.append("style-cli %s %s %s" % (hx(file), clock, " ".join(fl)))
    return [l.rstrip(" ") for l in out]


def cli_parse(out):
    vs = []
    if not out.startswith("ok "):
        return None
    for tok in out.split(" ")[1:]:
        p = tok.split(":")
        if len(p) != 3:
            return None
        vs.append((int(p[0]), unhx(p[1]), unhx(p[2])))
    return vs if len(vs) == len(VARIANTS) else None


EXPECTED_ERRORS = (b"Cannot apply --now flag",)


def oracle_cli(req, out, width_pattern=SGR):
    f = req.split(" ")
    file, args = unhx(f[1]), f[3:]
    vs = cli_parse(out)
    if vs is None:
        return "command failed to run: %s" % out[:200]
    codes = set(v[0] for v in vs)
    if len(codes) != 1:
        return "exit code depends on the colour scheme: %s" % [v[0] for v in vs]
    code = vs[0][0]
    if code != 0 and not any(e in vs[3][2] for e in EXPECTED_ERRORS):
        return "the generated file is valid by the specification but the command failed: %r" % vs[3][2][:300]
    plain_out, plain_err = vs[3][1], vs[3][2]
    for k in PLAIN:
        if (vs[k][1], vs[k][2]) != (plain_out, plain_err):
            return "the unstyled variants %s and %s print different bytes" % (VARIANTS[3], VARIANTS[k])
    if ESC not in file and (ESC in plain_out or ESC in plain_err):
        return "unstyled output contains an escape byte although the file has none"
    for k, (c, o, e) in enumerate(vs):
        if sgr_strip(o) != sgr_strip(plain_out):
            return "%s: removing the SGR sequences from stdout does not give the unstyled text (%r vs %r)" % (
                (VARIANTS[k],) + first_diff(sgr_strip(o), sgr_strip(plain_out)))
        if sgr_strip(e) != sgr_strip(plain_err):
            return "%s: error text differs from the unstyled one after removing SGR sequences" % VARIANTS[k]
    cmd = args[0]
    if code == 0 and cmd in TABLE_COMMANDS and "--no-warn" in args:
        for k, (c, o, e) in enumerate(vs):
            if not o:
                continue
            rows = o[:-1].split(b"\n") if o.endswith(b"\n") else o.split(b"\n")
            ws = set(vis(r, width_pattern) for r in rows)
            if len(ws) > 1:
                bad = [r for r in rows if vis(r, width_pattern) != vis(rows[0], width_pattern)][0]
                return "%s: rows of the %s table show different numbers of characters %s, e.g. %r vs %r" % (
                    VARIANTS[k], cmd, sorted(ws), sgr_strip(rows[0]), sgr_strip(bad))
    return None


def first_diff(a, b):
    i = 0
    while i < min(len(a), len(b)) and a[i] == b[i]:
        i += 1
    return (a[max(0, i - 20):i + 20], b[max(0, i - 20):i + 20])


def nontrivial_cli(req, out):
    vs = cli_parse(out)
    return bool(vs) and vs[0][0] == 0 and vs[0][1] != vs[3][1]

def strip_projection():
    """which colours, and which of bold / underline, a theme uses is presentation that the property leaves open: it fixes the
       text that remains once the SGR sequences are removed. Before the model's and the implementation's renderings are
       compared, both are therefore reduced to that text (every hex token of an `ok` answer: decode, remove the SGR sequences
       as the property defines them, encode). The oracles keep judging the raw bytes (stripped styled = unstyled, identity
       under no_colour, equal visible row widths)."""
    def f(req, line):
        toks = line.split(" ")
        if toks[0] != "ok":
            return line
        out = [toks[0]]
        for x in toks[1:]:
            try:
                out.append(hx(sgr_strip(unhx(x))) if x != "-" else x)
            except Exception:
                out.append(x)
        return " ".join(out)
    return f


def suites():
    return [
        Suite("format", gen_format, oracle=oracle_format, project=strip_projection, nontrivial=lambda r, o: o.startswith("ok ") and o != "ok - -",
              exhaustive=lambda t: True,
              rule="4 schemes x all 484 prop combinations (colour, background 0..10 incl. out-of-range, bold, underline) x texts "
                   "(empty, Unicode, invalid UTF-8, ESC fragments) + unknown scheme names + random; non-trivial = non-empty output"),
        Suite("strip", gen_strip, oracle=oracle_strip, nontrivial=lambda r, o: True,
              exhaustive=lambda t: True,
              rule="all strings over {ESC [ 1 ; m x} up to length 5 (quick) / 7 (thorough) + random strings over a wider alphabet incl. "
                   "multi-byte and invalid UTF-8"),
        Suite("doc", gen_doc, oracle=oracle_doc, project=strip_projection, nontrivial=nontrivial_doc,
              rule="random document trees (depth <= 4) of plain and styled pieces whose texts mix words, Unicode and ESC fragments; "
                   "non-trivial = styled and unstyled renderings differ"),
        Suite("table", gen_table, oracle=oracle_table, project=strip_projection, nontrivial=nontrivial_table,
              rule="random tables: 2..6 columns (+ illegal counts), separators incl. empty/Unicode/styled, L/R/fill/skip cells, "
                   "styled and plain, Unicode, ragged cell counts, a quarter with ill-formed texts; non-trivial = printed table"),
        Suite("print", gen_print, oracle=oracle_print, project=strip_projection, nontrivial=nontrivial_doc,
              rule="records given by structure (dates, should-totals, durations/ranges/open ranges, multi-line summaries as tag and "
                   "text segments, two thirds with ESC fragments glued to tags and line ends), written out as a file and printed "
                   "by the real `klog print` under a scheme and under no_colour, vs. the model's document tree; "
                   "non-trivial = styled differs from unstyled"),
        Suite("cli", gen_cli, oracle=oracle_cli, nontrivial=nontrivial_cli, model=False, decisive=False,
              rule="generated valid klog files (Unicode summaries/tags, should-totals, negative and large durations, shifted and "
                   "open ranges, every fifth file with ESC fragments) x {print, print --with-totals, total, report, tags, today} "
                   "with random flags x {dark, light, basic, no_colour, --no-style, NO_COLOR}; oracle only; "
                   "non-trivial = exit 0 and styled output differs from unstyled"),
    ]
