(* C07 — the parallel parser is indistinguishable from the serial parser.
   Property theorems only; each is closed by [exact <lemma>] and followed by Print Assumptions.
   Model: Model/Parallel.v (ParallelBatchParser.Parse: splitIntoChunks after fix F11, the worker, collection of the
   results by batch index in ANY arrival order, the merge loop with carryText, renumbering) against
   parse_text (the serial parser, Model/Parser.v). par_parse and parse_text return records, blocks (lines and
   preceding line count) and errors (line, position, length, code, line text), so equality covers all observables.
   Definitions used in the statements (tear, good_cut, cuts, no_tear) are in Proofs/Parallel.v. *)
From Klog Require Import Base.Prelude Base.Utf8 Model.Lines Model.Parser Model.Parallel Proofs.Parallel.
From Coq Require Import Permutation.
Open Scope nat_scope.

(* 1. results are stored by batch index: the order in which the workers deliver cannot matter *)
Theorem C07_collect_any_order : forall (A : Type) (d : A) (n : nat) (rs : list A) (order : list nat),
  length rs = n -> Permutation order (seq 0 n) ->
  collect d n (map (fun i => (i, nth i rs d)) order) = rs.
Proof. exact @collect_any_order. Qed.
Print Assumptions C07_collect_any_order.

(* ... for any arrival list that delivers every index with its value (repetitions and stray indices allowed) *)
Theorem C07_collect_any_arrivals : forall (A : Type) (d : A) (n : nat) (rs : list A) (arr : list (nat * A)),
  length rs = n -> (forall j, j < n -> In j (map fst arr)) -> (forall i x, In (i, x) arr -> x = nth i rs d) ->
  collect d n arr = rs.
Proof. exact @collect_any_arrivals. Qed.
Print Assumptions C07_collect_any_arrivals.

(* 2. splitIntoChunks: n chunks that concatenate to the text; every chunk boundary (text before, text after) is at
      the start or the end of the text, or lies before a rune start (never inside a UTF-8 sequence) and not between
      a CR and the LF that follows it *)
Theorem C07_chunks_partition : forall (s : bytes) (n : nat), 1 <= n ->
  List.concat (split_into_chunks s n) = s /\ length (split_into_chunks s n) = n /\
  cuts (fun a b => a = [] \/ b = [] \/
                   (rune_start (hd 0%N b) = true /\ ~ (last a 0%N = 13%N /\ hd 0%N b = 10%N)))
       [] (split_into_chunks s n).
Proof. exact chunks_partition. Qed.
Print Assumptions C07_chunks_partition.

(* 3. the main theorem: for every text (valid or not, any bytes), every worker count n >= 1 and every arrival order
      of the n results, the parallel parser returns exactly what the serial parser returns *)
Theorem C07_parallel_eq_serial : forall (s : bytes) (n : nat) (order : list nat),
  1 <= n -> Permutation order (seq 0 n) -> par_parse s n order = parse_text s.
Proof. exact parallel_eq_serial. Qed.
Print Assumptions C07_parallel_eq_serial.

Theorem C07_parallel_eq_serial_arrivals : forall (s : bytes) (n : nat) (order : list nat),
  1 <= n -> (forall j, j < n -> In j order) -> par_parse s n order = parse_text s.
Proof. exact parallel_eq_serial_arrivals. Qed.
Print Assumptions C07_parallel_eq_serial_arrivals.

(* consequently the result does not depend on the number of CPUs or on the schedule *)
Theorem C07_parallel_deterministic : forall (s : bytes) (n1 n2 : nat) (o1 o2 : list nat),
  1 <= n1 -> 1 <= n2 -> Permutation o1 (seq 0 n1) -> Permutation o2 (seq 0 n2) ->
  par_parse s n1 o1 = par_parse s n2 o2.
Proof. exact parallel_deterministic. Qed.
Print Assumptions C07_parallel_deterministic.

(* 4. independent of where splitIntoChunks cuts: the merge of the workers' results equals the serial result for EVERY
      partition of the text into contiguous chunks (inside a line, a multi-byte character, a blank run, empty
      chunks anywhere) provided no boundary separates a CR from the LF that follows it *)
Theorem C07_any_partition : forall chunks : list bytes,
  cuts (fun a b => ~ (last a 0%N = 13%N /\ hd 0%N b = 10%N)) [] chunks ->
  par_blocks_of_chunks chunks = blocks_of (List.concat chunks) /\
  par_parse_chunks chunks = parse_text (List.concat chunks).
Proof. exact (fun chunks H => conj (par_blocks_eq chunks H) (par_parse_chunks_eq chunks H)). Qed.
Print Assumptions C07_any_partition.

(* ... and that proviso is necessary: a chunk ending in the CR of a blank line " \r\n" makes its worker see a
   non-blank last line (defect F11 of the original splitIntoChunks, which only avoided UTF-8 sequences) *)
Theorem C07_arbitrary_partition_refuted :
  exists chunks, par_parse_chunks chunks <> parse_text (List.concat chunks).
Proof. exact arbitrary_partition_refuted. Qed.
Print Assumptions C07_arbitrary_partition_refuted.

(* zero workers: the Go code panics ("Illegal number of workers") *)
Theorem C07_zero_workers : forall s order, par_parse s 0 order = Crash CExplicitPanic.
Proof. exact par_parse_zero_workers. Qed.
Print Assumptions C07_zero_workers.

(* ---- non-vacuity ---- *)
(* ex_par_text (69 bytes: CRLF, a 2-byte character, blank lines, 3 records) with 5 workers of 14 bytes: the fourth cut
   would fall between the CR and the LF of the blank line after the second record and is moved by one byte; the order
   [3;0;4;2;1] is a permutation; the result is 3 records; the torn partition really differs in the blocks *)
Example C07_nonvacuous :
  map (@length N) (split_into_chunks ex_par_text 5) = [14; 14; 14; 15; 12] /\
  Permutation [3; 0; 4; 2; 1] (seq 0 5) /\
  (exists rs bs, par_parse ex_par_text 5 [3; 0; 4; 2; 1] = Ok (Parsed rs bs) /\ length rs = 3 /\
                 map b_preceding bs = [0; 4; 7]) /\
  map b_preceding (par_blocks_of_chunks torn_chunks) = [0; 2; 4] /\
  map b_preceding (blocks_of (List.concat torn_chunks)) = [0; 2; 5].
Proof.
  split; [vm_compute; reflexivity|]. split.
  { cbn [seq].
    apply Permutation_trans with (l' := [0; 3; 4; 2; 1]); [apply perm_swap|]. apply perm_skip.
    apply Permutation_trans with (l' := [3; 4; 1; 2]); [do 2 apply perm_skip; apply perm_swap|].
    apply Permutation_trans with (l' := [3; 1; 4; 2]); [apply perm_skip; apply perm_swap|].
    apply Permutation_trans with (l' := [1; 3; 4; 2]); [apply perm_swap|]. apply perm_skip.
    apply Permutation_trans with (l' := [3; 2; 4]); [apply perm_skip; apply perm_swap|].
    apply Permutation_trans with (l' := [2; 3; 4]); [apply perm_swap|]. apply Permutation_refl. }
  split; [eexists _, _; vm_compute; repeat split|]. split; vm_compute; reflexivity.
Qed.
