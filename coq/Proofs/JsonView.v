(* Lemmas about Model/JsonView.v (C20).
   Part A  what Go's encoder + decoder do to ANY byte string: [sanitize] (invalid bytes become U+FFFD)
   Part B  print then parse for every JSON value without raw number literals: the value with sanitized strings
           (generalises Proofs/Json.v parse_print_layout, which needs valid UTF-8 everywhere)
   Part C  shape of the views, envelope, totality
   Part D  arithmetic relations
   Part E  decoding the record views: of_view (view r) = data_of r
   Part F  error views and the terminal report
   Part G  what the parser hands over is well-formed (valid UTF-8, no line feeds, valid times and dates)
   Part H  every string of a document built from parsed files is valid UTF-8 (so nothing is replaced)
   Part I  the statements of C20 for one file and for several *)
From Klog Require Import Base.Prelude Base.Utf8 Model.Calendar Model.Values Model.Record Model.Lines Model.Parser
  Model.Eval Model.Tags Model.Json Model.JsonView.
From Klog Require Import Proofs.Values Proofs.SpecValues Proofs.Lines Proofs.Parser Proofs.TagsUtf8 Proofs.Tags Proofs.Json.
From Coq Require Import ZifyBool ZifyN.
Open Scope N_scope.
Ltac Zify.zify_post_hook ::= Z.div_mod_to_equations.

(* ===================================================================== *)
(* Part A — the string codec on arbitrary bytes                          *)
(* ===================================================================== *)

(* string([]rune(s)): every byte that is not part of a valid UTF-8 sequence becomes EF BF BD *)
Definition sanitize (s : bytes) : bytes := utf8_encode (utf8_decode s).

Lemma is_scalar_scalar r : is_scalar r = true <-> scalar r.
Proof. unfold is_scalar, scalar. lia. Qed.

Lemma utf8_decode_cons b t :
  utf8_decode (b :: t) = fst (decode_rune (b :: t)) :: utf8_decode (skipn (snd (decode_rune (b :: t))) (b :: t)).
Proof. rewrite !utf8_decode_syms, decode_syms_cons. reflexivity. Qed.

Lemma sanitize_nil : sanitize [] = [].
Proof. reflexivity. Qed.

Lemma sanitize_cons b t :
  sanitize (b :: t) = encode_rune (fst (decode_rune (b :: t))) ++ sanitize (skipn (snd (decode_rune (b :: t))) (b :: t)).
Proof. unfold sanitize. rewrite utf8_decode_cons. reflexivity. Qed.

Lemma sanitize_valid s : valid_utf8 (sanitize s).
Proof.
  apply valid_utf8_runes. exists (utf8_decode s). split; [|reflexivity].
  pose proof (utf8_decode_scalar s) as H. rewrite Forall_forall in *. intros r Hr. apply is_scalar_scalar, H, Hr.
Qed.

Lemma sanitize_id s : valid_utf8 s -> sanitize s = s.
Proof.
  intros H. apply valid_utf8_runes in H as (rs & Hrs & ->). unfold sanitize. rewrite utf8_decode_encode; [reflexivity|].
  rewrite Forall_forall in *. intros r Hr. apply is_scalar_scalar, Hrs, Hr.
Qed.

Lemma sanitize_idem s : sanitize (sanitize s) = sanitize s.
Proof. apply sanitize_id, sanitize_valid. Qed.

(* the escape the encoder writes for an invalid byte reads back as U+FFFD *)
Lemma read_fffd k Y : read_string_fuel (S k) (esc_fffd ++ Y) = prepend fffd_bytes (read_string_fuel k Y).
Proof. reflexivity. Qed.

Lemma encode_rune_error : encode_rune rune_error = fffd_bytes.
Proof. reflexivity. Qed.

(* one step of the encoder on a non-empty string, whatever its bytes *)
Lemma encode_body_any_step b t k :
  let rw := decode_rune (b :: t) in
  encode_body (S k) (b :: t) =
  (if invalid_rune rw then esc_fffd else enc_out (fst rw)) ++ encode_body k (skipn (snd rw) (b :: t)).
Proof.
  cbv zeta. destruct (decode_rune (b :: t)) as [r w] eqn:D.
  destruct (invalid_rune (r, w)) eqn:V.
  - (* an invalid byte: never ASCII, width 1 *)
    unfold invalid_rune in V. cbn [fst snd] in V. apply andb_true_iff in V as [Vr Vw].
    apply N.eqb_eq in Vr. apply Nat.eqb_eq in Vw. subst r w.
    assert (Hb : (b <? 128) = false).
    { destruct (b <? 128) eqn:E; [|reflexivity]. exfalso. unfold decode_rune in D. rewrite E in D.
      injection D as D1. unfold rune_error in D1. apply N.ltb_lt in E. lia. }
    cbn [encode_body]. rewrite Hb, D. unfold invalid_rune. cbn [fst snd]. rewrite N.eqb_refl. reflexivity.
  - destruct (encode_decode (b :: t) r w ltac:(discriminate) D V) as (Hs & He & Hw1 & Hw2).
    cbn [fst snd].
    rewrite <- (firstn_skipn w (b :: t)) at 1. rewrite <- He.
    apply encode_body_step. exact Hs.
Qed.

Lemma skipn_shorter (s : bytes) w : (1 <= w)%nat -> s <> [] -> (length (skipn w s) < length s)%nat.
Proof. intros Hw Hs. rewrite skipn_length. destruct s; [congruence|]. cbn [length]. lia. Qed.

Lemma decode_width_pos b t : (1 <= snd (decode_rune (b :: t)))%nat.
Proof. pose proof (decode_rune_width (b :: t) ltac:(discriminate)). lia. Qed.

(* the encoder writes at least one byte per rune *)
Lemma encode_body_any_length n : forall s fe, (length s <= n)%nat -> (length s <= fe)%nat ->
  (length (utf8_decode s) <= length (encode_body fe s))%nat.
Proof.
  induction n as [|n IH]; intros s fe Hn Hfe.
  - destruct s; [|simpl in Hn; lia]. simpl. lia.
  - destruct s as [|b t]; [simpl; lia|]. destruct fe as [|k]; [simpl in Hfe; lia|].
    rewrite utf8_decode_cons, encode_body_any_step. cbv zeta. rewrite app_length. cbn [length].
    pose proof (decode_width_pos b t) as Hw.
    pose proof (skipn_shorter (b :: t) _ Hw ltac:(discriminate)) as Hlt.
    specialize (IH (skipn (snd (decode_rune (b :: t))) (b :: t)) k ltac:(simpl in *; lia) ltac:(simpl in *; lia)).
    assert (1 <= length (if invalid_rune (decode_rune (b :: t)) then esc_fffd else enc_out (fst (decode_rune (b :: t)))))%nat.
    { destruct (invalid_rune _); [simpl; lia | apply enc_out_length]. }
    lia.
Qed.

Lemma roundtrip_any n : forall s fe fr Y, (length s <= n)%nat -> (length s <= fe)%nat -> (length (utf8_decode s) < fr)%nat ->
  read_string_fuel fr (encode_body fe s ++ 34 :: Y) = Ok (sanitize s, Y).
Proof.
  induction n as [|n IH]; intros s fe fr Y Hn Hfe Hfr.
  - destruct s; [|simpl in Hn; lia]. rewrite encode_body_nil. destruct fr; [simpl in Hfr; lia|]. reflexivity.
  - destruct s as [|b t]. { rewrite encode_body_nil. destruct fr; [simpl in Hfr; lia|]. reflexivity. }
    destruct fe as [|ke]; [simpl in Hfe; lia|].
    rewrite utf8_decode_cons in Hfr. cbn [length] in Hfr. destruct fr as [|kr]; [lia|].
    rewrite encode_body_any_step, sanitize_cons. cbv zeta. rewrite <- app_assoc.
    pose proof (decode_width_pos b t) as Hw.
    pose proof (skipn_shorter (b :: t) _ Hw ltac:(discriminate)) as Hlt.
    destruct (decode_rune (b :: t)) as [r w] eqn:D. cbn [fst snd] in *.
    destruct (invalid_rune (r, w)) eqn:V.
    + rewrite read_fffd. rewrite (IH _ ke kr Y) by (simpl in *; lia).
      unfold invalid_rune in V. cbn [fst snd] in V. apply andb_true_iff in V as [Vr _]. apply N.eqb_eq in Vr. subst r.
      reflexivity.
    + destruct (encode_decode (b :: t) r w ltac:(discriminate) D V) as (Hs & _).
      rewrite read_step by exact Hs. rewrite (IH _ ke kr Y) by (simpl in *; lia). reflexivity.
Qed.

(* reading back what the encoder wrote for ANY byte string *)
Lemma read_encoded_any s Y : read_string (encode_body (length s) s ++ 34 :: Y) = Ok (sanitize s, Y).
Proof.
  unfold read_string. apply (roundtrip_any (length s)); [lia | lia |].
  rewrite app_length. pose proof (encode_body_any_length (length s) s (length s) ltac:(lia) ltac:(lia)). simpl. lia.
Qed.

Theorem json_string_roundtrip_any s : decode_string (encode_string s) = Ok (sanitize s).
Proof.
  unfold encode_string, decode_string. cbn [app].
  change (encode_body (length s) s ++ [34]) with (encode_body (length s) s ++ 34 :: []).
  rewrite read_encoded_any. reflexivity.
Qed.

(* ===================================================================== *)
(* Part B — print then parse, for every value                            *)
(* ===================================================================== *)

(* the value a reader gets back: every string and key sanitized *)
Fixpoint san (v : json) : json :=
  match v with
  | JStr s => JStr (sanitize s)
  | JArr l => JArr (map san l)
  | JObj l => JObj (map (fun kx => (sanitize (fst kx), san (snd kx))) l)
  | _ => v
  end.

(* no raw number literal inside (the views contain none) *)
Fixpoint no_raw (v : json) : Prop :=
  match v with
  | JRaw _ => False
  | JArr l => (fix all (l : list json) : Prop := match l with [] => True | x :: r => no_raw x /\ all r end) l
  | JObj l => (fix all (l : list (bytes * json)) : Prop := match l with [] => True | kx :: r => no_raw (snd kx) /\ all r end) l
  | _ => True
  end.

Lemma no_raw_arr x l : no_raw (JArr (x :: l)) <-> no_raw x /\ no_raw (JArr l).
Proof. simpl. tauto. Qed.
Lemma no_raw_obj kx l : no_raw (JObj (kx :: l)) <-> no_raw (snd kx) /\ no_raw (JObj l).
Proof. simpl. tauto. Qed.

Lemma no_raw_arr_forall l : no_raw (JArr l) <-> Forall no_raw l.
Proof.
  induction l as [|x l IH]; [split; constructor|]. rewrite no_raw_arr, IH. split.
  - intros [A B]. constructor; assumption.
  - intros H. inversion H; subst. tauto.
Qed.

Lemma no_raw_obj_forall l : no_raw (JObj l) <-> Forall (fun kx => no_raw (snd kx)) l.
Proof.
  induction l as [|x l IH]; [split; constructor|]. rewrite no_raw_obj, IH. split.
  - intros [A B]. constructor; assumption.
  - intros H. inversion H; subst. tauto.
Qed.

Lemma json_ok_no_raw : forall v, json_ok v -> no_raw v.
Proof.
  apply (json_ind2 (fun v => json_ok v -> no_raw v)); try (intros; exact I).
  - intros l H. exact H.
  - intros l HP Hok. apply no_raw_arr_forall. induction l as [|x l IH]; [constructor|].
    apply json_ok_arr in Hok as [Hx Hl]. inversion HP; subst. constructor; auto.
  - intros l HP Hok. apply no_raw_obj_forall. induction l as [|x l IH]; [constructor|].
    apply json_ok_obj in Hok as [[_ Hx] Hl]. inversion HP; subst. constructor; auto.
Qed.

(* on values with valid UTF-8 everywhere nothing is changed *)
Lemma san_id : forall v, json_ok v -> san v = v.
Proof.
  apply (json_ind2 (fun v => json_ok v -> san v = v)); try reflexivity.
  - intros s H. simpl in *. rewrite sanitize_id by assumption. reflexivity.
  - intros l HP Hok. cbn [san]. f_equal. induction l as [|x l IH]; [reflexivity|].
    apply json_ok_arr in Hok as [Hx Hl]. inversion HP; subst. cbn [map]. f_equal; auto.
  - intros l HP Hok. cbn [san]. f_equal. induction l as [|[k x] l IH]; [reflexivity|].
    apply json_ok_obj in Hok as [[Hk Hx] Hl]. inversion HP; subst. cbn [map fst snd] in *. rewrite sanitize_id by assumption.
    f_equal; [f_equal|]; auto.
Qed.

Lemma cost_san : forall v, cost (san v) = cost v.
Proof.
  apply (json_ind2 (fun v => cost (san v) = cost v)); try reflexivity.
  - intros l HP. cbn [san]. rewrite !cost_arr. f_equal. induction HP as [|x l Hx _ IH]; [reflexivity|].
    cbn [map elems_cost fold_right]. unfold elems_cost in IH. rewrite Hx, IH. reflexivity.
  - intros l HP. cbn [san]. rewrite !cost_obj. f_equal. induction HP as [|x l Hx _ IH]; [reflexivity|].
    cbn [map membs_cost fold_right snd]. unfold membs_cost in IH. rewrite Hx, IH. reflexivity.
Qed.

Section RoundTripAny.
  Variable nl : nat -> bytes.
  Variable csp : bytes.
  Hypothesis nl_ws : forall d, ws_only (nl d).
  Hypothesis csp_ws : ws_only csp.

  Notation pr := (print_json nl csp).

  Lemma print_head_any d v : no_raw v -> exists c t, pr d v = c :: t /\ is_ws c = false /\ (c =? 93) = false /\ (c =? 125) = false.
  Proof.
    intros Hok. destruct v as [ | [|] | z | l | s | [|x l] | [|kx l]]; simpl in Hok;
      try (eexists; eexists; split; [reflexivity | repeat split; reflexivity]).
    - destruct (dec_head z) as (c & t & Hd & Hc). exists c, t. split; [exact Hd|].
      destruct Hc as [-> | Hc]; [repeat split; reflexivity|]. unfold is_digit in Hc. unfold is_ws. repeat split; lia.
    - contradiction.
  Qed.

  Definition PA (v : json) : Prop :=
    no_raw v -> forall d fuel R, (cost v <= fuel)%nat -> num_stop R = true ->
    parse_value fuel (pr d v ++ R) = Ok (san v, R).

  Lemma elements_any d : forall l, l <> [] -> Forall PA l -> no_raw (JArr l) ->
    forall fuel R, (elems_cost cost l <= fuel)%nat ->
    parse_elements fuel (join [44] (map (elem_text nl csp d) l) ++ nl d ++ 93 :: R) = Ok (map san l, R).
  Proof.
    induction l as [|x l IH]; intros Hne HP Hok fuel R Hf; [congruence|].
    apply no_raw_arr in Hok as [Hx Hl]. inversion HP as [|? ? Px Pl]; subst.
    unfold elems_cost in Hf. cbn [fold_right] in Hf. fold (elems_cost cost l) in Hf.
    destruct fuel as [|k]; [lia|]. cbn [parse_elements].
    destruct l as [|y l'].
    - cbn [map join]. unfold elem_text at 1. rewrite <- !app_assoc. rewrite parse_value_ws by apply nl_ws.
      rewrite (Px Hx (S d) k (nl d ++ 93 :: R)); [|simpl in Hf; lia | apply num_stop_ws; [apply nl_ws | tauto]].
      cbn [bind]. rewrite skip_ws_app by apply nl_ws. reflexivity.
    - rewrite join_map_cons2. unfold elem_text at 1. rewrite <- !app_assoc.
      rewrite parse_value_ws by apply nl_ws.
      rewrite (Px Hx (S d) k); [|lia | reflexivity].
      cbn [bind app]. rewrite skip_ws_nonws by reflexivity.
      rewrite (IH ltac:(discriminate) Pl Hl k R ltac:(lia)). reflexivity.
  Qed.

  Lemma members_any d : forall l, l <> [] -> Forall (fun kx => PA (snd kx)) l -> no_raw (JObj l) ->
    forall fuel R, (membs_cost cost l <= fuel)%nat ->
    parse_members fuel (join [44] (map (memb_text nl csp d) l) ++ nl d ++ 125 :: R)
    = Ok (map (fun kx => (sanitize (fst kx), san (snd kx))) l, R).
  Proof.
    induction l as [|[key x] l IH]; intros Hne HP Hok fuel R Hf; [congruence|].
    apply no_raw_obj in Hok as [Hx Hl]. inversion HP as [|? ? Px Pl]; subst. cbn [fst snd] in *.
    unfold membs_cost in Hf. cbn [fold_right snd] in Hf. fold (membs_cost cost l) in Hf.
    destruct fuel as [|k]; [lia|].
    assert (Hstep : forall rest, num_stop rest = true ->
              parse_members (S k) (memb_text nl csp d (key, x) ++ rest) =
              match skip_ws rest with
              | 44 :: r' => let* (l0, r'') := parse_members k r' in Ok ((sanitize key, san x) :: l0, r'')
              | 125 :: r' => Ok ([(sanitize key, san x)], r')
              | _ => syntax_err
              end).
    { intros rest Hrest. unfold memb_text. cbn [fst snd]. rewrite <- !app_assoc.
      rewrite parse_members_ws by apply nl_ws. cbn [parse_members].
      rewrite encode_string_shape. cbn [app]. rewrite skip_ws_nonws by reflexivity.
      rewrite <- app_assoc. cbn [app].
      rewrite read_encoded_any. cbn [bind].
      rewrite skip_ws_nonws by reflexivity.
      rewrite parse_value_ws by apply csp_ws.
      rewrite (Px Hx (S d) k rest); [|lia | assumption]. reflexivity. }
    destruct l as [|y l'].
    - cbn [map join]. rewrite Hstep by (apply num_stop_ws; [apply nl_ws | tauto]).
      rewrite skip_ws_app by apply nl_ws. reflexivity.
    - rewrite join_map_cons2. rewrite <- !app_assoc. rewrite Hstep by reflexivity.
      cbn [app]. rewrite skip_ws_nonws by reflexivity.
      rewrite (IH ltac:(discriminate) Pl Hl k R ltac:(lia)). reflexivity.
  Qed.

  Lemma parse_print_any_all : forall v, PA v.
  Proof.
    apply json_ind2; unfold PA.
    - intros _ d fuel R Hf _. destruct fuel; [simpl in Hf; lia|]. reflexivity.
    - intros b _ d fuel R Hf _. destruct fuel; [simpl in Hf; lia|]. destruct b; reflexivity.
    - intros z _ d fuel R Hf Hs. exact (parse_print_all nl csp nl_ws csp_ws (JNum z) I d fuel R Hf Hs).
    - intros l Hok. simpl in Hok. contradiction.
    - intros s Hok d fuel R Hf _. destruct fuel as [|k]; [simpl in Hf; lia|].
      cbn [print_json print_atom]. rewrite encode_string_shape. cbn [app parse_value].
      rewrite skip_ws_nonws by reflexivity. change (34 =? 123) with false. change (34 =? 91) with false.
      change (34 =? 34) with true. cbv iota.
      rewrite <- app_assoc. cbn [app]. rewrite read_encoded_any. reflexivity.
    - intros l HP Hok d fuel R Hf _. rewrite cost_arr in Hf. destruct fuel as [|k]; [lia|].
      destruct l as [|x l].
      + reflexivity.
      + assert (Hpr : pr d (JArr (x :: l)) = 91 :: join [44] (map (elem_text nl csp d) (x :: l)) ++ nl d ++ [93]) by reflexivity.
        rewrite Hpr. cbn [app parse_value]. rewrite skip_ws_nonws by reflexivity.
        change (91 =? 123) with false. change (91 =? 91) with true. cbv iota.
        rewrite <- !app_assoc. cbn [app].
        pose proof (elements_any d (x :: l) ltac:(discriminate) HP Hok k R ltac:(lia)) as He.
        apply no_raw_arr in Hok as [Hx _].
        destruct (print_head_any (S d) x Hx) as (c & t & Hc & Hws & H93 & _).
        assert (Hsk : exists t', skip_ws (join [44] (map (elem_text nl csp d) (x :: l)) ++ nl d ++ 93 :: R) = c :: t').
        { destruct l as [|y l'].
          - cbn [map join]. unfold elem_text. rewrite <- !app_assoc. rewrite skip_ws_app by apply nl_ws.
            rewrite Hc. cbn [app]. rewrite skip_ws_nonws by assumption. eexists; reflexivity.
          - rewrite join_map_cons2. unfold elem_text at 1. rewrite <- !app_assoc.
            rewrite skip_ws_app by apply nl_ws. rewrite Hc. cbn [app]. rewrite skip_ws_nonws by assumption.
            eexists; reflexivity. }
        destruct Hsk as (t' & ->). rewrite H93. rewrite He. reflexivity.
    - intros l HP Hok d fuel R Hf _. rewrite cost_obj in Hf. destruct fuel as [|k]; [lia|].
      destruct l as [|kx l].
      + reflexivity.
      + assert (Hpr : pr d (JObj (kx :: l)) = 123 :: join [44] (map (memb_text nl csp d) (kx :: l)) ++ nl d ++ [125]) by reflexivity.
        rewrite Hpr. cbn [app parse_value]. rewrite skip_ws_nonws by reflexivity.
        change (123 =? 123) with true. cbv iota.
        rewrite <- !app_assoc. cbn [app].
        pose proof (members_any d (kx :: l) ltac:(discriminate) HP Hok k R ltac:(lia)) as He.
        assert (Hsk : exists t', skip_ws (join [44] (map (memb_text nl csp d) (kx :: l)) ++ nl d ++ 125 :: R) = 34 :: t').
        { destruct l as [|y l'].
          - cbn [map join]. unfold memb_text. rewrite <- !app_assoc. rewrite skip_ws_app by apply nl_ws.
            rewrite encode_string_shape. cbn [app]. rewrite skip_ws_nonws by reflexivity. eexists; reflexivity.
          - rewrite join_map_cons2. unfold memb_text at 1. rewrite <- !app_assoc.
            rewrite skip_ws_app by apply nl_ws. rewrite encode_string_shape. cbn [app].
            rewrite skip_ws_nonws by reflexivity. eexists; reflexivity. }
        destruct Hsk as (t' & ->). change (34 =? 125) with false. cbv iota. rewrite He. reflexivity.
  Qed.

  Lemma cost_le_length_any : forall v d, no_raw v -> (S (cost v) <= 2 * length (pr d v))%nat.
  Proof.
    apply (json_ind2 (fun v => forall d, no_raw v -> (S (cost v) <= 2 * length (pr d v))%nat)).
    - intros; simpl; lia.
    - intros [|]; simpl; lia.
    - intros z d _. destruct (dec_head z) as (c & t & Hd & _). cbn [print_json print_atom cost]. rewrite Hd. simpl. lia.
    - intros l d H. simpl in H. contradiction.
    - intros s d _. cbn [print_json print_atom cost]. rewrite encode_string_shape. simpl. lia.
    - intros l HP d Hok. rewrite cost_arr. destruct l as [|x l]; [simpl; lia|].
      assert (Hpr : pr d (JArr (x :: l)) = 91 :: join [44] (map (elem_text nl csp d) (x :: l)) ++ nl d ++ [93]) by reflexivity.
      rewrite Hpr. cbn [length]. rewrite !app_length. cbn [length].
      pose proof (join_length [44] (map (elem_text nl csp d) (x :: l))) as Hj.
      assert (Hsum : (elems_cost cost (x :: l) <= 2 * fold_right (fun x a => length x + a) 0 (map (elem_text nl csp d) (x :: l)))%nat).
      { clear Hj Hpr. revert HP Hok. generalize (x :: l). intros l0 HP Hok.
        induction l0 as [|y l0 IH]; [simpl; lia|].
        apply no_raw_arr in Hok as [Hy Hl0]. inversion HP as [|? ? Py Pl0]; subst.
        specialize (IH Pl0 Hl0). specialize (Py (S d) Hy).
        unfold elems_cost in *. cbn [fold_right map]. unfold elem_text at 1. rewrite app_length.
        lia. }
      lia.
    - intros l HP d Hok. rewrite cost_obj. destruct l as [|kx l]; [simpl; lia|].
      assert (Hpr : pr d (JObj (kx :: l)) = 123 :: join [44] (map (memb_text nl csp d) (kx :: l)) ++ nl d ++ [125]) by reflexivity.
      rewrite Hpr. cbn [length]. rewrite !app_length. cbn [length].
      pose proof (join_length [44] (map (memb_text nl csp d) (kx :: l))) as Hj.
      assert (Hsum : (membs_cost cost (kx :: l) <= 2 * fold_right (fun x a => length x + a) 0 (map (memb_text nl csp d) (kx :: l)))%nat).
      { clear Hj Hpr. revert HP Hok. generalize (kx :: l). intros l0 HP Hok.
        induction l0 as [|y l0 IH]; [simpl; lia|].
        apply no_raw_obj in Hok as [Hy Hl0]. inversion HP as [|? ? Py Pl0]; subst.
        specialize (IH Pl0 Hl0). specialize (Py (S d) Hy).
        unfold membs_cost in *. cbn [fold_right map]. unfold memb_text at 1. rewrite !app_length.
        rewrite encode_string_shape. cbn [length]. lia. }
      lia.
  Qed.

  Theorem parse_print_layout_any v d w : no_raw v -> ws_only w -> parse_json (pr d v ++ w) = Ok (san v).
  Proof.
    intros Hok Hw. unfold parse_json.
    rewrite (parse_print_any_all v Hok d _ w); [| |apply num_stop_ws_only, Hw].
    - cbn [bind]. rewrite skip_ws_only by assumption. reflexivity.
    - pose proof (cost_le_length_any v d Hok). rewrite app_length. lia.
  Qed.
End RoundTripAny.

Theorem parse_print_compact_any v : no_raw v -> parse_json (print_compact v) = Ok (san v).
Proof.
  intros H. unfold print_compact. rewrite <- (app_nil_r (print_json _ _ _ _)).
  apply parse_print_layout_any; [exact nl_compact_ws | reflexivity | assumption | reflexivity].
Qed.

Theorem parse_print_pretty_any v : no_raw v -> parse_json (print_pretty v) = Ok (san v).
Proof.
  intros H. unfold print_pretty. rewrite <- (app_nil_r (print_json _ _ _ _)).
  apply parse_print_layout_any; [exact nl_indent_ws | reflexivity | assumption | reflexivity].
Qed.

(* ===================================================================== *)
(* Part C — the views as pure values; when the command panics            *)
(* ===================================================================== *)
Open Scope Z_scope.

Definition list_sum (xs : list Z) : Z := fold_right Z.add 0 xs.

(* every addition of the running total stays inside safemath's range *)
Fixpoint sums_ok (acc : Z) (xs : list Z) : bool :=
  match xs with
  | [] => true
  | x :: r => sm_ok acc && sm_ok x && sm_ok (acc + x) && sums_ok (acc + x) r
  end.

Lemma dur_plus_spec a b : dur_plus a b = if sm_ok a && sm_ok b && sm_ok (a + b) then Ok (a + b) else Crash CIntegerOverflow.
Proof. unfold dur_plus, add64. destruct (sm_ok a && sm_ok b && sm_ok (a + b)); reflexivity. Qed.

Lemma sum64_spec xs : forall acc, sum64 acc xs = if sums_ok acc xs then Ok (acc + list_sum xs) else Crash CIntegerOverflow.
Proof.
  induction xs as [|x r IH]; intros acc; cbn [sum64 sums_ok list_sum fold_right].
  - f_equal. lia.
  - rewrite dur_plus_spec. destruct (sm_ok acc && sm_ok x && sm_ok (acc + x)); [|reflexivity].
    rewrite IH. cbn [andb]. destruct (sums_ok (acc + x) r); [|reflexivity]. f_equal. unfold list_sum. lia.
Qed.

Definition entry_mins (r : record) : list Z := map entry_minutes (rec_entries r).
Definition total_of (r : record) : Z := list_sum (entry_mins r).
Definition diff_of (r : record) : Z := total_of r - should_minutes r.

(* the exact condition under which service.Total and service.Diff do not panic for a record *)
Definition record_fits (r : record) : bool :=
  sums_ok 0 (entry_mins r) && (sm_ok (total_of r) && sm_ok (- should_minutes r) && sm_ok (diff_of r)).

Lemma record_total_spec r :
  record_total r = if sums_ok 0 (entry_mins r) then Ok (total_of r) else Crash CIntegerOverflow.
Proof. unfold record_total. rewrite sum64_spec. reflexivity. Qed.

Lemma diff_spec sh t : diff sh t = if sm_ok t && sm_ok (- sh) && sm_ok (t - sh) then Ok (t - sh) else Crash CIntegerOverflow.
Proof. unfold diff. rewrite dur_plus_spec. replace (t + - sh) with (t - sh) by lia. reflexivity. Qed.

Definition tags_json (lines : list bytes) : json := JArr (map JStr (tag_strings lines)).

Lemma tag_views_spec lines : tag_views lines = Ok (tags_json lines).
Proof. unfold tag_views. destruct (go_summary_tags lines) as [H _]. rewrite H. reflexivity. Qed.

Definition entry_obj (e : entry) : json :=
  JObj (match e_value e with
        | VDuration _ => entry_base ty_duration e (tags_json (e_summary e))
        | VRange r => entry_base ty_range e (tags_json (e_summary e)) ++ start_fields (r_start r) ++ end_fields (r_end r)
        | VOpen o => entry_base ty_open_range e (tags_json (e_summary e)) ++ start_fields (o_start o)
        end).

Lemma entry_view_spec e : entry_view e = Ok (entry_obj e).
Proof. unfold entry_view. rewrite tag_views_spec. reflexivity. Qed.

Lemma map_o_ok {A B} (f : A -> outcome B) (g : A -> B) l : (forall x, f x = Ok (g x)) -> map_o f l = Ok (map g l).
Proof. intros H. induction l as [|x r IH]; [reflexivity|]. cbn [map_o map]. rewrite H, IH. reflexivity. Qed.

Definition record_obj (r : record) : json :=
  JObj [(k_date, JStr (print_date (rec_date r)));
        (k_summary, JStr (summary_text (rec_summary r)));
        (k_total, JStr (dur_text (total_of r)));
        (k_total_mins, JNum (total_of r));
        (k_should_total, JStr (should_text r));
        (k_should_total_mins, JNum (should_minutes r));
        (k_diff, JStr (print_duration_signed (mk_dur (diff_of r))));
        (k_diff_mins, JNum (diff_of r));
        (k_tags, tags_json (rec_summary r));
        (k_entries, JArr (map entry_obj (rec_entries r)))].

Lemma record_view_spec r : record_view r = if record_fits r then Ok (record_obj r) else Crash CIntegerOverflow.
Proof.
  unfold record_view, record_fits. rewrite record_total_spec.
  destruct (sums_ok 0 (entry_mins r)); [|reflexivity]. cbn [bind andb].
  rewrite diff_spec. fold (diff_of r).
  destruct (sm_ok (total_of r) && sm_ok (- should_minutes r) && sm_ok (diff_of r)); [|reflexivity].
  cbn [bind]. rewrite tag_views_spec. cbn [bind]. rewrite (map_o_ok entry_view entry_obj) by apply entry_view_spec.
  reflexivity.
Qed.

Lemma map_o_record_spec rs :
  map_o record_view rs = if forallb record_fits rs then Ok (map record_obj rs) else Crash CIntegerOverflow.
Proof.
  induction rs as [|r rs IH]; [reflexivity|]. cbn [map_o forallb map]. rewrite record_view_spec.
  destruct (record_fits r); [|reflexivity]. cbn [bind andb]. rewrite IH. destruct (forallb record_fits rs); reflexivity.
Qed.

(* ---- the value of the document, as a pure function of the inputs ---- *)

Definition all_records (inputs : list input) : list record := fst (collect inputs).
Definition all_errors (inputs : list input) : list located_error := snd (collect inputs).

Definition document (inputs : list input) : json :=
  match all_errors inputs with
  | [] => envelope (JArr (map record_obj (all_records inputs))) JNull
  | es => envelope JNull (JArr (map error_view es))
  end.

(* klog json panics exactly when there are no errors and some record does not fit *)
Definition inputs_fit (inputs : list input) : bool :=
  match all_errors inputs with
  | [] => forallb record_fits (all_records inputs)
  | _ => true
  end.

Lemma view_inputs_spec inputs :
  view_inputs inputs = if inputs_fit inputs then Ok (document inputs) else Crash CIntegerOverflow.
Proof.
  unfold view_inputs, run_args, inputs_fit, document, all_errors, all_records.
  destruct (collect inputs) as [rs es]. cbn [fst snd]. destruct es as [|e es].
  - cbn [json_value]. rewrite map_o_record_spec. destruct (forallb record_fits rs); reflexivity.
  - reflexivity.
Qed.

(* ---- the text ---- *)

Definition print_doc (pretty : bool) (v : json) : bytes := if pretty then print_pretty v else print_compact v.

Lemma drop_lf_head c s : (c =? 10)%N = false -> drop_lf (c :: s) = c :: s.
Proof. intros H. cbn [drop_lf]. rewrite H. reflexivity. Qed.

Lemma trim_right_lf_spec p c : (c =? 10)%N = false -> trim_right_lf ((p ++ [c]) ++ [10%N]) = p ++ [c].
Proof.
  intros H. unfold trim_right_lf. rewrite !rev_app_distr. cbn [rev app].
  change (drop_lf (10%N :: c :: rev p)) with (drop_lf (c :: rev p)). rewrite drop_lf_head by exact H.
  cbn [rev]. rewrite rev_involutive. reflexivity.
Qed.

Lemma print_obj_ends nl csp d kx l : exists p, print_json nl csp d (JObj (kx :: l)) = p ++ [125%N].
Proof.
  eexists. cbn [print_json]. rewrite !app_assoc. reflexivity.
Qed.

Lemma envelope_print_ends pretty a b : exists p, print_doc pretty (envelope a b) = p ++ [125%N].
Proof. unfold print_doc, print_pretty, print_compact, envelope. destruct pretty; apply print_obj_ends. Qed.

Lemma document_is_envelope inputs : exists a b, document inputs = envelope a b.
Proof. unfold document. destruct (all_errors inputs); eexists; eexists; reflexivity. Qed.

Lemma go_to_json_spec rs errs pretty :
  go_to_json rs errs pretty = let* v := json_value rs errs in Ok (print_doc pretty v).
Proof.
  unfold go_to_json. destruct (json_value rs errs) as [v| |] eqn:E; [|reflexivity|reflexivity]. cbn [bind]. f_equal.
  assert (Hv : exists a b, v = envelope a b).
  { unfold json_value in E. destruct errs as [[|e es]|].
    - inversion E. eexists; eexists; reflexivity.
    - inversion E. eexists; eexists; reflexivity.
    - destruct (map_o record_view rs); inversion E. eexists; eexists; reflexivity. }
  destruct Hv as (a & b & ->). destruct (envelope_print_ends pretty a b) as (p & Hp).
  unfold encoder_output. unfold print_doc in *. destruct pretty; rewrite Hp; apply trim_right_lf_spec; reflexivity.
Qed.

Lemma to_json_inputs_spec inputs pretty :
  to_json_inputs inputs pretty = if inputs_fit inputs then Ok (print_doc pretty (document inputs)) else Crash CIntegerOverflow.
Proof.
  pose proof (view_inputs_spec inputs) as H. unfold to_json_inputs, view_inputs in *.
  destruct (run_args inputs) as [rs errs]. rewrite go_to_json_spec, H. destruct (inputs_fit inputs); reflexivity.
Qed.

(* ---- no raw literals in a document; validity of its strings ---- *)

Lemma no_raw_strs l : no_raw (JArr (map JStr l)).
Proof. apply no_raw_arr_forall, Forall_forall. intros x Hx. apply in_map_iff in Hx as (s & <- & _). exact I. Qed.

Lemma no_raw_entry e : no_raw (entry_obj e).
Proof.
  unfold entry_obj, entry_base, start_fields, end_fields, tags_json.
  destruct (e_value e); cbn [app]; apply no_raw_obj_forall; repeat constructor; apply no_raw_strs.
Qed.

Lemma no_raw_record r : no_raw (record_obj r).
Proof.
  unfold record_obj, tags_json. apply no_raw_obj_forall. repeat constructor; cbn [snd]; try apply no_raw_strs.
  apply no_raw_arr_forall, Forall_forall. intros x Hx. apply in_map_iff in Hx as (e & <- & _). apply no_raw_entry.
Qed.

Lemma no_raw_error fe : no_raw (error_view fe).
Proof. destruct fe as [f e]. unfold error_view. apply no_raw_obj_forall. repeat constructor. Qed.

Lemma no_raw_document inputs : no_raw (document inputs).
Proof.
  assert (Hr : forall rs, no_raw (JArr (map record_obj rs))).
  { intros rs. apply no_raw_arr_forall, Forall_forall. intros x Hx. apply in_map_iff in Hx as (r & <- & _). apply no_raw_record. }
  assert (He : forall es, no_raw (JArr (map error_view es))).
  { intros es. apply no_raw_arr_forall, Forall_forall. intros x Hx. apply in_map_iff in Hx as (r & <- & _). apply no_raw_error. }
  unfold document, envelope. destruct (all_errors inputs) as [|e es]; apply no_raw_obj_forall.
  - constructor; [apply Hr | constructor; [exact I | constructor]].
  - constructor; [exact I | constructor; [apply He | constructor]].
Qed.

(* the document parses back, compact or pretty, with or without the final newline of stdout *)
Lemma parse_print_doc pretty v : no_raw v -> parse_json (print_doc pretty v) = Ok (san v).
Proof. intros H. destruct pretty; [apply parse_print_pretty_any | apply parse_print_compact_any]; exact H. Qed.

Lemma parse_print_doc_stdout pretty v : no_raw v -> parse_json (json_stdout (print_doc pretty v)) = Ok (san v).
Proof.
  intros H. unfold json_stdout, print_doc, print_pretty, print_compact. destruct pretty.
  - apply parse_print_layout_any; [exact nl_indent_ws | reflexivity | assumption | reflexivity].
  - apply parse_print_layout_any; [exact nl_compact_ws | reflexivity | assumption | reflexivity].
Qed.

Theorem wellformed_inputs inputs pretty out : to_json_inputs inputs pretty = Ok out ->
  view_inputs inputs = Ok (document inputs) /\ out = print_doc pretty (document inputs) /\
  parse_json out = Ok (san (document inputs)) /\ parse_json (json_stdout out) = Ok (san (document inputs)).
Proof.
  rewrite to_json_inputs_spec, view_inputs_spec. destruct (inputs_fit inputs); [|discriminate].
  intros [= <-]. pose proof (no_raw_document inputs) as Hn. repeat split.
  - apply parse_print_doc, Hn.
  - apply parse_print_doc_stdout, Hn.
Qed.

(* the command never ends in an error value, and panics only with an integer overflow, exactly when
   there are no syntax errors and some record's total or diff leaves safemath's range *)
Theorem to_json_total inputs pretty :
  (inputs_fit inputs = true /\ to_json_inputs inputs pretty = Ok (print_doc pretty (document inputs))) \/
  (inputs_fit inputs = false /\ to_json_inputs inputs pretty = Crash CIntegerOverflow).
Proof. rewrite to_json_inputs_spec. destruct (inputs_fit inputs); [left | right]; split; reflexivity. Qed.

(* ---- exactly one of records / errors is null ---- *)

Theorem envelope_xor_inputs inputs :
  exists recs errs, document inputs = JObj [(k_records, recs); (k_errors, errs)] /\
    ((errs = JNull /\ exists l, recs = JArr l /\ l = map record_obj (all_records inputs) /\ all_errors inputs = []) \/
     (recs = JNull /\ exists l, errs = JArr l /\ l <> [] /\ l = map error_view (all_errors inputs))).
Proof.
  unfold document, envelope. destruct (all_errors inputs) as [|e es] eqn:E.
  - eexists; eexists; split; [reflexivity|]. left. split; [reflexivity|]. eexists; repeat split.
  - eexists; eexists; split; [reflexivity|]. right. split; [reflexivity|]. eexists; repeat split. discriminate.
Qed.

(* ===================================================================== *)
(* Part D — the arithmetic relations between the members                 *)
(* ===================================================================== *)

Definition type_name (e : entry) : bytes :=
  match e_value e with VDuration _ => ty_duration | VRange _ => ty_range | VOpen _ => ty_open_range end.

Lemma entry_type_field e : str_field k_type (entry_obj e) = Some (type_name e).
Proof. unfold entry_obj, type_name. destruct (e_value e); reflexivity. Qed.

Lemma entry_total_field e : num_field k_total_mins (entry_obj e) = Some (entry_minutes e).
Proof. unfold entry_obj. destruct (e_value e); reflexivity. Qed.

Lemma entry_summary_field e : str_field k_summary (entry_obj e) = Some (summary_text (e_summary e)).
Proof. unfold entry_obj. destruct (e_value e); reflexivity. Qed.

Lemma entry_tags_field e : arr_field k_tags (entry_obj e) = Some (map JStr (tag_strings (e_summary e))).
Proof. unfold entry_obj. destruct (e_value e); reflexivity. Qed.

Lemma all_some_map {A B} (f : A -> option B) (g : A -> B) l : (forall x, f x = Some (g x)) -> all_some (map f l) = Some (map g l).
Proof. intros H. induction l as [|x r IH]; [reflexivity|]. cbn [map all_some]. rewrite H, IH. reflexivity. Qed.

Lemma all_some_map_in {A B} (f : A -> option B) (g : A -> B) l :
  (forall x, In x l -> f x = Some (g x)) -> all_some (map f l) = Some (map g l).
Proof.
  induction l as [|x r IH]; intros H; [reflexivity|]. cbn [map all_some].
  rewrite (H x (or_introl eq_refl)), IH; [reflexivity|]. intros y Hy. apply H. right. exact Hy.
Qed.

(* the members of a record object and of its entry objects, and how they are related *)
Theorem arithmetic_record r v : record_view r = Ok v ->
  exists es,
    arr_field k_entries v = Some es /\
    num_field k_total_mins v = Some (total_of r) /\
    num_field k_should_total_mins v = Some (should_minutes r) /\
    num_field k_diff_mins v = Some (diff_of r) /\
    all_some (map (num_field k_total_mins) es) = Some (entry_mins r) /\
    total_of r = list_sum (entry_mins r) /\
    diff_of r = total_of r - should_minutes r /\
    Forall (fun e => str_field k_type e = Some ty_range ->
              exists a b, num_field k_start_mins e = Some a /\ num_field k_end_mins e = Some b /\
                          num_field k_total_mins e = Some (b - a)) es.
Proof.
  rewrite record_view_spec. destruct (record_fits r); [|discriminate]. intros [= <-].
  exists (map entry_obj (rec_entries r)). repeat split.
  - rewrite map_map. apply all_some_map. apply entry_total_field.
  - apply Forall_forall. intros x Hx. apply in_map_iff in Hx as (e & <- & _).
    unfold entry_obj. destruct (e_value e) as [d|rg|o] eqn:Ev.
    + intros H. cbv in H. discriminate.
    + intros _. exists (time_offset (r_start rg)), (time_offset (r_end rg)). repeat split.
      unfold entry_base. cbn [app]. unfold num_field, field. cbn. unfold entry_minutes. rewrite Ev. reflexivity.
    + intros H. cbv in H. discriminate.
Qed.

(* ===================================================================== *)
(* Part E — the record objects determine the data                        *)
(* ===================================================================== *)

Definition no_lf (s : bytes) : Prop := ~ In 10%N s.

(* what the parser guarantees of a record (Part G), and all that decoding needs *)
Definition wf_value (v : evalue) : Prop :=
  match v with
  | VDuration _ => True
  | VRange r => valid_time (r_start r) /\ valid_time (r_end r)
  | VOpen o => valid_time (o_start o)
  end.
Definition wf_entry (e : entry) : Prop := wf_value (e_value e) /\ e_summary e <> [] /\ Forall no_lf (e_summary e).
Definition wf_record (r : record) : Prop :=
  valid_cdate (dt (rec_date r)) = true /\
  Forall (fun l => l <> [] /\ no_lf l) (rec_summary r) /\
  Forall wf_entry (rec_entries r).

Lemma split_byte_none c x : ~ In c x -> forall cur, split_byte c x cur = [rev cur ++ x].
Proof.
  induction x as [|y x IH]; intros Hn cur; cbn [split_byte]; [rewrite app_nil_r; reflexivity|].
  destruct (N.eqb_spec y c) as [->|Hne]; [exfalso; apply Hn; left; reflexivity|].
  rewrite IH by (intros H; apply Hn; right; exact H). cbn [rev]. rewrite <- app_assoc. reflexivity.
Qed.

Lemma split_byte_first c x rest : ~ In c x -> forall cur,
  split_byte c (x ++ c :: rest) cur = (rev cur ++ x) :: split_byte c rest [].
Proof.
  induction x as [|y x IH]; intros Hn cur; cbn [split_byte app].
  - rewrite N.eqb_refl, app_nil_r. reflexivity.
  - destruct (N.eqb_spec y c) as [->|Hne]; [exfalso; apply Hn; left; reflexivity|].
    rewrite IH by (intros H; apply Hn; right; exact H). cbn [rev]. rewrite <- app_assoc. reflexivity.
Qed.

Lemma split_join l : l <> [] -> Forall no_lf l -> split_on_byte 10 (join lf l) = l.
Proof.
  unfold split_on_byte. induction l as [|x l IH]; intros Hne Hl; [congruence|].
  inversion Hl as [|? ? Hx Hr]; subst. destruct l as [|y l].
  - cbn [join]. apply split_byte_none. exact Hx.
  - change (join lf (x :: y :: l)) with (x ++ 10%N :: join lf (y :: l)).
    rewrite split_byte_first by exact Hx. cbn [rev app]. f_equal. apply IH; [discriminate | exact Hr].
Qed.

Lemma entry_lines_spec l : l <> [] -> Forall no_lf l -> entry_lines (summary_text l) = l.
Proof. apply split_join. Qed.

Lemma record_lines_spec l : Forall (fun x => x <> [] /\ no_lf x) l -> record_lines (summary_text l) = l.
Proof.
  intros H. destruct l as [|x l]; [reflexivity|].
  assert (Hl : Forall no_lf (x :: l)) by (eapply Forall_impl; [|exact H]; intros a [_ Ha]; exact Ha).
  unfold record_lines, summary_text.
  destruct (join lf (x :: l)) as [|c t] eqn:E.
  - exfalso. inversion H as [|? ? [Hx _] _]; subst. destruct x as [|c x]; [congruence|].
    destruct l; cbn in E; discriminate.
  - rewrite <- E. apply split_join; [discriminate | exact Hl].
Qed.

Lemma strings_of_strs l : strings_of (map JStr l) = Some l.
Proof. unfold strings_of. rewrite map_map. rewrite (all_some_map (fun x => string_of (JStr x)) (fun x => x)) by reflexivity.
  rewrite map_id. reflexivity. Qed.

Lemma should_of_spec r : should_of (should_text r) (should_minutes r) = rec_should r.
Proof.
  unfold should_of, should_text, should_minutes. destruct (rec_should r) as [m|]; [|reflexivity].
  rewrite last_last. reflexivity.
Qed.

Lemma time_of_print t : valid_time t -> time_of (print_time t) = Some t.
Proof. intros H. unfold time_of. rewrite time_roundtrip by exact H. reflexivity. Qed.

Lemma date_of_print d : valid_cdate (dt d) = true -> date_of (print_date d) = Some d.
Proof. intros H. unfold date_of. rewrite date_roundtrip by exact H. reflexivity. Qed.

Lemma of_entry_view_spec e : wf_entry e -> of_entry_view (entry_obj e) = Some (entry_data_of e).
Proof.
  intros (Hv & Hne & Hlf). unfold of_entry_view.
  rewrite entry_type_field, entry_summary_field, entry_tags_field, entry_total_field, strings_of_strs.
  rewrite entry_lines_spec by assumption.
  unfold entry_data_of, type_name, value_data_of, entry_obj, time_field. unfold wf_value in Hv.
  destruct (e_value e) as [d|rg|o] eqn:Ev.
  - change (bytes_eqb ty_duration ty_duration) with true. cbv iota. unfold entry_minutes. rewrite Ev. reflexivity.
  - change (bytes_eqb ty_range ty_duration) with false. change (bytes_eqb ty_range ty_open_range) with false.
    change (bytes_eqb ty_range ty_range) with true. cbv iota. destruct Hv as [Ha Hb].
    change (str_field k_start (JObj (entry_base ty_range e (tags_json (e_summary e)) ++ start_fields (r_start rg) ++ end_fields (r_end rg))))
      with (Some (print_time (r_start rg))).
    change (str_field k_end (JObj (entry_base ty_range e (tags_json (e_summary e)) ++ start_fields (r_start rg) ++ end_fields (r_end rg))))
      with (Some (print_time (r_end rg))).
    cbv iota. rewrite !time_of_print by assumption. reflexivity.
  - change (bytes_eqb ty_open_range ty_duration) with false. change (bytes_eqb ty_open_range ty_open_range) with true. cbv iota.
    change (str_field k_start (JObj (entry_base ty_open_range e (tags_json (e_summary e)) ++ start_fields (o_start o))))
      with (Some (print_time (o_start o))).
    cbv iota. rewrite time_of_print by assumption. reflexivity.
Qed.

(* the decoding recovers the data of a well-formed record from its object *)
Theorem of_view_record_obj r : wf_record r -> of_view (record_obj r) = Some (data_of r).
Proof.
  intros (Hd & Hs & He). unfold of_view.
  change (str_field k_date (record_obj r)) with (Some (print_date (rec_date r))).
  change (str_field k_summary (record_obj r)) with (Some (summary_text (rec_summary r))).
  change (str_field k_should_total (record_obj r)) with (Some (should_text r)).
  change (num_field k_should_total_mins (record_obj r)) with (Some (should_minutes r)).
  change (arr_field k_tags (record_obj r)) with (Some (map JStr (tag_strings (rec_summary r)))).
  change (arr_field k_entries (record_obj r)) with (Some (map entry_obj (rec_entries r))).
  cbv iota. rewrite date_of_print by exact Hd. rewrite strings_of_strs. rewrite map_map.
  rewrite (all_some_map_in (fun x => of_entry_view (entry_obj x)) entry_data_of).
  - rewrite should_of_spec, record_lines_spec by exact Hs. reflexivity.
  - intros e Hin. apply of_entry_view_spec. rewrite Forall_forall in He. apply He, Hin.
Qed.

Theorem records_faithful_record r v : wf_record r -> record_view r = Ok v -> of_view v = Some (data_of r).
Proof.
  intros Hwf. rewrite record_view_spec. destruct (record_fits r); [|discriminate]. intros [= <-].
  apply of_view_record_obj, Hwf.
Qed.

(* the whole document: the data of all records of all files, in order *)
Theorem records_faithful_inputs inputs : all_errors inputs = [] -> Forall wf_record (all_records inputs) ->
  of_document (document inputs) = Some (map data_of (all_records inputs)).
Proof.
  intros He Hwf. unfold document. rewrite He. unfold of_document.
  change (arr_field k_records (envelope (JArr (map record_obj (all_records inputs))) JNull))
    with (Some (map record_obj (all_records inputs))).
  cbv iota. rewrite map_map. apply all_some_map_in. intros r Hr. apply of_view_record_obj.
  rewrite Forall_forall in Hwf. apply Hwf, Hr.
Qed.

(* with errors there is nothing to decode *)
Lemma of_document_errors inputs : all_errors inputs <> [] -> of_document (document inputs) = None.
Proof. intros H. unfold document. destruct (all_errors inputs); [congruence|]. reflexivity. Qed.

(* [data_of] forgets nothing but notation: two records with the same data differ at most in the dash spacing,
   the placeholder length and the sign notation of durations *)
Definition same_value (a b : evalue) : Prop :=
  match a, b with
  | VDuration x, VDuration y => d_mins x = d_mins y
  | VRange x, VRange y => r_start x = r_start y /\ r_end x = r_end y
  | VOpen x, VOpen y => o_start x = o_start y
  | _, _ => False
  end.

Lemma value_data_inj a b : value_data_of a = value_data_of b <-> same_value a b.
Proof.
  destruct a as [x|x|x], b as [y|y|y]; cbn [value_data_of same_value]; split; intros H;
    try discriminate; try contradiction.
  - injection H as H. exact H.
  - rewrite H. reflexivity.
  - injection H as H1 H2. split; assumption.
  - destruct H as [H1 H2]. rewrite H1, H2. reflexivity.
  - injection H as H. exact H.
  - rewrite H. reflexivity.
Qed.

Theorem data_of_injective r1 r2 : data_of r1 = data_of r2 <->
  rec_date r1 = rec_date r2 /\ rec_should r1 = rec_should r2 /\ rec_summary r1 = rec_summary r2 /\
  Forall2 (fun e1 e2 => same_value (e_value e1) (e_value e2) /\ e_summary e1 = e_summary e2) (rec_entries r1) (rec_entries r2).
Proof.
  unfold data_of. split.
  - intros H. injection H as Hd Hs Hsu _ He. repeat split; try assumption.
    revert He. generalize (rec_entries r2). induction (rec_entries r1) as [|e1 l1 IH]; intros [|e2 l2] He; try discriminate; constructor.
    + cbn [map] in He. injection He as Hv Hsum _ _. split; [apply value_data_inj, Hv | exact Hsum].
    + apply IH. cbn [map] in He. injection He as _ _ _ Hr. exact Hr.
  - intros (Hd & Hs & Hsu & He). rewrite Hd, Hs, Hsu. f_equal.
    induction He as [|e1 e2 l1 l2 [Hv Hsum] _ IH]; [reflexivity|]. cbn [map]. rewrite IH. f_equal.
    unfold entry_data_of. apply value_data_inj in Hv. rewrite Hv, Hsum. reflexivity.
Qed.

(* ===================================================================== *)
(* Part F — error objects and the terminal report                        *)
(* ===================================================================== *)

Lemma error_view_fields file e :
  num_field k_line (error_view (file, e)) = Some (Z.of_nat (re_line e) + 1) /\
  num_field k_column (error_view (file, e)) = Some (re_pos e + 1) /\
  num_field k_length (error_view (file, e)) = Some (re_len e) /\
  str_field k_title (error_view (file, e)) = Some (error_title (re_code e)) /\
  str_field k_details (error_view (file, e)) = Some (error_details (re_code e)) /\
  str_field k_file (error_view (file, e)) = Some file.
Proof.
  repeat split; try reflexivity.
  unfold error_view, num_field, field. cbn [jget]. change (bytes_eqb k_line k_line) with true. cbv iota. f_equal. f_equal. lia.
Qed.

(* ---- splitting a report block into its rows ---- *)

Lemma span_repeat c n r : match r with [] => True | x :: _ => x <> c end ->
  span (fun x => (x =? c)%N) (repeat c n ++ r) = (repeat c n, r).
Proof.
  intros Hr. induction n as [|n IH]; cbn [repeat app span].
  - destruct r as [|x r]; [reflexivity|]. cbn [span]. destruct (N.eqb_spec x c); [contradiction | reflexivity].
  - rewrite N.eqb_refl, IH. reflexivity.
Qed.

Lemma count_prefix_repeat c n r : match r with [] => True | x :: _ => x <> c end -> count_prefix c (repeat c n ++ r) = n.
Proof. intros H. unfold count_prefix. rewrite span_repeat by exact H. apply repeat_length. Qed.

Lemma skipn_repeat {A} (c : A) n r : skipn n (repeat c n ++ r) = r.
Proof. induction n; [reflexivity | exact IHn]. Qed.

Lemma no_lf_app a b : no_lf a -> no_lf b -> no_lf (a ++ b).
Proof. unfold no_lf. intros Ha Hb H. apply in_app_or in H as [H|H]; auto. Qed.

Lemma no_lf_repeat c n : c <> 10%N -> no_lf (repeat c n).
Proof. intros Hc H. apply repeat_spec in H. congruence. Qed.

Lemma no_lf_digits ds : all_digits ds = true -> no_lf ds.
Proof.
  unfold all_digits, no_lf. intros H Hin. rewrite forallb_forall in H. specialize (H _ Hin). discriminate H.
Qed.

Lemma no_lf_tabs s : no_lf s -> no_lf (tabs_to_spaces s).
Proof.
  unfold no_lf, tabs_to_spaces. intros H Hin. apply in_map_iff in Hin as (c & Hc & Hin).
  destruct (c =? 9)%N eqn:E; [discriminate Hc|]. subst c. exact (H Hin).
Qed.

Lemma dec_nat n : dec (Z.of_nat n) = dec_nonneg (Z.of_nat n).
Proof. unfold dec. destruct (Z.of_nat n <? 0) eqn:E; [lia | reflexivity]. Qed.

Definition header_row (file : bytes) (e : rerr) : bytes :=
  b!"[SYNTAX ERROR] in line " ++ dec (Z.of_nat (S (re_line e))) ++ match file with [] => [] | _ => b!" of file " ++ file end.
Definition quoted_row (e : rerr) : bytes := indent4 ++ tabs_to_spaces (re_text e).
Definition caret_row (e : rerr) : bytes := indent4 ++ repeat 32%N (Z.to_nat (re_pos e)) ++ repeat 94%N (Z.to_nat (re_len e)).
Definition message_rows (e : rerr) : bytes := reflow 80 (error_message (re_code e)) [indent4].

(* the block of one error: an empty row, the header, the quoted line, the caret row, the re-flowed message *)
Lemma report_block_rows file e : 0 <= re_pos e -> 0 <= re_len e ->
  report_block (file, e) = Ok (lf ++ header_row file e ++ lf ++ quoted_row e ++ lf ++ caret_row e ++ lf ++ message_rows e ++ lf).
Proof.
  intros Hp Hl. unfold report_block, repeat_z.
  destruct (re_pos e <? 0) eqn:E1; [lia|]. destruct (re_len e <? 0) eqn:E2; [lia|]. cbn [bind].
  unfold header_row, quoted_row, caret_row, message_rows. rewrite <- !app_assoc. reflexivity.
Qed.

Lemma Ok_inj {A} (a b : A) : Ok a = Ok b -> a = b.
Proof. intros H. injection H as H. exact H. Qed.

Theorem read_block_spec file e blk : no_lf file -> no_lf (re_text e) -> 0 <= re_pos e -> 0 <= re_len e ->
  report_block (file, e) = Ok blk ->
  read_block blk = Some {| rn_line := Z.of_nat (re_line e) + 1; rn_offset := re_pos e; rn_count := re_len e |}.
Proof.
  intros Hf Ht Hp Hl. rewrite report_block_rows by assumption. intros H. apply Ok_inj in H. subst blk.
  destruct (dec_nonneg_spec (Z.of_nat (S (re_line e))) ltac:(lia)) as (Hd1 & Hd2 & _).
  assert (Hh : no_lf (header_row file e)).
  { unfold header_row. apply no_lf_app; [intros H; cbv in H; intuition discriminate|].
    apply no_lf_app; [rewrite dec_nat; apply no_lf_digits, Hd1|].
    destruct file as [|c f]; [intros []|]. apply no_lf_app; [intros H; cbv in H; intuition discriminate | exact Hf]. }
  assert (Hq : no_lf (quoted_row e)).
  { unfold quoted_row. apply no_lf_app; [intros H; cbv in H; intuition discriminate | apply no_lf_tabs, Ht]. }
  assert (Hc : no_lf (caret_row e)).
  { unfold caret_row. apply no_lf_app; [intros H; cbv in H; intuition discriminate|].
    apply no_lf_app; apply no_lf_repeat; discriminate. }
  unfold read_block, split_on_byte.
  change (lf ++ header_row file e ++ lf ++ quoted_row e ++ lf ++ caret_row e ++ lf ++ message_rows e ++ lf)
    with ([] ++ 10%N :: (header_row file e ++ 10%N :: (quoted_row e ++ 10%N :: (caret_row e ++ 10%N :: (message_rows e ++ lf))))).
  rewrite split_byte_first by (intros []). rewrite split_byte_first by exact Hh.
  rewrite split_byte_first by exact Hq. rewrite split_byte_first by exact Hc. cbn [rev app].
  f_equal.
  (* the header row *)
  assert (Hsk : skipn (length b!"[SYNTAX ERROR] in line ") (header_row file e)
                = dec (Z.of_nat (S (re_line e))) ++ match file with [] => [] | _ => b!" of file " ++ file end).
  { unfold header_row. apply skipn_app_exact. }
  rewrite Hsk, dec_nat. rewrite span_digits; [| exact Hd1 | destruct file; reflexivity].
  rewrite Hd2.
  (* the caret row *)
  assert (Hrow : skipn 4 (caret_row e) = repeat 32%N (Z.to_nat (re_pos e)) ++ repeat 94%N (Z.to_nat (re_len e))) by reflexivity.
  rewrite Hrow. rewrite count_prefix_repeat.
  2:{ destruct (Z.to_nat (re_len e)); cbn [repeat]; [exact I | discriminate]. }
  rewrite skipn_repeat.
  rewrite <- (app_nil_r (repeat 94%N (Z.to_nat (re_len e)))). rewrite count_prefix_repeat by exact I.
  rewrite !Z2Nat.id by assumption. rewrite Nat2Z.inj_succ. unfold Z.succ. reflexivity.
Qed.

(* ===================================================================== *)
(* Part G — what the parser hands over                                   *)
(* ===================================================================== *)
Open Scope nat_scope.

(* a summary line as the JSON view needs it: valid UTF-8 without line feed *)
Definition good_line (s : bytes) : Prop := valid_utf8 s /\ no_lf s.

Definition rune_ok (r : N) : Prop := is_scalar r = true /\ r <> 10%N.

Lemma str_good rs : Forall rune_ok rs -> good_line (str rs).
Proof.
  intros H. split.
  - apply valid_utf8_runes. exists rs. split; [|reflexivity].
    eapply Forall_impl; [|exact H]. intros r [Hr _]. apply is_scalar_scalar, Hr.
  - unfold no_lf, str, utf8_encode. intros Hin. apply in_flat_map in Hin as (r & Hr & Hin).
    rewrite Forall_forall in H. destruct (H r Hr) as [_ Hne].
    destruct (encode_rune_bytes r) as [[_ E] | [_ E]].
    + rewrite E in Hin. destruct Hin as [Hin|[]]. congruence.
    + rewrite Forall_forall in E. specialize (E _ Hin). lia.
Qed.

Lemma str_nonempty rs : rs <> [] -> str rs <> [].
Proof.
  destruct rs as [|r rs]; [congruence|]. intros _. unfold str. rewrite utf8_encode_cons.
  pose proof (encode_rune_nonempty r). destruct (encode_rune r); [congruence | discriminate].
Qed.

Lemma decode_runes_ok t : no_lf t -> Forall rune_ok (utf8_decode t).
Proof.
  intros Ht. pose proof (utf8_decode_scalar t) as Hs. pose proof (decode_syms_no_newline t Ht) as Hn.
  rewrite utf8_decode_syms in *. unfold no_newline in Hn.
  rewrite Forall_forall in *. intros r Hr. split; [apply Hs, Hr|].
  apply in_map_iff in Hr as (x & <- & Hx). apply Hn, Hx.
Qed.

Lemma Forall_skipn {A} (P : A -> Prop) n l : Forall P l -> Forall P (skipn n l).
Proof. revert l. induction n; intros l H; [exact H|]. destruct l; [constructor|]. inversion H; subst. apply IHn. assumption. Qed.

Lemma good_line_nil : good_line [].
Proof. split; [reflexivity | intros []]. Qed.

(* ---- times and dates the value parsers return ---- *)

Lemma parse_time_valid s t : parse_time s = Ok t -> valid_time t.
Proof.
  unfold parse_time. destruct (match_time s) as [m|]; [|discriminate].
  destruct (tm_lt m && tm_gt m); [discriminate|].
  set (shift := (if tm_lt m then -1 else if tm_gt m then 1 else 0)%Z).
  assert (Hs : (-1 <= shift <= 1)%Z) by (unfold shift; destruct (tm_lt m), (tm_gt m); lia).
  destruct (tm_ampm m).
  - apply new_time_valid, Hs.
  - destruct (_ || _); [discriminate|]. apply new_time_valid, Hs.
  - destruct (_ || _); [discriminate|]. apply new_time_valid, Hs.
Qed.

Lemma parse_date_valid s d : parse_date s = Ok d -> valid_cdate (dt d) = true.
Proof.
  unfold parse_date.
  destruct s as [|y1 [|y2 [|y3 [|y4 [|s1 [|m1 [|m2 [|s2 [|d1 [|d2 [|x s]]]]]]]]]]]; try discriminate.
  destruct (_ && _); [|discriminate]. destruct (Nat.eqb _ 1); [discriminate|].
  destruct (valid_ymd _ _ _) eqn:E; [|discriminate]. intros [= <-]. exact E.
Qed.

Lemma new_range_ends a b sp r : new_range a b sp = Ok r -> r_start r = a /\ r_end r = b.
Proof. unfold new_range. destruct (time_geb b a); [|discriminate]. intros [= <-]. split; reflexivity. Qed.

Lemma parse_entry_value_wf ln cs p0 :
  match parse_entry_value ln cs p0 with
  | EvRange r _ => valid_time (r_start r) /\ valid_time (r_end r)
  | EvOpen o _ _ => valid_time (o_start o)
  | _ => True
  end.
Proof.
  unfold parse_entry_value.
  destruct (peek_until is_space_or_tab cs p0) as [dur_cand ?].
  destruct (parser_duration (str dur_cand)); [exact I|].
  destruct (peek_until is_dash_or_space cs p0) as [start_cand ?].
  destruct (Nat.eqb (length start_cand) 0); [exact I|].
  destruct (parse_time (str start_cand)) as [start| |] eqn:Es; try exact I.
  apply parse_time_valid in Es.
  destruct (negb _); [exact I|].
  destruct (peek cs _ =? ch_q)%N.
  - destruct (peek_until is_space_or_tab cs _) as [rep ?]. destruct (forallb _ rep); [exact Es | exact I].
  - destruct (peek_until is_space_or_tab cs _) as [end_cand ?].
    destruct (Nat.eqb (length end_cand) 0); [exact I|].
    destruct (parse_time (str end_cand)) as [e| |] eqn:Ee; try exact I.
    apply parse_time_valid in Ee.
    destruct (new_range start e _) as [r| |] eqn:Er; try exact I.
    apply new_range_ends in Er as [-> ->]. split; assumption.
Qed.

(* ---- invariants of the record parser ---- *)

Definition lineP (l : line) : Prop := no_lf (l_text l).
Definition rec_line_ok (s : bytes) : Prop := s <> [] /\ good_line s.
Definition entry_ok (e : entry) : Prop :=
  wf_value (e_value e) /\ e_summary e <> [] /\ Forall good_line (e_summary e).

Lemma line_runes_ok l : lineP l -> Forall rune_ok (utf8_decode (l_text l)).
Proof. apply decode_runes_ok. Qed.

Lemma parse_summary_lines_wf : forall ls ln acc errs summary errs' style rest1 ln1,
  parse_summary_lines ln ls acc errs = (summary, errs', style, rest1, ln1) ->
  Forall lineP ls -> Forall rec_line_ok acc ->
  Forall rec_line_ok summary /\ Forall lineP rest1 /\ (errs' = [] -> errs = []).
Proof.
  induction ls as [|l rest IH]; intros ln acc errs summary errs' style rest1 ln1 H Hls Hacc;
    cbn [parse_summary_lines] in H.
  - injection H as <- <- <- <- <-. auto.
  - inversion Hls as [|? ? Hl Hrest]; subst.
    destruct (find_indentation (l_text l)).
    + injection H as <- <- <- <- <-. auto.
    + destruct (utf8_decode (l_text l)) as [|c cs] eqn:Ecs.
      * apply IH in H; [|exact Hrest|constructor]. destruct H as (H1 & H2 & H3). repeat split; try assumption.
        intros E. apply H3 in E. destruct errs; discriminate E.
      * destruct (is_zs c || (c =? 9)%N).
        -- apply IH in H; [|exact Hrest|constructor]. destruct H as (H1 & H2 & H3). repeat split; try assumption.
           intros E. apply H3 in E. destruct errs; discriminate E.
        -- apply IH in H; [exact H | exact Hrest|].
           apply Forall_app. split; [exact Hacc|]. constructor; [|constructor]. split.
           ++ apply str_nonempty. discriminate.
           ++ apply str_good. rewrite <- Ecs. apply line_runes_ok, Hl.
Qed.

Lemma parse_entry_summary_more_wf style : forall ls ln acc acc' serr rest' ln',
  parse_entry_summary_more style ln ls acc = (acc', serr, rest', ln') ->
  Forall lineP ls -> Forall good_line acc -> acc <> [] ->
  Forall good_line acc' /\ acc' <> [] /\ Forall lineP rest'.
Proof.
  induction ls as [|l rest IH]; intros ln acc acc' serr rest' ln' H Hls Hacc Hne;
    cbn [parse_entry_summary_more] in H.
  - injection H as <- <- <- <-. auto.
  - inversion Hls as [|? ? Hl Hrest]; subst.
    destruct (has_prefix (style ++ style) (l_text l)).
    + destruct (_ || _).
      * injection H as <- <- <- <-. auto.
      * apply IH in H; [exact H | exact Hrest | |].
        -- apply Forall_app. split; [exact Hacc|]. constructor; [|constructor].
           apply str_good, Forall_skipn, line_runes_ok, Hl.
        -- destruct acc; [congruence | discriminate].
    + injection H as <- <- <- <-. auto.
Qed.

Lemma first_line_good cs pos : Forall rune_ok cs ->
  let first := if is_space_or_tab (peek cs pos) then [str (skipn (S pos) cs)] else [[]] in
  Forall good_line first /\ first <> [].
Proof.
  intros H. cbv zeta. destruct (is_space_or_tab (peek cs pos)).
  - split; [|discriminate]. constructor; [|constructor]. apply str_good, Forall_skipn, H.
  - split; [|discriminate]. constructor; [apply good_line_nil | constructor].
Qed.

Lemma parse_entries_wf style : forall fuel ln ls es errs es' errs',
  parse_entries fuel style ln ls es errs = (es', errs') ->
  Forall lineP ls -> Forall entry_ok es ->
  Forall entry_ok es' /\ (errs' = [] -> errs = []).
Proof.
  induction fuel as [|k IH]; intros ln ls es errs es' errs' H Hls Hes; cbn [parse_entries] in H.
  - injection H as <- <-. auto.
  - destruct ls as [|l rest]; [injection H as <- <-; auto|].
    inversion Hls as [|? ? Hl Hrest]; subst.
    set (cs := utf8_decode (l_text l)) in *.
    assert (Hgrow : forall (x : list perr) e, x ++ [e] = [] -> False) by (intros x e E; destruct x; discriminate E).
    destruct (negb (has_prefix style (l_text l)) || is_space_or_tab (peek cs (length style))).
    { injection H as <- <-. split; [exact Hes|]. intros E. exfalso. exact (Hgrow _ _ E). }
    pose proof (parse_entry_value_wf ln cs (length style)) as Hv.
    destruct (parse_entry_value ln cs (length style)) as [e|d pos|r pos|o sp pos] eqn:Ev.
    + apply IH in H; [|exact Hrest|exact Hes]. destruct H as [H1 H2]. split; [exact H1|].
      intros E. apply H2 in E. exfalso. exact (Hgrow _ _ E).
    + (* duration *)
      set (first := if is_space_or_tab (peek cs pos) then [str (skipn (S pos) cs)] else [[]]) in *.
      assert (Hfirst : Forall good_line first /\ first <> []) by (apply first_line_good, line_runes_ok, Hl).
      destruct (parse_entry_summary_more style (S ln) rest first) as [[[summary serr] rest'] ln'] eqn:Em.
      apply parse_entry_summary_more_wf in Em as (Hs1 & Hs2 & Hs3); [|exact Hrest|apply Hfirst|apply Hfirst].
      destruct serr as [e|].
      * apply IH in H; [|exact Hs3|exact Hes]. destruct H as [H1 H2]. split; [exact H1|].
        intros E. apply H2 in E. exfalso. exact (Hgrow _ _ E).
      * apply IH in H; [exact H | exact Hs3|]. apply Forall_app. split; [exact Hes|]. constructor; [|constructor].
        split; [exact I|]. split; assumption.
    + (* range *)
      set (first := if is_space_or_tab (peek cs pos) then [str (skipn (S pos) cs)] else [[]]) in *.
      assert (Hfirst : Forall good_line first /\ first <> []) by (apply first_line_good, line_runes_ok, Hl).
      destruct (parse_entry_summary_more style (S ln) rest first) as [[[summary serr] rest'] ln'] eqn:Em.
      apply parse_entry_summary_more_wf in Em as (Hs1 & Hs2 & Hs3); [|exact Hrest|apply Hfirst|apply Hfirst].
      destruct serr as [e|].
      * apply IH in H; [|exact Hs3|exact Hes]. destruct H as [H1 H2]. split; [exact H1|].
        intros E. apply H2 in E. exfalso. exact (Hgrow _ _ E).
      * apply IH in H; [exact H | exact Hs3|]. apply Forall_app. split; [exact Hes|]. constructor; [|constructor].
        split; [exact Hv|]. split; assumption.
    + (* open range *)
      set (first := if is_space_or_tab (peek cs pos) then [str (skipn (S pos) cs)] else [[]]) in *.
      assert (Hfirst : Forall good_line first /\ first <> []) by (apply first_line_good, line_runes_ok, Hl).
      destruct (parse_entry_summary_more style (S ln) rest first) as [[[summary serr] rest'] ln'] eqn:Em.
      apply parse_entry_summary_more_wf in Em as (Hs1 & Hs2 & Hs3); [|exact Hrest|apply Hfirst|apply Hfirst].
      destruct serr as [e|].
      * apply IH in H; [|exact Hs3|exact Hes]. destruct H as [H1 H2]. split; [exact H1|].
        intros E. apply H2 in E. exfalso. exact (Hgrow _ _ E).
      * destruct (has_open_entry es).
        -- apply IH in H; [|exact Hs3|exact Hes]. destruct H as [H1 H2]. split; [exact H1|].
           intros E. apply H2 in E. exfalso. exact (Hgrow _ _ E).
        -- apply IH in H; [exact H | exact Hs3|]. apply Forall_app. split; [exact Hes|]. constructor; [|constructor].
           split; [exact Hv|]. split; assumption.
Qed.

Definition record_ok (r : record) : Prop :=
  valid_cdate (dt (rec_date r)) = true /\ Forall rec_line_ok (rec_summary r) /\ Forall entry_ok (rec_entries r).

Lemma significant_lines_sub b sig head tail : significant_lines b = (sig, head, tail) ->
  Forall lineP (b_lines b) -> Forall lineP sig.
Proof.
  unfold significant_lines. destruct (take_blank (b_lines b)) as [hd r1] eqn:E1.
  destruct (take_significant r1) as [sg r2] eqn:E2. intros [= <- _ _] H.
  apply take_blank_spec in E1 as (E1 & _). apply take_significant_spec in E2 as (E2 & _).
  rewrite E1, E2 in H. apply Forall_app in H as [_ H]. apply Forall_app in H as [H _]. exact H.
Qed.

Lemma parse_headline_date ln cs d should : parse_headline ln cs = HeadRec d should [] -> valid_cdate (dt d) = true.
Proof.
  unfold parse_headline. destruct (is_space_or_tab (peek cs 0)); [discriminate|].
  destruct (peek_until is_space_or_tab cs 0) as [date_text ?].
  destruct (parse_date (str date_text)) as [d0| |] eqn:Ed; try discriminate.
  apply parse_date_valid in Ed. intros H.
  assert (Hd : d = d0).
  { repeat match type of H with
           | (if ?c then _ else _) = _ => destruct c
           | (let '(_, _) := ?x in _) = _ => destruct x
           | match ?x with Some _ => _ | None => _ end = _ => destruct x
           end; try discriminate; injection H as H; congruence. }
  subst d. exact Ed.
Qed.

Lemma parse_record_wf b r : parse_record b = Ok (inl r) -> Forall lineP (b_lines b) -> record_ok r.
Proof.
  unfold parse_record. destruct (significant_lines b) as [[sig head] tail] eqn:Es. intros H Hb.
  pose proof (significant_lines_sub b sig head tail Es Hb) as Hsig.
  destruct sig as [|hl rest]; [discriminate|]. inversion Hsig as [|? ? Hhl Hrest]; subst.
  destruct (parse_headline head (utf8_decode (l_text hl))) as [e|d should errs0] eqn:Eh.
  - (* no record object: there is an error, so the result cannot be a record *)
    destruct (parse_summary_lines (S head) rest [] [e]) as [[[[summary errs1] style] rest1] ln1] eqn:Esl.
    apply parse_summary_lines_wf in Esl as (_ & Hr1 & He1); [|exact Hrest|constructor].
    destruct style as [st|].
    + destruct (parse_entries (length rest1) st ln1 rest1 [] errs1) as [entries errs2] eqn:Epe.
      apply parse_entries_wf in Epe as (_ & He2); [|exact Hr1|constructor].
      destruct errs2; [|discriminate]. specialize (He2 eq_refl). specialize (He1 He2). discriminate.
    + destruct errs1; [|discriminate]. specialize (He1 eq_refl). discriminate.
  - destruct (parse_summary_lines (S head) rest [] errs0) as [[[[summary errs1] style] rest1] ln1] eqn:Esl.
    apply parse_summary_lines_wf in Esl as (Hsum & Hr1 & He1); [|exact Hrest|constructor].
    destruct style as [st|].
    + destruct (parse_entries (length rest1) st ln1 rest1 [] errs1) as [entries errs2] eqn:Epe.
      apply parse_entries_wf in Epe as (Hent & He2); [|exact Hr1|constructor].
      destruct errs2; [|discriminate]. specialize (He2 eq_refl). specialize (He1 He2). subst errs0.
      injection H as <-. split; [|split; assumption]. cbn [rec_date]. exact (parse_headline_date _ _ _ _ Eh).
    + destruct errs1; [|discriminate]. specialize (He1 eq_refl). subst errs0.
      injection H as <-. split; [|split; [assumption | constructor]]. cbn [rec_date]. exact (parse_headline_date _ _ _ _ Eh).
Qed.

Lemma parse_blocks_wf : forall bs rs es rs' es', parse_blocks bs rs es = Ok (rs', es') ->
  Forall (fun b => Forall lineP (b_lines b)) bs -> Forall record_ok rs -> Forall record_ok rs'.
Proof.
  induction bs as [|b bs IH]; intros rs es rs' es' H Hbs Hrs; cbn [parse_blocks] in H.
  - injection H as <- <-. exact Hrs.
  - inversion Hbs as [|? ? Hb Hrest]; subst.
    destruct (parse_record b) as [[r|errs]| |] eqn:Er; try discriminate.
    + apply IH in H; [exact H | exact Hrest|]. apply Forall_app. split; [exact Hrs|]. constructor; [|constructor].
      exact (parse_record_wf b r Er Hb).
    + apply IH in H; [exact H | exact Hrest | exact Hrs].
Qed.

(* every line of every block of a text is one of the text's lines, hence free of line feeds *)
Lemma blocks_lines_ok s : Forall (fun b => Forall lineP (b_lines b)) (blocks_of s).
Proof.
  unfold blocks_of. destruct (blocks_prefix (lines_of s)) as (trail & Heq & _).
  apply Forall_forall. intros b Hb. apply Forall_forall. intros l Hl.
  assert (Hin : In l (lines_of s)).
  { rewrite Heq. apply in_or_app. left. unfold flatten_blocks. apply in_flat_map. exists b. split; assumption. }
  destruct (in_split _ _ Hin) as (pre & post & Hsplit).
  destruct (lines_wellformed s pre l post Hsplit) as [Hn _]. exact Hn.
Qed.

Theorem parsed_records_ok s rs bs : parse_text s = Ok (Parsed rs bs) -> Forall record_ok rs.
Proof.
  unfold parse_text, parse_lines_blocks. destruct (parse_blocks (blocks_of s) [] []) as [[rs0 es0]| |] eqn:E; try discriminate.
  destruct es0; [|discriminate]. intros [= <- _].
  apply (parse_blocks_wf _ _ _ _ _ E); [apply blocks_lines_ok | constructor].
Qed.

Lemma record_ok_wf r : record_ok r -> wf_record r.
Proof.
  intros (Hd & Hs & He). split; [exact Hd|]. split.
  - eapply Forall_impl; [|exact Hs]. intros l (Hne & _ & Hl). split; assumption.
  - eapply Forall_impl; [|exact He]. intros e (Hv & Hne & Hl). split; [exact Hv|]. split; [exact Hne|].
    eapply Forall_impl; [|exact Hl]. intros l [_ H]. exact H.
Qed.

Theorem parsed_records_wf s rs bs : parse_text s = Ok (Parsed rs bs) -> Forall wf_record rs.
Proof. intros H. eapply Forall_impl; [|exact (parsed_records_ok s rs bs H)]. apply record_ok_wf. Qed.

(* ===================================================================== *)
(* Part H — every string of a document built from parsed files is valid UTF-8 *)
(* ===================================================================== *)
Open Scope N_scope.

Definition ascii (s : bytes) : Prop := Forall (fun b => b < 128) s.

Lemma ascii_valid s : ascii s -> valid_utf8 s.
Proof. induction 1 as [|b s Hb _ IH]; [reflexivity|]. apply valid_utf8_cons_ascii; assumption. Qed.

Lemma ascii_app a b : ascii a -> ascii b -> ascii (a ++ b).
Proof. intros Ha Hb. apply Forall_app. split; assumption. Qed.

Lemma ascii_digits ds : all_digits ds = true -> ascii ds.
Proof.
  unfold all_digits, ascii. intros H. apply Forall_forall. intros c Hc. rewrite forallb_forall in H.
  specialize (H c Hc). unfold is_digit in H. lia.
Qed.

Lemma ascii_dec z : ascii (dec z).
Proof.
  unfold dec. destruct (z <? 0)%Z eqn:E.
  - constructor; [lia|]. apply ascii_digits. apply (dec_nonneg_spec (- z)%Z). lia.
  - apply ascii_digits. apply (dec_nonneg_spec z). lia.
Qed.

Lemma ascii_repeat c n : c < 128 -> ascii (repeat c n).
Proof. intros Hc. apply Forall_forall. intros x Hx. apply repeat_spec in Hx. subst. exact Hc. Qed.

Lemma ascii_pad w s : ascii s -> ascii (pad_left w s).
Proof. intros H. unfold pad_left. apply ascii_app; [apply ascii_repeat; lia | exact H]. Qed.

Ltac ascii_tac :=
  repeat first [ apply ascii_pad | apply ascii_dec | apply ascii_repeat; lia | apply ascii_app
               | match goal with |- ascii (if ?c then _ else _) => destruct c end
               | match goal with |- ascii [if ?c then _ else _] => destruct c end
               | match goal with |- ascii (_ :: _) => constructor; [unfold ch_lt, ch_gt, ch_colon, ch_a, ch_p, ch_m, ch_h, ch_minus, ch_plus, ch_slash, ch_excl; lia|] end
               | match goal with |- ascii [] => constructor end
               | match goal with |- Forall _ [] => constructor end
               | match goal with |- Forall (fun b : N => b < 128) ?l => change (ascii l) end ].

Lemma ascii_print_date d : ascii (print_date d).
Proof. unfold print_date. ascii_tac. Qed.

Lemma ascii_print_duration d : ascii (print_duration d).
Proof. unfold print_duration. ascii_tac. Qed.

Lemma ascii_print_duration_signed d : ascii (print_duration_signed d).
Proof. unfold print_duration_signed. destruct (0 <? d_mins d)%Z; [constructor; [unfold ch_plus; lia|]|]; apply ascii_print_duration. Qed.

Lemma ascii_print_time t : ascii (print_time t).
Proof.
  unfold print_time.
  destruct (if t_24h t then _ else _) as [hour ap] eqn:E.
  assert (Hap : ascii ap).
  { destruct (t_24h t); [injection E as _ <-; constructor|].
    repeat match type of E with (if ?c then _ else _) = _ => destruct c end; injection E as _ <-; ascii_tac. }
  ascii_tac; exact Hap.
Qed.

Lemma valid_join lines : Forall valid_utf8 lines -> valid_utf8 (summary_text lines).
Proof.
  unfold summary_text. induction 1 as [|x l Hx Hl IH]; [reflexivity|]. destruct l as [|y l]; [exact Hx|].
  change (join lf (x :: y :: l)) with (x ++ lf ++ join lf (y :: l)).
  apply valid_utf8_app; [exact Hx|]. apply valid_utf8_app; [reflexivity | exact IH].
Qed.

(* ---- tags ---- *)

Definition vsym (x : sym) : Prop := valid_utf8 (snd x).

Lemma valid_encode_rune r : is_scalar r = true -> valid_utf8 (encode_rune r).
Proof.
  intros H. apply valid_utf8_runes. exists [r]. split; [constructor; [apply is_scalar_scalar, H | constructor]|].
  unfold utf8_encode. cbn [flat_map]. rewrite app_nil_r. reflexivity.
Qed.

Lemma decode_syms_valid s : valid_utf8 s -> Forall vsym (decode_syms s).
Proof.
  intros H. apply valid_utf8_runes in H as (rs & Hrs & ->).
  induction Hrs as [|r rs Hr _ IH]; [constructor|].
  rewrite utf8_encode_cons. apply is_scalar_scalar in Hr.
  pose proof (decode_encode_rune r (utf8_encode rs) Hr) as Hd.
  destruct (encode_rune r) as [|b t] eqn:Ee; [exfalso; exact (encode_rune_nonempty r Ee)|].
  change ((b :: t) ++ utf8_encode rs) with (b :: t ++ utf8_encode rs) in *.
  rewrite decode_syms_cons, Hd. cbn [fst snd].
  change (b :: t ++ utf8_encode rs) with ((b :: t) ++ utf8_encode rs).
  rewrite firstn_app_exact, skipn_app_exact. constructor; [|exact IH].
  unfold vsym. cbn [snd]. rewrite <- Ee. apply valid_encode_rune, Hr.
Qed.

Lemma raw_valid l : Forall vsym l -> valid_utf8 (raw l).
Proof. induction 1 as [|x l Hx _ IH]; [reflexivity|]. rewrite raw_cons. apply valid_utf8_app; assumption. Qed.

Lemma Forall_drop_code {A} (P : A -> Prop) (code : A -> N) q s : Forall P s -> Forall P (drop_code A code q s).
Proof. induction 1 as [|c s Hc Hs IH]; [constructor|]. cbn [drop_code]. destruct (code c =? q); [exact IH | constructor; assumption]. Qed.

Lemma Forall_trim_code {A} (P : A -> Prop) (code : A -> N) q s : Forall P s -> Forall P (trim_code A code q s).
Proof. intros H. unfold trim_code. apply Forall_rev, Forall_drop_code, Forall_rev, Forall_drop_code, H. Qed.

Lemma Forall_value_syms (P : sym -> Prop) v : Forall P v -> Forall P (value_syms sym fst v).
Proof.
  intros H. unfold value_syms. destruct v as [|c v]; [constructor|].
  destruct (fst c =? ch_dq); [apply Forall_trim_code, H|]. destruct (fst c =? ch_sq); [apply Forall_trim_code, H | exact H].
Qed.

Lemma match_val_sub (P : sym -> Prop) s m : In m (find_all go_is_letter sym fst s) -> Forall P s -> Forall P (m_val m).
Proof.
  intros Hin Hs.
  destruct (find_all_In go_is_letter go_dq_not_letter go_sq_not_letter (length s) s m ltac:(lia) Hin) as (pre & post & -> & (h & g2 & Hall & _ & _ & _ & Hval & _)).
  apply Forall_app in Hs as [_ Hs]. apply Forall_app in Hs as [Hs _]. rewrite Hall in Hs.
  inversion Hs as [|? ? _ Hs']; subst. apply Forall_app in Hs' as [_ Hg2].
  destruct Hval as [[_ ->] | [(e & q & body & cl & -> & _) | (e & -> & _)]].
  - constructor.
  - inversion Hg2; assumption.
  - inversion Hg2; assumption.
Qed.

Lemma valid_str_to_lower s : valid_utf8 (str_to_lower go_to_lower s).
Proof.
  unfold str_to_lower. apply valid_utf8_runes. exists (map go_to_lower (utf8_decode s)). split; [|reflexivity].
  pose proof (lowered_scalar go_to_lower go_lower_scalar s) as H.
  eapply Forall_impl; [|exact H]. intros r Hr. apply is_scalar_scalar, Hr.
Qed.

Lemma valid_tag_to_string t : valid_utf8 (t_name t) -> valid_utf8 (t_value t) -> valid_utf8 (go_tag_to_string t).
Proof.
  intros Hn Hv. unfold go_tag_to_string, tag_to_string. apply valid_utf8_cons_ascii; [unfold ch_hash; lia|].
  apply valid_utf8_app; [exact Hn|]. destruct (t_value t) as [|c v] eqn:E; [reflexivity|].
  apply valid_utf8_cons_ascii; [unfold ch_eq; lia|].
  assert (Hq : forall q, ascii q -> valid_utf8 (q ++ (c :: v) ++ q)).
  { intros q Hq. apply valid_utf8_app; [apply ascii_valid, Hq|]. apply valid_utf8_app; [exact Hv | apply ascii_valid, Hq]. }
  destruct (unquoted_ok go_is_letter (c :: v)); [apply Hq; constructor|].
  destruct (has_byte ch_dq (c :: v)); apply Hq; (constructor; [unfold ch_sq, ch_dq; lia | constructor]).
Qed.

Lemma line_tags_valid line : valid_utf8 line ->
  Forall (fun t => valid_utf8 (go_tag_to_string t)) (line_tags go_is_letter go_to_lower line).
Proof.
  intros H. unfold line_tags. apply Forall_forall. intros t Ht. apply in_map_iff in Ht as (m & <- & Hm).
  apply valid_tag_to_string; unfold tag_of_match, mk_tag; cbn [t_name t_value].
  - apply valid_str_to_lower.
  - apply raw_valid, Forall_value_syms. apply (match_val_sub vsym _ m Hm). apply decode_syms_valid, H.
Qed.

Lemma Forall_insert_by {X} (P : X -> Prop) lt x l : P x -> Forall P l -> Forall P (insert_by lt x l).
Proof.
  intros Hx H. induction H as [|y l Hy Hl IH]; cbn [insert_by]; [constructor; [exact Hx | constructor]|].
  destruct (lt y x); constructor; try assumption. constructor; assumption.
Qed.

Lemma Forall_sort_by {X} (P : X -> Prop) lt l : Forall P l -> Forall P (sort_by lt l).
Proof. unfold sort_by. induction 1 as [|x l Hx _ IH]; [constructor|]. cbn [fold_right]. apply Forall_insert_by; assumption. Qed.

Lemma tag_strings_valid lines : Forall valid_utf8 lines -> Forall valid_utf8 (tag_strings lines).
Proof.
  intros H. unfold tag_strings, sorted_tag_strings. apply Forall_sort_by. unfold ts_to_strings.
  destruct (go_summary_tags lines) as [_ ->]. unfold found_tags.
  apply Forall_forall. intros x Hx. apply in_map_iff in Hx as (t & <- & Ht).
  apply in_flat_map in Ht as (line & Hline & Ht). rewrite Forall_forall in H.
  pose proof (line_tags_valid line (H line Hline)) as Hv. rewrite Forall_forall in Hv. exact (Hv t Ht).
Qed.

(* ---- the views ---- *)

Lemma json_ok_arr_forall l : json_ok (JArr l) <-> Forall json_ok l.
Proof.
  induction l as [|x l IH]; [split; constructor|]. rewrite json_ok_arr, IH. split.
  - intros [A B]. constructor; assumption.
  - intros H. inversion H; subst. tauto.
Qed.

Lemma json_ok_obj_forall l : json_ok (JObj l) <-> Forall (fun kx => valid_utf8 (fst kx) /\ json_ok (snd kx)) l.
Proof.
  induction l as [|x l IH]; [split; constructor|]. rewrite json_ok_obj, IH. split.
  - intros [A B]. constructor; assumption.
  - intros H. inversion H; subst. tauto.
Qed.

Lemma json_ok_strs l : Forall valid_utf8 l -> json_ok (JArr (map JStr l)).
Proof. intros H. apply json_ok_arr_forall, Forall_map. exact H. Qed.

Lemma good_lines_valid l : Forall good_line l -> Forall valid_utf8 l.
Proof. apply Forall_impl. intros s [H _]. exact H. Qed.

Definition member_ok (kx : bytes * json) : Prop := valid_utf8 (fst kx) /\ json_ok (snd kx).

Lemma ok_cons k v l : valid_utf8 k -> json_ok v -> Forall member_ok l -> Forall member_ok ((k, v) :: l).
Proof. intros Hk Hv Hl. constructor; [split; assumption | exact Hl]. Qed.

Lemma ok_num z : json_ok (JNum z).
Proof. exact I. Qed.

Ltac members :=
  repeat (apply ok_cons; [vm_compute; reflexivity | try apply ok_num | ]); try apply Forall_nil.

Lemma valid_dur_text m : valid_utf8 (dur_text m).
Proof. apply ascii_valid, ascii_print_duration. Qed.

Lemma json_ok_entry e : entry_ok e -> json_ok (entry_obj e).
Proof.
  intros (_ & _ & Hl). apply good_lines_valid in Hl.
  assert (Hbase : forall ty, valid_utf8 ty -> Forall member_ok (entry_base ty e (tags_json (e_summary e)))).
  { intros ty Hty. unfold entry_base. members.
    - exact Hty.
    - exact (valid_join _ Hl).
    - apply json_ok_strs, tag_strings_valid, Hl.
    - apply valid_dur_text. }
  assert (Hst : forall t, Forall member_ok (start_fields t)).
  { intros t. unfold start_fields. members. apply ascii_valid, ascii_print_time. }
  assert (Hen : forall t, Forall member_ok (end_fields t)).
  { intros t. unfold end_fields. members. apply ascii_valid, ascii_print_time. }
  unfold entry_obj. apply json_ok_obj_forall. fold member_ok. destruct (e_value e).
  - apply Hbase. reflexivity.
  - apply Forall_app. split; [apply Hbase; reflexivity|]. apply Forall_app. split; [apply Hst | apply Hen].
  - apply Forall_app. split; [apply Hbase; reflexivity | apply Hst].
Qed.

Lemma json_ok_record r : record_ok r -> json_ok (record_obj r).
Proof.
  intros (_ & Hs & He).
  assert (Hl : Forall valid_utf8 (rec_summary r)) by (eapply Forall_impl; [|exact Hs]; intros s (_ & H & _); exact H).
  unfold record_obj. apply json_ok_obj_forall. fold member_ok. members.
  - apply ascii_valid, ascii_print_date.
  - exact (valid_join _ Hl).
  - apply valid_dur_text.
  - unfold should_text. destruct (rec_should r); [|apply valid_dur_text].
    apply valid_utf8_app; [apply valid_dur_text | reflexivity].
  - apply ascii_valid, ascii_print_duration_signed.
  - apply json_ok_strs, tag_strings_valid, Hl.
  - apply json_ok_arr_forall, Forall_map. eapply Forall_impl; [|exact He]. apply json_ok_entry.
Qed.

Lemma valid_title c : valid_utf8 (error_title c).
Proof. destruct c; vm_compute; reflexivity. Qed.
Lemma valid_details c : valid_utf8 (error_details c).
Proof. destruct c; vm_compute; reflexivity. Qed.

Lemma json_ok_error file e : valid_utf8 file -> json_ok (error_view (file, e)).
Proof.
  intros Hf. unfold error_view. apply json_ok_obj_forall. fold member_ok. members.
  - apply valid_title.
  - apply valid_details.
  - exact Hf.
Qed.

(* inputs as the command reads them: every file parsed by the parser, every path valid UTF-8 *)
Definition parsed_input (i : input) : Prop := valid_utf8 (fst i) /\ exists s, parse_text s = Ok (snd i).

Lemma collect_parsed inputs : Forall parsed_input inputs ->
  Forall record_ok (all_records inputs) /\ Forall (fun fe => valid_utf8 (fst fe)) (all_errors inputs).
Proof.
  unfold all_records, all_errors. induction 1 as [|[file res] inputs [Hf (s & Hs)] _ IH]; [split; constructor|].
  cbn [collect]. destruct (collect inputs) as [rs es]. cbn [fst snd] in *. destruct IH as [IH1 IH2].
  destruct res as [rs0 bs|es0]; cbn [fst snd].
  - split; [|exact IH2]. apply Forall_app. split; [exact (parsed_records_ok s rs0 bs Hs) | exact IH1].
  - split; [exact IH1|]. apply Forall_app. split; [|exact IH2].
    apply Forall_forall. intros x Hx. apply in_map_iff in Hx as (e & <- & _). exact Hf.
Qed.

Theorem json_ok_document inputs : Forall parsed_input inputs -> json_ok (document inputs).
Proof.
  intros H. destruct (collect_parsed inputs H) as [Hr He]. unfold document, envelope.
  destruct (all_errors inputs) as [|e es] eqn:E; apply json_ok_obj_forall; fold member_ok.
  - apply ok_cons; [reflexivity | | apply ok_cons; [reflexivity | exact I | constructor]].
    apply json_ok_arr_forall, Forall_map. eapply Forall_impl; [|exact Hr]. apply json_ok_record.
  - apply ok_cons; [reflexivity | exact I | apply ok_cons; [reflexivity | | constructor]].
    apply json_ok_arr_forall, Forall_map. eapply Forall_impl; [|exact He]. intros [f x] Hf. apply json_ok_error, Hf.
Qed.

(* ===================================================================== *)
(* Part I — the statements of C20 for one file and for several           *)
(* ===================================================================== *)
Open Scope Z_scope.

(* for files read by the parser and paths in valid UTF-8 the reader gets exactly the document *)
Theorem wellformed_parsed inputs pretty out : Forall parsed_input inputs -> to_json_inputs inputs pretty = Ok out ->
  parse_json out = Ok (document inputs) /\ parse_json (json_stdout out) = Ok (document inputs).
Proof.
  intros Hp H. destruct (wellformed_inputs inputs pretty out H) as (_ & _ & H1 & H2).
  rewrite (san_id _ (json_ok_document inputs Hp)) in *. split; assumption.
Qed.

Lemma all_records_single file rs bs : all_records [(file, Parsed rs bs)] = rs.
Proof. unfold all_records. cbn [collect fst]. apply app_nil_r. Qed.
Lemma all_errors_single_parsed file rs bs : all_errors [(file, Parsed rs bs)] = [].
Proof. reflexivity. Qed.
Lemma all_records_single_failed file es : all_records [(file, Failed es)] = [].
Proof. reflexivity. Qed.
Lemma all_errors_single_failed file es : all_errors [(file, Failed es)] = map (fun e => (file, e)) es.
Proof. unfold all_errors. cbn [collect snd]. apply app_nil_r. Qed.

(* end to end for one valid file: text -> klog json -> JSON parser -> decoding = the data of the parsed records *)
Theorem records_faithful_file s file rs bs pretty out :
  parse_text s = Ok (Parsed rs bs) -> valid_utf8 file -> to_json file (Parsed rs bs) pretty = Ok out ->
  exists v, parse_json out = Ok v /\ of_document v = Some (map data_of rs).
Proof.
  intros Hs Hf H. unfold to_json in H.
  assert (Hp : Forall parsed_input [(file, Parsed rs bs)]).
  { constructor; [|constructor]. split; [exact Hf | exists s; exact Hs]. }
  destruct (wellformed_parsed _ _ _ Hp H) as [H1 _].
  exists (document [(file, Parsed rs bs)]). split; [exact H1|].
  rewrite records_faithful_inputs.
  - rewrite all_records_single. reflexivity.
  - reflexivity.
  - rewrite all_records_single. exact (parsed_records_wf s rs bs Hs).
Qed.

(* the same for several files: the records of all files, in the order of the command line *)
Theorem records_faithful_files inputs pretty out :
  Forall parsed_input inputs -> all_errors inputs = [] -> to_json_inputs inputs pretty = Ok out ->
  exists v, parse_json out = Ok v /\ of_document v = Some (map data_of (all_records inputs)).
Proof.
  intros Hp He H. destruct (wellformed_parsed _ _ _ Hp H) as [H1 _].
  exists (document inputs). split; [exact H1|]. apply records_faithful_inputs; [exact He|].
  destruct (collect_parsed inputs Hp) as [Hr _]. eapply Forall_impl; [|exact Hr]. apply record_ok_wf.
Qed.

(* ---- errors of one file: the JSON objects and the terminal report carry the same numbers ---- *)

Lemma failed_errors_facts s es : parse_text s = Ok (Failed es) ->
  es <> [] /\ Forall (fun e => no_lf (re_text e) /\ 0 <= re_pos e /\ 0 <= re_len e) es.
Proof.
  intros H. split.
  - unfold parse_text, parse_lines_blocks in H. destruct (parse_blocks (blocks_of s) [] []) as [[rs0 es0]| |]; try discriminate.
    destruct es0; [discriminate|]. injection H as <-. discriminate.
  - pose proof (errors_located s es H) as Hl. eapply Forall_impl; [|exact Hl].
    intros e (_ & (l & Hnth & Htext) & Hp & Hlen & _). split; [|split; assumption].
    destruct (nth_error_split _ _ Hnth) as (pre & post & Hsplit & _).
    destruct (lines_wellformed s pre l post Hsplit) as [Hn _]. rewrite <- Htext. exact Hn.
Qed.

Definition numbers_agree (file : bytes) (e : rerr) (blk : bytes) : Prop :=
  exists n, read_block blk = Some n /\
    num_field k_line (error_view (file, e)) = Some (rn_line n) /\
    num_field k_column (error_view (file, e)) = Some (rn_offset n + 1) /\
    num_field k_length (error_view (file, e)) = Some (rn_count n) /\
    rn_line n = Z.of_nat (re_line e) + 1 /\ rn_offset n = re_pos e /\ rn_count n = re_len e.

Lemma map_o_blocks file es :
  Forall (fun e => no_lf (re_text e) /\ 0 <= re_pos e /\ 0 <= re_len e) es -> no_lf file ->
  exists blocks, map_o report_block (map (fun e => (file, e)) es) = Ok blocks /\ Forall2 (numbers_agree file) es blocks.
Proof.
  intros H Hf. induction H as [|e es (Ht & Hp & Hl) _ IH].
  - exists []. split; [reflexivity | constructor].
  - destruct IH as (blocks & Hb & Hall). cbn [map map_o].
    pose proof (report_block_rows file e Hp Hl) as Hr. rewrite Hr, Hb. cbn [bind].
    eexists. split; [reflexivity|]. constructor; [|exact Hall].
    pose proof (read_block_spec file e _ Hf Ht Hp Hl Hr) as Hread.
    eexists. split; [exact Hread|]. destruct (error_view_fields file e) as (F1 & F2 & F3 & _).
    cbn [rn_line rn_offset rn_count]. repeat split; assumption.
Qed.

Definition ends_with_message (e : rerr) (blk : bytes) : Prop :=
  exists pre, blk = pre ++ reflow 80 (error_title (re_code e) ++ b!": " ++ error_details (re_code e)) [indent4] ++ lf.

Lemma blocks_messages file es :
  Forall (fun e => no_lf (re_text e) /\ 0 <= re_pos e /\ 0 <= re_len e) es ->
  forall blocks, map_o report_block (map (fun e => (file, e)) es) = Ok blocks -> Forall2 ends_with_message es blocks.
Proof.
  induction 1 as [|e es (Ht & Hp & Hl) _ IH]; intros blocks Hb.
  - injection Hb as <-. constructor.
  - cbn [map map_o] in Hb. rewrite (report_block_rows file e Hp Hl) in Hb.
    destruct (map_o report_block (map (fun e0 => (file, e0)) es)) as [bl| |] eqn:E; try discriminate.
    cbn [bind] in Hb. apply Ok_inj in Hb. subst blocks. constructor; [|apply IH; reflexivity].
    eexists. unfold message_rows, error_message. rewrite !app_assoc. reflexivity.
Qed.

Theorem error_views_file s file es : parse_text s = Ok (Failed es) -> no_lf file ->
  (* the document *)
  document [(file, Failed es)] = envelope JNull (JArr (map (fun e => error_view (file, e)) es)) /\
  Forall (fun e => let v := error_view (file, e) in
            num_field k_line v = Some (Z.of_nat (re_line e) + 1) /\
            num_field k_column v = Some (re_pos e + 1) /\
            num_field k_length v = Some (re_len e) /\
            str_field k_title v = Some (error_title (re_code e)) /\
            str_field k_details v = Some (error_details (re_code e)) /\
            str_field k_file v = Some file) es /\
  (* the terminal report of the same errors: one block per error, showing the same numbers and the same message *)
  exists blocks, terminal_report (map (fun e => (file, e)) es) = Ok (List.concat blocks) /\
                 Forall2 (numbers_agree file) es blocks /\
                 Forall2 ends_with_message es blocks.
Proof.
  intros Hs Hf. destruct (failed_errors_facts s es Hs) as [Hne Hfacts]. split; [|split].
  - unfold document. rewrite all_errors_single_failed. destruct es as [|e es]; [congruence|].
    cbn [map]. rewrite map_map. reflexivity.
  - apply Forall_forall. intros e _. apply error_view_fields.
  - destruct (map_o_blocks file es Hfacts Hf) as (blocks & Hb & Hall).
    exists blocks. unfold terminal_report. rewrite Hb. split; [reflexivity|]. split; [exact Hall|].
    exact (blocks_messages file es Hfacts blocks Hb).
Qed.
