"""C08 — reading a file loses nothing: blocks and lines reproduce the text exactly."""
import sys, os
sys.path.insert(0, os.path.dirname(os.path.dirname(os.path.abspath(__file__))))
from check import Suite
from props.parsing import *

def gen_blocks(tier, rng):
    n = 12000 if tier == "quick" else 300000
    out = [req_blocks(d.render()) for d in docs(rng, n)]
    out += [req_blocks(b) for b in byte_stream(tier, rng, n // 2, n // 4, 3 if tier == "quick" else 4) if len(b) < 20000]
    return out

def gen_noop(tier, rng):
    n = 1500 if tier == "quick" else 30000
    return ["noop-reconcile " + d.render().hex() for d in docs(rng, n) if d.records]

def oracle_noop(req, out):
    return None if out == "identical" else "a mutating operation that changes nothing did not write back the identical file: " + out[:100]

def gen_par_blocks(tier, rng):
    """the file as the commands read it: through the parallel parser (every worker count for short texts in the thorough tier)"""
    import props.c07 as c07
    reqs = list(c07.gen_par(tier, rng))
    cap = 9000 if tier == "quick" else 600000
    if len(reqs) <= cap:
        return reqs
    return [reqs[i] for i in sorted(rng.sample(range(len(reqs)), cap))]          # spread over all kinds of texts, not a prefix

def oracle_par_blocks(req, out):
    if out.startswith("same "):
        return None
    return "the blocks of the parallel parser do not reproduce the text as the serial parser's do: " + out[:140]

def suites():
    return [
        Suite("blocks", gen_blocks, oracle=blocks_oracle,
              rule="conforming documents (mixed LF/CRLF, blank runs, no final newline, invalid UTF-8 in summaries) + the C06 byte streams; non-trivial = at least one block",
              nontrivial=lambda r, o: not o.startswith("0") and not o.startswith("crash")),
        Suite("parallel-blocks", gen_par_blocks, oracle=oracle_par_blocks,
              rule="conforming, faulted, mutated and many-record texts (LF/CRLF) x worker counts x forced arrival orders through ParallelBatchParser: its blocks (texts, line endings, line numbers) must be those of the serial parser, which the suite `blocks` shows to reproduce the text",
              nontrivial=lambda r, o: o.startswith("same ")),
        Suite("noop-reconcile", gen_noop, oracle=oracle_noop, model=False,
              rule="a reconciler applied with no operation to every record of a conforming document must serialise the identical text",
              nontrivial=lambda r, o: o == "identical"),
    ]
