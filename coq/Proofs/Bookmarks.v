(* Lemmas about Model/Bookmarks.v: the collection is a finite map, the database file round trip,
   and the refinement of the file-level commands by the map-level specification. *)
From Klog Require Import Base.Prelude Base.Utf8 Model.Json Model.Bookmarks Proofs.Json.
From Coq Require Import ZifyBool ZifyN Sorted Permutation.
Open Scope N_scope.

(* ---------- byte order ---------- *)

Lemma bytes_eqb_refl a : bytes_eqb a a = true.
Proof. apply bytes_eqb_eq. reflexivity. Qed.

Lemma bytes_eqb_neq a b : a <> b -> bytes_eqb a b = false.
Proof. intros H. destruct (bytes_eqb a b) eqn:E; [|reflexivity]. apply bytes_eqb_eq in E. contradiction. Qed.

Lemma bytes_eqb_false a b : bytes_eqb a b = false -> a <> b.
Proof. intros H ->. rewrite bytes_eqb_refl in H. discriminate. Qed.

Lemma bytes_eqb_sym a b : bytes_eqb a b = bytes_eqb b a.
Proof.
  destruct (bytes_eqb a b) eqn:E.
  - apply bytes_eqb_eq in E. subst. symmetry. apply bytes_eqb_refl.
  - symmetry. apply bytes_eqb_neq. intros ->. rewrite bytes_eqb_refl in E. discriminate.
Qed.

Lemma ltb_irrefl a : bytes_ltb a a = false.
Proof. induction a as [|x a IH]; [reflexivity|]. simpl. rewrite IH, N.ltb_irrefl, N.eqb_refl. reflexivity. Qed.

Lemma ltb_trans a : forall b c, bytes_ltb a b = true -> bytes_ltb b c = true -> bytes_ltb a c = true.
Proof.
  induction a as [|x a IH]; intros [|y b] [|z c] H1 H2; simpl in *; try discriminate; try reflexivity.
  apply orb_true_iff in H1. apply orb_true_iff in H2. apply orb_true_iff.
  destruct H1 as [H1 | H1], H2 as [H2 | H2].
  - left. lia.
  - apply andb_true_iff in H2 as [E _]. left. lia.
  - apply andb_true_iff in H1 as [E _]. left. lia.
  - apply andb_true_iff in H1 as [E1 L1]. apply andb_true_iff in H2 as [E2 L2]. right.
    apply andb_true_iff. split; [lia | eapply IH; eassumption].
Qed.

Lemma ltb_asym a b : bytes_ltb a b = true -> bytes_ltb b a = false.
Proof.
  intros H. destruct (bytes_ltb b a) eqn:E; [|reflexivity].
  pose proof (ltb_trans _ _ _ H E) as C. rewrite ltb_irrefl in C. discriminate.
Qed.

Lemma ltb_neq a b : bytes_ltb a b = true -> bytes_eqb a b = false.
Proof. intros H. apply bytes_eqb_neq. intros ->. rewrite ltb_irrefl in H. discriminate. Qed.

Lemma ltb_total a : forall b, bytes_ltb a b = false -> bytes_eqb a b = false -> bytes_ltb b a = true.
Proof.
  induction a as [|x a IH]; intros [|y b] H1 H2; simpl in *; try discriminate; try reflexivity.
  apply orb_false_iff in H1 as [L1 L2].
  destruct (x =? y) eqn:E.
  - simpl in *. apply orb_true_iff. right. apply andb_true_iff. split; [lia|]. apply IH; assumption.
  - apply orb_true_iff. left. lia.
Qed.

(* ---------- the collection is a finite map ---------- *)

Definition key_lt (a b : bytes * bytes) : Prop := bytes_ltb (fst a) (fst b) = true.
Definition keys_sorted (m : coll) : Prop := StronglySorted key_lt m.

Lemma get_set_same n p m : get n (set n p m) = Some p.
Proof.
  induction m as [|[n' p'] m IH]; simpl; [rewrite bytes_eqb_refl; reflexivity|].
  destruct (bytes_ltb n n') eqn:L; [simpl; rewrite bytes_eqb_refl; reflexivity|].
  destruct (bytes_eqb n n') eqn:E; simpl; [rewrite bytes_eqb_refl; reflexivity|].
  rewrite E. exact IH.
Qed.

Lemma get_set_other n n' p m : n' <> n -> get n' (set n p m) = get n' m.
Proof.
  intros Hne. induction m as [|[n1 p1] m IH]; simpl.
  - rewrite bytes_eqb_neq by assumption. reflexivity.
  - destruct (bytes_ltb n n1) eqn:L; [simpl; rewrite (bytes_eqb_neq n' n) by assumption; reflexivity|].
    destruct (bytes_eqb n n1) eqn:E.
    + apply bytes_eqb_eq in E. subst n1. simpl. rewrite (bytes_eqb_neq n' n) by assumption. reflexivity.
    + simpl. rewrite IH. reflexivity.
Qed.

Lemma get_remove_other n n' m : n' <> n -> get n' (remove n m) = get n' m.
Proof.
  intros Hne. induction m as [|[n1 p1] m IH]; simpl; [reflexivity|].
  destruct (bytes_eqb n n1) eqn:E.
  - apply bytes_eqb_eq in E. subst n1. rewrite (bytes_eqb_neq n' n) by assumption. reflexivity.
  - simpl. rewrite IH. reflexivity.
Qed.

Lemma get_none_above n m : Forall (fun e => bytes_ltb n (fst e) = true) m -> get n m = None.
Proof.
  induction 1 as [|[n1 p1] m H _ IH]; [reflexivity|]. simpl in *. rewrite (ltb_neq _ _ H). exact IH.
Qed.

Lemma sorted_inv e m : keys_sorted (e :: m) -> keys_sorted m /\ Forall (key_lt e) m.
Proof. intros H. inversion H; subst. split; assumption. Qed.

Lemma get_remove_same n m : keys_sorted m -> get n (remove n m) = None.
Proof.
  induction m as [|[n1 p1] m IH]; intros Hs; [reflexivity|].
  apply sorted_inv in Hs as [Hs Hall]. simpl.
  destruct (bytes_eqb n n1) eqn:E.
  - apply bytes_eqb_eq in E. subst n1. apply get_none_above. exact Hall.
  - simpl. rewrite E. apply IH, Hs.
Qed.

Lemma has_get n m : has n m = true <-> exists p, get n m = Some p.
Proof. unfold has. destruct (get n m); split; intros H; try discriminate; eauto. destruct H; discriminate. Qed.

(* keys of the result of set / remove *)
Lemma set_forall (Q : bytes * bytes -> Prop) n p m : Q (n, p) -> Forall Q m -> Forall Q (set n p m).
Proof.
  intros Hq. induction 1 as [|[n1 p1] m H1 Hm IH]; simpl; [constructor; [assumption | constructor]|].
  destruct (bytes_ltb n n1); [constructor; [assumption | constructor; assumption]|].
  destruct (bytes_eqb n n1); constructor; assumption.
Qed.

Lemma remove_forall (Q : bytes * bytes -> Prop) n m : Forall Q m -> Forall Q (remove n m).
Proof.
  induction 1 as [|[n1 p1] m H1 Hm IH]; simpl; [constructor|].
  destruct (bytes_eqb n n1); [assumption | constructor; assumption].
Qed.

Lemma set_sorted n p m : keys_sorted m -> keys_sorted (set n p m).
Proof.
  induction m as [|[n1 p1] m IH]; intros Hs; simpl.
  - constructor; constructor.
  - apply sorted_inv in Hs as [Hs Hall].
    destruct (bytes_ltb n n1) eqn:L.
    + constructor; [constructor; assumption|]. constructor; [exact L|].
      eapply Forall_impl; [|exact Hall]. intros e He. unfold key_lt in *. simpl in *. eapply ltb_trans; eassumption.
    + destruct (bytes_eqb n n1) eqn:E.
      * apply bytes_eqb_eq in E. subst n1. constructor; assumption.
      * constructor; [apply IH, Hs|]. apply set_forall; [|exact Hall].
        unfold key_lt. simpl. apply ltb_total; [assumption|]. rewrite bytes_eqb_sym in E. rewrite bytes_eqb_sym. exact E.
Qed.

Lemma remove_sorted n m : keys_sorted m -> keys_sorted (remove n m).
Proof.
  induction m as [|[n1 p1] m IH]; intros Hs; simpl; [constructor|].
  apply sorted_inv in Hs as [Hs Hall].
  destruct (bytes_eqb n n1); [assumption|]. constructor; [apply IH, Hs | apply remove_forall, Hall].
Qed.

(* appending a binding whose name is above all others *)
Lemma set_append n p m : Forall (fun e => bytes_ltb (fst e) n = true) m -> set n p m = m ++ [(n, p)].
Proof.
  induction 1 as [|[n1 p1] m H _ IH]; [reflexivity|]. simpl in *.
  rewrite (ltb_asym _ _ H). rewrite bytes_eqb_sym, (ltb_neq _ _ H). rewrite IH. reflexivity.
Qed.

(* All() changes nothing on the canonical representation *)
Lemma all_sorted_id m : keys_sorted m -> all m = m.
Proof.
  induction m as [|e m IH]; intros Hs; [reflexivity|].
  apply sorted_inv in Hs as [Hs Hall]. unfold all in *. cbn [fold_right]. rewrite (IH Hs).
  destruct m as [|x m]; [reflexivity|]. simpl. inversion Hall; subst. unfold key_lt in *.
  rewrite (ltb_asym _ _ H1). reflexivity.
Qed.

(* ---------- the iteration order of the Go map cannot matter ---------- *)

Definition key_le (a b : bytes * bytes) : Prop := bytes_ltb (fst b) (fst a) = false.

Lemma le_trans a b c : bytes_ltb b a = false -> bytes_ltb c b = false -> bytes_ltb c a = false.
Proof.
  intros H1 H2. destruct (bytes_ltb c a) eqn:E; [|reflexivity]. exfalso.
  destruct (bytes_eqb b a) eqn:Q.
  - apply bytes_eqb_eq in Q. subst. congruence.
  - pose proof (ltb_total b a H1 Q) as L. pose proof (ltb_trans _ _ _ E L). congruence.
Qed.

Lemma insert_perm e l : Permutation (insert_sorted e l) (e :: l).
Proof.
  induction l as [|x l IH]; [reflexivity|]. simpl. destruct (bytes_ltb (fst x) (fst e)); [|reflexivity].
  rewrite IH. apply perm_swap.
Qed.

Lemma all_is_perm c : Permutation (all c) c.
Proof.
  induction c as [|e c IH]; [reflexivity|]. unfold all in *. cbn [fold_right]. rewrite insert_perm. constructor. exact IH.
Qed.

Lemma insert_le_sorted e l : StronglySorted key_le l -> StronglySorted key_le (insert_sorted e l).
Proof.
  induction l as [|x l IH]; intros Hs; [constructor; constructor|].
  inversion Hs as [|? ? Hl Hall]; subst. simpl. destruct (bytes_ltb (fst x) (fst e)) eqn:L.
  - constructor; [apply IH, Hl|].
    eapply Permutation_Forall; [symmetry; apply insert_perm|]. constructor; [|exact Hall].
    unfold key_le. apply ltb_asym, L.
  - constructor; [exact Hs|]. constructor; [exact L|].
    eapply Forall_impl; [|exact Hall]. intros a Ha. unfold key_le in *. eapply le_trans; eassumption.
Qed.

Lemma all_le_sorted c : StronglySorted key_le (all c).
Proof.
  induction c as [|e c IH]; [constructor|]. unfold all in *. cbn [fold_right]. apply insert_le_sorted, IH.
Qed.

Lemma sorted_perm_unique : forall l2 l1, StronglySorted key_le l1 -> keys_sorted l2 -> Permutation l1 l2 -> l1 = l2.
Proof.
  induction l2 as [|y l2 IH]; intros l1 H1 H2 Hp.
  - apply Permutation_sym, Permutation_nil in Hp. exact Hp.
  - destruct l1 as [|x l1]; [apply Permutation_nil in Hp; discriminate|].
    inversion H1 as [|? ? H1l H1all]; subst. apply sorted_inv in H2 as [H2l H2all].
    assert (x = y) as ->.
    { assert (Hx : In x (y :: l2)) by (eapply Permutation_in; [exact Hp | left; reflexivity]).
      assert (Hy : In y (x :: l1)) by (eapply Permutation_in; [symmetry; exact Hp | left; reflexivity]).
      destruct Hx as [-> | Hx]; [reflexivity|]. destruct Hy as [-> | Hy]; [reflexivity|]. exfalso.
      rewrite Forall_forall in H1all, H2all.
      specialize (H1all y Hy). specialize (H2all x Hx). unfold key_le, key_lt in *. congruence. }
    f_equal. apply IH; [assumption | assumption | eapply Permutation_cons_inv; exact Hp].
Qed.

(* All() of the bindings in ANY order is the canonical representation *)
Theorem all_perm c m : Permutation c m -> keys_sorted m -> all c = m.
Proof.
  intros Hp Hs. apply sorted_perm_unique; [apply all_le_sorted | exact Hs|].
  rewrite all_is_perm. exact Hp.
Qed.

(* ---------- names ---------- *)

Lemma trim_left_at_idem s : trim_left_at (trim_left_at s) = trim_left_at s.
Proof.
  induction s as [|c s IH]; [reflexivity|]. simpl. destruct (c =? 64) eqn:E; [exact IH|].
  simpl. rewrite E. reflexivity.
Qed.

Lemma new_name_idem s : new_name (new_name s) = new_name s.
Proof.
  unfold new_name. destruct (trim_left_at s) as [|c t] eqn:E; [reflexivity|].
  rewrite <- E, trim_left_at_idem, E. reflexivity.
Qed.

(* a name is in normal form iff it is not empty and does not start with the prefix character *)
Lemma new_name_fixed n : new_name n = n <-> n <> [] /\ (forall t, n <> 64 :: t).
Proof.
  unfold new_name. destruct n as [|c t]; simpl.
  - split; [discriminate | intros [H _]; congruence].
  - destruct (c =? 64) eqn:E.
    + apply N.eqb_eq in E. subst c. split.
      * intros H. exfalso.
        assert (Hl : forall s, (length (trim_left_at s) <= length s)%nat).
        { induction s as [|x s IHs]; simpl; [lia|]. destruct (x =? 64); simpl; lia. }
        destruct (trim_left_at t) as [|x r] eqn:Et; [discriminate|].
        specialize (Hl t). rewrite Et in Hl. apply (f_equal (@length N)) in H. simpl in *. lia.
      * intros [_ H]. exfalso. apply (H t). reflexivity.
    + split; [|reflexivity]. intros _. split; [discriminate|]. intros t' H. inversion H; subst. discriminate.
Qed.

Lemma valid_utf8_trim s : valid_utf8 s -> valid_utf8 (trim_left_at s).
Proof.
  induction s as [|c s IH]; intros H; [exact H|]. simpl. destruct (c =? 64) eqn:E; [|exact H].
  apply N.eqb_eq in E. subst c. apply IH. apply (valid_utf8_cons_ascii 64 s); [lia | exact H].
Qed.

Lemma valid_utf8_new_name s : valid_utf8 s -> valid_utf8 (new_name s).
Proof.
  intros H. unfold new_name. pose proof (valid_utf8_trim s H) as Ht.
  destruct (trim_left_at s); [reflexivity | exact Ht].
Qed.

(* kong's argument transcoding is the identity on valid UTF-8 *)
Lemma kong_arg_valid s : valid_utf8 s -> kong_arg s = s.
Proof. intros H. unfold kong_arg. rewrite json_string_roundtrip by assumption. reflexivity. Qed.

Section OS.
  Variable abs : bytes -> bytes.
  Variable fstat : bytes -> fstatus.
  Variable dir_of : bytes -> bytes.
  Variable base_of : bytes -> bytes.
  Hypothesis abs_is_abs : forall p, is_abs (abs p) = true.
  Hypothesis abs_idem : forall p, abs (abs p) = abs p.
  Hypothesis abs_utf8 : forall p, valid_utf8 p -> valid_utf8 (abs p).

  Notation from_json := (from_json abs).
  Notation run_op := (run_op abs fstat dir_of base_of).
  Notation spec_op := (spec_op abs fstat dir_of base_of).

  (* ---------- the invariant ---------- *)

  Definition entry_ok (e : bytes * bytes) : Prop :=
    new_name (fst e) = fst e /\ valid_utf8 (fst e) /\ valid_utf8 (snd e) /\ abs (snd e) = snd e.

  Definition db_ok (m : coll) : Prop := Forall entry_ok m /\ keys_sorted m.

  Lemma entry_ok_abs e : entry_ok e -> is_abs (snd e) = true.
  Proof. intros (_ & _ & _ & H). rewrite <- H. apply abs_is_abs. Qed.

  Lemma db_ok_nil : db_ok [].
  Proof. split; constructor. Qed.

  Lemma db_ok_set n p m : db_ok m -> entry_ok (n, p) -> db_ok (set n p m).
  Proof. intros [Hf Hs] He. split; [apply set_forall; assumption | apply set_sorted, Hs]. Qed.

  Lemma db_ok_remove n m : db_ok m -> db_ok (remove n m).
  Proof. intros [Hf Hs]. split; [apply remove_forall, Hf | apply remove_sorted, Hs]. Qed.

  Lemma new_file_abs p : new_file abs p = Ok (abs p).
  Proof. unfold new_file. rewrite abs_is_abs. reflexivity. Qed.

  Lemma new_file_fixed p : abs p = p -> new_file abs p = Ok p.
  Proof. intros H. rewrite new_file_abs, H. reflexivity. Qed.

  (* ---------- the database file: write, then read ---------- *)

  Definition raw_of (e : bytes * bytes) : raw_entry := {| re_name := Some (fst e); re_path := Some (snd e) |}.

  Lemma decode_entries_written l : decode_entries (map entry_json l) = Some (map raw_of l).
  Proof.
    induction l as [|[n p] l IH]; [reflexivity|]. cbn [map decode_entries]. rewrite IH.
    replace (decode_entry (entry_json (n, p))) with (Some (raw_of (n, p))); [reflexivity|].
    unfold entry_json, decode_entry, decode_fields. cbn [fst snd].
    change (key_is key_name key_name) with true. change (key_is key_name key_path) with false.
    change (key_is key_path key_path) with true. cbv iota. reflexivity.
  Qed.

  Lemma load_written l : forall acc, Forall entry_ok l -> keys_sorted (acc ++ l) ->
    load_entries abs (map raw_of l) acc = Ok (acc ++ l).
  Proof.
    induction l as [|[n p] l IH]; intros acc Hok Hs; [rewrite app_nil_r; reflexivity|].
    inversion Hok as [|? ? He Hl]; subst.
    cbn [map load_entries raw_of re_name re_path fst snd].
    pose proof (entry_ok_abs _ He) as Hab. cbn [snd] in Hab. rewrite Hab.
    destruct He as (Hn & _ & _ & Ha). cbn [fst snd] in *.
    rewrite (new_file_fixed p Ha). cbn [bind]. rewrite Hn.
    assert (Habove : Forall (fun e => bytes_ltb (fst e) n = true) acc).
    { clear - Hs. induction acc as [|a acc IHa]; [constructor|].
      cbn [app] in Hs. apply sorted_inv in Hs as [Hs Hall]. constructor; [|apply IHa, Hs].
      apply Forall_app in Hall as [_ Hall]. inversion Hall; subst. assumption. }
    rewrite (set_append n p acc Habove).
    rewrite (IH (acc ++ [(n, p)]) Hl); rewrite <- app_assoc; [reflexivity | exact Hs].
  Qed.

  Lemma json_ok_written l : Forall entry_ok l -> json_ok (JArr (map entry_json l)).
  Proof.
    induction 1 as [|[n p] l (_ & Hn & Hp & _) _ IH]; [exact I|].
    cbn [map]. apply json_ok_arr. split; [|exact IH].
    cbn [fst snd] in *. unfold entry_json. cbn [fst snd]. simpl. repeat split; try assumption; reflexivity.
  Qed.

  Lemma from_json_nonempty c t :
    from_json (c :: t) =
    match parse_json (c :: t) with
    | Ok JNull => Ok []
    | Ok (JArr l) => match decode_entries l with Some es => load_entries abs es [] | None => malformed_db end
    | Ok _ => malformed_db
    | Err _ => malformed_db
    | Crash x => Crash x
    end.
  Proof. reflexivity. Qed.

  Theorem db_roundtrip m : db_ok m -> from_json (to_json m) = Ok m.
  Proof.
    intros [Hok Hs]. unfold to_json. rewrite (all_sorted_id m Hs).
    destruct m as [|e m]; [reflexivity|].
    assert (Hshape : exists c t, encoder_output true (JArr (map entry_json (e :: m))) = c :: t).
    { eexists; eexists. unfold encoder_output, print_pretty. cbn [map print_json app]. reflexivity. }
    destruct Hshape as (c & t & Hshape).
    assert (Hp := parse_encoder_output true _ (json_ok_written _ Hok)).
    rewrite Hshape in *. rewrite from_json_nonempty, Hp.
    rewrite decode_entries_written. apply (load_written (e :: m) []); assumption.
  Qed.

  Lemma to_json_nil : to_json [] = [].
  Proof. reflexivity. Qed.

  Lemma from_json_nil : from_json [] = Ok [].
  Proof. reflexivity. Qed.

  (* ---------- one command: the file-level run against the map-level specification ---------- *)

  Definition op_ok (o : op) : Prop :=
    match o with
    | OpSet path name _ => valid_utf8 path /\ valid_utf8 name
    | _ => True
    end.

  Lemma abs_starts_with_slash p : is_abs p = true -> exists t, p = 47 :: t.
  Proof. destruct p as [|c t]; simpl; [discriminate|]. intros H. apply N.eqb_eq in H. subst. eauto. Qed.

  (* the check "bookmarks set" makes on its target: it can be read and is a valid file *)
  Lemma read_inputs_target file m p : from_json file = Ok m -> abs p = p ->
    read_inputs abs fstat file [p] =
    match fstat p with FValid => Ok [p] | FInvalid => Err (EOther 8) | FMissing => Err (EOther 4) end.
  Proof.
    intros Hf Hp. unfold read_inputs. rewrite Hf. cbn [bind].
    assert (Habs : is_abs p = true) by (rewrite <- Hp; apply abs_is_abs).
    destruct (abs_starts_with_slash p Habs) as (t & ->).
    unfold retrieve. cbn [filter is_blank_arg forallb]. change (47 =? 32) with false. cbn [andb negb].
    cbn [retrieve_each]. unfold resolve_arg. cbn [is_bookmark_arg]. change (47 =? 64) with false. cbv iota.
    rewrite (new_file_fixed _ Hp). cbn [bind].
    destruct (fstat (47 :: t)) eqn:E; cbn [bind forallb]; rewrite ?E; reflexivity.
  Qed.

  Lemma set_name_cases name :
    match name with [] => new_name default_name | _ => new_name name end = new_name name.
  Proof. destruct name; reflexivity. Qed.

  Theorem step_refines o file m : db_ok m -> from_json file = Ok m -> op_ok o ->
    let cr := step (run_op o) file in
    let sr := step (spec_op o) m in
    snd cr = snd sr /\ db_ok (fst sr) /\ from_json (fst cr) = Ok (fst sr).
  Proof.
    intros Hdb Hf Hop. unfold step. destruct o as [path name force | name | | | name k | args]; cbn [run_op spec_op].
    - (* set *)
      destruct Hop as [Hpath Hname].
      unfold cmd_set. rewrite new_file_abs. cbn [bind]. rewrite set_name_cases.
      rewrite (read_inputs_target file m (abs path) Hf (abs_idem path)). rewrite Hf. cbn [bind].
      assert (Hentry : entry_ok (new_name name, abs path)).
      { split; [|split; [|split]]; cbn [fst snd];
          [apply new_name_idem | apply valid_utf8_new_name, Hname | apply abs_utf8, Hpath | apply abs_idem]. }
      pose proof (db_ok_set _ _ _ Hdb Hentry) as Hdb'.
      pose proof (db_roundtrip _ Hdb') as Hrt.
      destruct force; cbn [orb bind fst snd].
      + exact (conj eq_refl (conj Hdb' Hrt)).
      + destruct (fstat (abs path)); cbn [fst snd bind].
        * exact (conj eq_refl (conj Hdb Hf)).
        * exact (conj eq_refl (conj Hdb Hf)).
        * exact (conj eq_refl (conj Hdb' Hrt)).
    - (* unset *)
      unfold cmd_unset. rewrite Hf. cbn [bind].
      destruct (has (new_name name) m); cbn [fst snd].
      + exact (conj eq_refl (conj (db_ok_remove _ _ Hdb) (db_roundtrip _ (db_ok_remove _ _ Hdb)))).
      + exact (conj eq_refl (conj Hdb Hf)).
    - (* clear *)
      unfold cmd_clear. rewrite Hf. cbn [bind fst snd].
      exact (conj eq_refl (conj db_ok_nil eq_refl)).
    - (* list *)
      unfold cmd_list. rewrite Hf. cbn [bind]. rewrite (all_sorted_id m (proj2 Hdb)).
      destruct m; cbn [fst snd]; exact (conj eq_refl (conj Hdb Hf)).
    - (* info *)
      unfold cmd_info. rewrite Hf. cbn [bind].
      destruct (get (new_name name) m); cbn [fst snd]; exact (conj eq_refl (conj Hdb Hf)).
    - (* resolve *)
      unfold cmd_resolve, read_inputs, spec_resolve. rewrite Hf. cbn [bind].
      destruct (retrieve abs fstat m args) as [fs | e | c]; cbn [bind fst snd].
      + destruct fs as [|f fs]; cbn [fst snd]; [exact (conj eq_refl (conj Hdb Hf))|].
        destruct (forallb _ (f :: fs)); cbn [bind fst snd]; exact (conj eq_refl (conj Hdb Hf)).
      + exact (conj eq_refl (conj Hdb Hf)).
      + exact (conj eq_refl (conj Hdb Hf)).
  Qed.

  (* ---------- histories ---------- *)

  Definition agree (cr : bytes * reply) (sr : coll * reply) : Prop :=
    snd cr = snd sr /\ db_ok (fst sr) /\ from_json (fst cr) = Ok (fst sr).

  Theorem history_refines ops : forall file m, db_ok m -> from_json file = Ok m -> Forall op_ok ops ->
    Forall2 agree (run_history abs fstat dir_of base_of ops file) (spec_history abs fstat dir_of base_of ops m).
  Proof.
    unfold run_history, spec_history.
    induction ops as [|o ops IH]; intros file m Hdb Hf Hops; [constructor|].
    inversion Hops as [|? ? Ho Hrest]; subst. cbn [trace].
    destruct (step_refines o file m Hdb Hf Ho) as (H1 & H2 & H3).
    constructor; [split; [exact H1 | split; [exact H2 | exact H3]]|].
    apply IH; assumption.
  Qed.

  (* no command of a history panics *)
  Theorem spec_never_panics o m : snd (step (spec_op o) m) <> RPanic.
  Proof.
    unfold step. destruct o as [path name force | name | | | name k | args]; cbn [spec_op].
    - destruct (force || _); cbn; discriminate.
    - destruct (has _ m); cbn; discriminate.
    - cbn; discriminate.
    - destruct m; cbn; discriminate.
    - destruct (get _ m); cbn; discriminate.
    - unfold spec_resolve, retrieve.
      assert (Hre : forall a, exists r, retrieve_each abs fstat m a = Ok r).
      { induction a as [|x a [r IHa]]; [eexists; reflexivity|]. cbn [retrieve_each]. rewrite IHa.
        destruct (resolve_arg m x); cbn [bind]; [rewrite new_file_abs; cbn [bind]|];
          destruct r; [destruct (fstat _)|]; eexists; reflexivity. }
      match goal with |- context [retrieve_each abs fstat m ?a] => destruct (Hre a) as ([fs e] & ->) end.
      cbn [bind]. destruct e; cbn [bind]; [cbn; discriminate|].
      destruct fs; cbn [bind]; [cbn; discriminate|]. destruct (forallb _ _); cbn; discriminate.
  Qed.

  (* unset of a name the map does not have: exit code 6, and (by [step]) the file stays as it is *)
  Theorem unset_unknown file m name : from_json file = Ok m -> get (new_name name) m = None ->
    run_op (OpUnset name) file = Err (EOther 6) /\ step (run_op (OpUnset name)) file = (file, RFail (EOther 6)).
  Proof.
    intros Hf Hg. unfold step. cbn [run_op]. unfold cmd_unset. rewrite Hf. cbn [bind]. unfold has. rewrite Hg. split; reflexivity.
  Qed.

  (* unset of a known name removes exactly that name *)
  Theorem unset_known file m name p : db_ok m -> from_json file = Ok m -> get (new_name name) m = Some p ->
    exists file' out, run_op (OpUnset name) file = Ok (file', out) /\
      from_json file' = Ok (remove (new_name name) m) /\
      get (new_name name) (remove (new_name name) m) = None /\
      (forall n', n' <> new_name name -> get n' (remove (new_name name) m) = get n' m).
  Proof.
    intros Hdb Hf Hg. cbn [run_op]. unfold cmd_unset. rewrite Hf. cbn [bind]. unfold has. rewrite Hg.
    eexists; eexists. split; [reflexivity|]. split; [apply db_roundtrip, db_ok_remove, Hdb|].
    split; [apply get_remove_same, Hdb | intros; apply get_remove_other; assumption].
  Qed.

  (* set adds or overwrites exactly one name *)
  Theorem set_effect file m path name force : db_ok m -> from_json file = Ok m ->
    valid_utf8 path -> valid_utf8 name -> (force = true \/ fstat (abs path) = FValid) ->
    exists file' out, run_op (OpSet path name force) file = Ok (file', out) /\
      from_json file' = Ok (set (new_name name) (abs path) m) /\
      get (new_name name) (set (new_name name) (abs path) m) = Some (abs path) /\
      (forall n', n' <> new_name name -> get n' (set (new_name name) (abs path) m) = get n' m).
  Proof.
    intros Hdb Hf Hpath Hname Hallowed.
    pose proof (step_refines (OpSet path name force) file m Hdb Hf (conj Hpath Hname)) as (H1 & H2 & H3).
    unfold step in *. cbn [spec_op] in H1, H2, H3.
    assert (Hc : force || match fstat (abs path) with FValid => true | _ => false end = true).
    { destruct Hallowed as [-> | ->]; [reflexivity | apply orb_true_r]. }
    rewrite Hc in *. cbn [fst snd] in *.
    destruct (run_op (OpSet path name force) file) as [[file' out] | e | c] eqn:E; cbn [fst snd] in *; try discriminate.
    exists file', out. split; [reflexivity|]. split; [exact H3|].
    split; [apply get_set_same | intros; apply get_set_other; assumption].
  Qed.

  (* the listing shows exactly the map's bindings, in strictly ascending name order *)
  Theorem list_sorted file m : db_ok m -> from_json file = Ok m -> m <> [] ->
    run_op OpList file = Ok (file, flat_map line_of m) /\ keys_sorted m.
  Proof.
    intros Hdb Hf Hne. cbn [run_op]. unfold cmd_list. rewrite Hf. cbn [bind].
    rewrite (all_sorted_id m (proj2 Hdb)). destruct m; [congruence|]. split; [reflexivity | apply Hdb].
  Qed.
End OS.
