(* C06 evaluate_total, the two gaps left by Proofs/ParserEval.v:
     1. `klog json`: under the guard of the views (gsize rs <= max_int64) every record fits ([record_fits]), so the
        command prints its document (Proofs/JsonView.v [to_json_total] decides between Ok and the overflow panic);
     2. the --now variants: closing the open ranges at a valid clock reading of a day that has a day before it
        returns the closed records or the ordinary error EUncloseable, never a panic, and every closed range adds at
        most 4319 minutes (2879 - (-1440)) to the size of the data, so with that head room the views of the closed
        records return.
   This file only assembles facts proved elsewhere: Proofs/Eval.v (close_open_ranges_spec, close_rel),
   Proofs/Report.v (total_cmd_spec, report_cmd_facts, today_cmd_spec), Proofs/JsonView.v (parsed_records_wf). *)
From Klog Require Import Base.Prelude Base.Utf8 Model.Calendar Model.Values Model.Record Model.Lines Model.Parser
  Model.Eval Model.Tags Model.Report Model.Json Model.JsonView.
From Klog Require Import Proofs.Values Proofs.Lines Proofs.Parser Proofs.Eval Proofs.Report Proofs.JsonView
  Proofs.ParserEval.
From Coq Require Import ZifyBool Lia.
Open Scope Z_scope.

(* ===================================================================== *)
(* 1. klog json                                                          *)
(* ===================================================================== *)

Lemma abs_sum_cons x xs : abs_sum (x :: xs) = Z.abs x + abs_sum xs.
Proof. reflexivity. Qed.

Lemma list_sum_zsum xs : list_sum xs = zsum xs.
Proof. reflexivity. Qed.

(* every running total is bounded by the sum of the absolute values *)
Lemma sums_ok_abs xs : forall acc, Z.abs acc + abs_sum xs <= max_int64 -> sums_ok acc xs = true.
Proof.
  induction xs as [|x r IH]; intros acc H; cbn [sums_ok]; [reflexivity|].
  rewrite abs_sum_cons in H. pose proof (abs_sum_nonneg r) as Hr.
  rewrite IH by lia. unfold sm_ok, sm_min, max_int64 in *. lia.
Qed.

Lemma gsize_cons r rs : gsize (r :: rs) = gsize [r] + gsize rs.
Proof. change (r :: rs) with ([r] ++ rs). apply gsize_app. Qed.

Lemma gsize_single r : gsize [r] = abs_sum (map spec_minutes (rec_entries r)) + Z.abs (should_minutes r).
Proof.
  unfold gsize, all_entries. cbn [flat_map map]. rewrite app_nil_r, abs_sum_cons.
  change (abs_sum []) with 0. lia.
Qed.

(* the total of a record, its should-total and their difference are bounded by the record's share of gsize *)
Lemma record_fits_guard r : gsize [r] <= max_int64 -> record_fits r = true.
Proof.
  rewrite gsize_single. intros G.
  unfold record_fits, diff_of, total_of, entry_mins. rewrite map_entry_minutes, list_sum_zsum.
  pose proof (zsum_abs_le (map spec_minutes (rec_entries r))) as Ht.
  pose proof (abs_sum_nonneg (map spec_minutes (rec_entries r))) as Hn.
  rewrite sums_ok_abs by (cbn [Z.abs]; lia).
  unfold sm_ok, sm_min, max_int64 in *. lia.
Qed.

(* the key lemma: the guard of the views implies the exact guard of klog json *)
Lemma records_fit_guard rs : gsize rs <= max_int64 -> forallb record_fits rs = true.
Proof.
  induction rs as [|r rs IH]; intros G; [reflexivity|].
  rewrite gsize_cons in G. pose proof (gsize_nonneg [r]). pose proof (gsize_nonneg rs).
  cbn [forallb]. rewrite record_fits_guard by lia. rewrite IH by lia. reflexivity.
Qed.

(* any number of files *)
Lemma inputs_fit_guard inputs : gsize (all_records inputs) <= max_int64 -> inputs_fit inputs = true.
Proof. intros G. unfold inputs_fit. destruct (all_errors inputs); [apply records_fit_guard; exact G|reflexivity]. Qed.

Lemma inputs_fit_failed file es : inputs_fit [(file, Failed es)] = true.
Proof.
  unfold inputs_fit. rewrite all_errors_single_failed, all_records_single_failed.
  destruct (map _ es); reflexivity.
Qed.

Theorem to_json_inputs_guard inputs pretty : gsize (all_records inputs) <= max_int64 ->
  to_json_inputs inputs pretty = Ok (print_doc pretty (document inputs)).
Proof. intros G. rewrite to_json_inputs_spec, (inputs_fit_guard _ G). reflexivity. Qed.

(* klog json [--pretty] file: the hypothesis that the records come from the parser is not used *)
Theorem evaluate_json_total (s : bytes) rs bs file pretty : parse_text s = Ok (Parsed rs bs) ->
  gsize rs <= max_int64 ->
  forallb record_fits rs = true /\
  to_json file (Parsed rs bs) pretty = Ok (print_doc pretty (document [(file, Parsed rs bs)])) /\
  exists out, to_json file (Parsed rs bs) pretty = Ok out.
Proof.
  intros _ G. split; [apply records_fit_guard; exact G|].
  assert (E : to_json file (Parsed rs bs) pretty = Ok (print_doc pretty (document [(file, Parsed rs bs)]))).
  { unfold to_json. apply to_json_inputs_guard. rewrite all_records_single. exact G. }
  split; [exact E|eexists; exact E].
Qed.

(* a file with syntax errors: the document of the errors, no guard *)
Theorem evaluate_json_failed_total (s : bytes) es file pretty : parse_text s = Ok (Failed es) ->
  to_json file (Failed es) pretty = Ok (print_doc pretty (document [(file, Failed es)])) /\
  exists out, to_json file (Failed es) pretty = Ok out.
Proof.
  intros _.
  assert (E : to_json file (Failed es) pretty = Ok (print_doc pretty (document [(file, Failed es)]))).
  { unfold to_json. rewrite to_json_inputs_spec, inputs_fit_failed. reflexivity. }
  split; [exact E|eexists; exact E].
Qed.

(* both halves, for one text *)
Theorem evaluate_json_both (s : bytes) (file : bytes) (pretty : bool) :
  (forall rs bs, parse_text s = Ok (Parsed rs bs) -> gsize rs <= max_int64 ->
     forallb record_fits rs = true /\
     to_json file (Parsed rs bs) pretty = Ok (print_doc pretty (document [(file, Parsed rs bs)])) /\
     exists out, to_json file (Parsed rs bs) pretty = Ok out) /\
  (forall es, parse_text s = Ok (Failed es) ->
     to_json file (Failed es) pretty = Ok (print_doc pretty (document [(file, Failed es)])) /\
     exists out, to_json file (Failed es) pretty = Ok out).
Proof.
  split; [intros rs bs; apply evaluate_json_total|intros es; apply evaluate_json_failed_total].
Qed.

(* ===================================================================== *)
(* 2. --now                                                              *)
(* ===================================================================== *)

(* the number of records that hold an open range: the records --now changes *)
Definition open_records (rs : list record) : Z := Z.of_nat (length (filter has_open_range rs)).

Lemma open_records_cons r rs : open_records (r :: rs) = (if has_open_range r then 1 else 0) + open_records rs.
Proof. unfold open_records. cbn [filter]. destruct (has_open_range r); cbn [length]; lia. Qed.

Lemma open_records_le_length rs : 0 <= open_records rs <= Z.of_nat (length rs).
Proof.
  induction rs as [|r rs IH]; [unfold open_records; cbn; lia|].
  rewrite open_records_cons. cbn [length]. destruct (has_open_range r); lia.
Qed.

(* the guard suggested first (4320 minutes for every record) implies the guard used below *)
Lemma now_guard_of_length rs k : gsize rs + 4320 * Z.of_nat (length rs) + k <= max_int64 ->
  gsize rs + 4319 * open_records rs + k <= max_int64.
Proof. pose proof (open_records_le_length rs). lia. Qed.

(* what closing adds to a record: nothing without an open range, at most 4319 minutes otherwise *)
Lemma closing_gain_bounds today before h m r r' : valid_clock h m -> wf_record r ->
  close_rel today before h m r r' ->
  0 <= closing_gain today h m r <= (if has_open_range r then 4319 else 0).
Proof.
  intros [Hh Hm] (_ & _ & Hw) Hc. inversion Hc as [r0 Hn|r0 pre e o post s Hf Hd Hle]; subst.
  - unfold closing_gain, has_open_range. rewrite (open_range_of_none _ Hn). lia.
  - unfold closing_gain, has_open_range. rewrite (open_range_of_some _ _ _ _ _ Hf).
    destruct (first_open_inv _ _ _ _ _ Hf) as (Heq & _ & He).
    assert (Hv : valid_time (o_start o)).
    { rewrite Forall_forall in Hw. specialize (Hw e). rewrite Heq in Hw.
      specialize (Hw ltac:(apply in_or_app; right; left; reflexivity)).
      destruct Hw as [Hw _]. rewrite He in Hw. exact Hw. }
    pose proof (offset_bounds _ Hv) as Hb. rewrite offset_spec in Hb, Hle. fold (spec_offset (o_start o)) in Hb, Hle.
    destruct Hd as [[Hd ->]|(Hd1 & Hd2 & ->)].
    + rewrite (proj2 (cdate_eqb_iff _ _) Hd). lia.
    + destruct (cdate_eqb (dt (rec_date r)) today) eqn:E1; [apply cdate_eqb_iff in E1; contradiction|]. lia.
Qed.

Lemma abs_sum_spec_app a b :
  abs_sum (map spec_minutes (a ++ b)) = abs_sum (map spec_minutes a) + abs_sum (map spec_minutes b).
Proof. rewrite map_app, abs_sum_app. reflexivity. Qed.

(* the size of a record after closing, exactly *)
Lemma close_rel_gsize today before h m r r' : close_rel today before h m r r' ->
  gsize [r'] = gsize [r] + Z.abs (closing_gain today h m r).
Proof.
  intros Hc. pose proof (close_rel_minutes _ _ _ _ _ _ Hc) as Hmin.
  inversion Hc as [r0 Hn|r0 pre e o post s Hf Hd Hle]; subst.
  - unfold closing_gain. rewrite (open_range_of_none _ Hn). cbn [Z.abs]. lia.
  - rewrite !gsize_single. cbn [rec_entries] in Hmin |- *.
    change (should_minutes {| rec_date := rec_date r; rec_should := rec_should r; rec_summary := rec_summary r;
                              rec_entries := pre ++ closed_entry e o (clock h m s) :: post |})
      with (should_minutes r).
    destruct (first_open_inv _ _ _ _ _ Hf) as (Heq & _ & He). rewrite Heq in Hmin |- *.
    rewrite !zsum_spec_app in Hmin. rewrite !abs_sum_spec_app. cbn [map] in Hmin |- *. rewrite !abs_sum_cons.
    unfold zsum in Hmin at 2 4. cbn [fold_right] in Hmin.
    fold (zsum (map spec_minutes post)) in Hmin.
    assert (He0 : spec_minutes e = 0) by (unfold spec_minutes; rewrite He; reflexivity).
    rewrite He0 in Hmin |- *. cbn [Z.abs].
    assert (Hg : spec_minutes (closed_entry e o (clock h m s)) = closing_gain today h m r) by lia.
    rewrite Hg. lia.
Qed.

(* all records: the exact size, and the bound by the number of open ranges *)
Lemma close_all_gsize today before h m rs rs' : valid_clock h m -> Forall wf_record rs ->
  Forall2 (close_rel today before h m) rs rs' ->
  gsize rs' = gsize rs + zsum (map (closing_gain today h m) rs) /\
  0 <= zsum (map (closing_gain today h m) rs) <= 4319 * open_records rs.
Proof.
  intros Hv Hw HF. induction HF as [|r r' rs rs' Hc HF IH].
  - split; [reflexivity|]. unfold open_records. cbn. lia.
  - inversion Hw as [|? ? Hw1 Hw2]; subst. destruct (IH Hw2) as [IH1 IH2].
    pose proof (closing_gain_bounds _ _ _ _ _ _ Hv Hw1 Hc) as Hb.
    rewrite (gsize_cons r'), (gsize_cons r), IH1, (close_rel_gsize _ _ _ _ _ _ Hc), open_records_cons.
    cbn [map]. change (zsum (?x :: ?l)) with (x + zsum l).
    destruct (has_open_range r); lia.
Qed.

Lemma close_empty today before h m : valid_clock h m -> plus_days today (-1) = Ok before ->
  close_open_ranges today h m [] = Ok [].
Proof. intros Hv Hb. unfold close_open_ranges. rewrite Hb, (new_time_clock _ _ Hv). reflexivity. Qed.

(* the --now variants of the views on a text the parser accepts *)
Theorem evaluate_now_no_crash (s : bytes) rs bs today y h m : parse_text s = Ok (Parsed rs bs) ->
  valid_clock h m -> plus_days today (-1) = Ok y ->
  gsize rs + 4319 * open_records rs <= max_int64 ->
  (* CloseOpenRanges: the closed records or the ordinary error, never a panic *)
  ((exists rs', close_open_ranges today h m rs = Ok rs') \/ close_open_ranges today h m rs = Err EUncloseable) /\
  (forall c, close_open_ranges today h m rs <> Crash c) /\
  (* when the open ranges can be closed: the size of the closed records, and the views of them return *)
  (forall rs', close_open_ranges today h m rs = Ok rs' ->
     gsize rs' = gsize rs + zsum (map (closing_gain today h m) rs) /\
     gsize rs' <= gsize rs + 4319 * open_records rs /\
     total_cmd true today h m rs =
       Ok (spec_total rs', spec_should rs', spec_total rs' - spec_should rs', Z.of_nat (length rs')) /\
     (forall a fill df, exists v, report_cmd a fill df true today h m rs = Ok v) /\
     (gsize rs + 4319 * open_records rs + 1439 <= max_int64 -> exists v, today_cmd true today h m rs = Ok v)) /\
  (* when they cannot: every view ends with that error, none panics *)
  (forall e, close_open_ranges today h m rs = Err e ->
     e = EUncloseable /\ Exists (uncloseable today y h m) rs /\
     total_cmd true today h m rs = Err e /\
     (forall a fill df, report_cmd a fill df true today h m rs = Err e) /\
     today_cmd true today h m rs = Err e).
Proof.
  intros Hp Hv Hy G.
  pose proof (parsed_records_valid s rs bs Hp) as V.
  pose proof (parsed_records_wf s rs bs Hp) as W.
  destruct (close_open_ranges_spec today y h m rs Hv Hy) as (Sok & Serr & Se & Sc).
  split; [|split; [exact Sc|split]].
  - destruct (close_open_ranges today h m rs) as [rs'|e|c] eqn:E.
    + left. eexists. reflexivity.
    + right. rewrite (Se e eq_refl). reflexivity.
    + exfalso. exact (Sc c eq_refl).
  - intros rs' E. pose proof (proj1 (Sok rs') E) as HF.
    destruct (close_all_gsize _ _ _ _ _ _ Hv W HF) as [Gs Gb].
    assert (Gv : views_guard rs') by (unfold views_guard, max_int64 in *; lia).
    assert (Ea : apply_now true today h m rs = Ok rs') by exact E.
    split; [exact Gs|]. split; [lia|].
    split; [exact (total_cmd_spec true today h m rs rs' Ea Gv)|]. split.
    + intros a fill df. destruct rs as [|r rs0]; [eexists; reflexivity|].
      destruct (report_cmd_facts a fill df true today h m (r :: rs0) rs' ltac:(discriminate) V Ea Gv) as (rep & Er & _).
      eexists; exact Er.
    + intros G2.
      assert (G3 : gsize rs' + 1439 <= max64) by (unfold max64, max_int64 in *; lia).
      destruct (today_cmd_spec true today y h m rs rs' Hv Hy Ea G3) as (v & _ & _ & Et & _).
      eexists; exact Et.
  - intros e E. split; [exact (Se e E)|]. split; [apply (proj1 Serr); eexists; exact E|].
    split; [|split].
    + unfold total_cmd, apply_now. rewrite E. reflexivity.
    + intros a fill df. destruct rs as [|r rs0].
      * rewrite (close_empty _ _ _ _ Hv Hy) in E. discriminate.
      * unfold report_cmd, apply_now. rewrite E. reflexivity.
    + unfold today_cmd, apply_now. rewrite E. reflexivity.
Qed.

(* ---- non-vacuity material ---- *)

(* 2020-01-01 (8h!) with a closed range, an open range and a duration; the day before with an open range *)
Definition now_text : bytes :=
  (b!"2019-12-31" ++ [10] ++ b!"    22:15 - ?" ++ [10] ++ [10] ++
   b!"2020-01-01 (8h!)" ++ [10] ++ b!"    6:00 - 7:00" ++ [10] ++ b!"    8:00 - ? work" ++ [10] ++ b!"    -15m")%N.

(* an open range two days before the instant cannot be closed *)
Definition now_text_stale : bytes :=
  (b!"2019-12-30" ++ [10] ++ b!"    22:15 - ?")%N.

Definition now_today : cdate := {| c_year := 2020; c_month := 1; c_day := 1 |}.
