(* C17 — clock-relative behaviour is right at every minute of the day.
   Property theorems only; each is closed by [exact <lemma>] and followed by Print Assumptions.
   Model: Model/Commands.v (at_date, at_time, round_to_nearest, Stop's creator chain) after fix F6.
   Definitions used in the statements (roundings, nearest, clock_ok, rounding_ok, rounded_offset, finish,
   stop_time) are in Proofs/Rounding.v.
   Not here: `total --now` (C02_total_now_spec in Properties/C02.v). *)
From Klog Require Import Base.Prelude Model.Calendar Model.Values Model.Record Model.Lines Model.Parser
  Model.Reconcile Model.Commands Proofs.Values Proofs.Calendar Proofs.Rounding.
Open Scope Z_scope.

(* 1. RoundToNearest: for every minute of the day and every allowed rounding the result is the nearest multiple,
      ties up; it lies in 0:00 .. 24:00 (= 0:00>) and the function neither fails nor panics *)
Theorem C17_round_spec : forall t v, valid_time t -> t_shift t = 0 -> In v [5; 10; 12; 15; 20; 30; 60] ->
  exists t', round_to_nearest t v = Ok t' /\ valid_time t' /\
             time_offset t' = v * ((2 * time_offset t + v) / (2 * v)) /\
             0 <= time_offset t' <= 1440 /\ t_24h t' = true.
Proof. exact round_spec. Qed.
Print Assumptions C17_round_spec.

(* [v * ((2*off + v) / (2*v))] is the nearest multiple: none is closer, and of two equally close ones it is the larger *)
Theorem C17_nearest_is_nearest : forall off v k, 0 <= off -> In v [5; 10; 12; 15; 20; 30; 60] ->
  Z.abs (off - v * ((2 * off + v) / (2 * v))) <= Z.abs (off - v * k) /\
  (Z.abs (off - v * ((2 * off + v) / (2 * v))) = Z.abs (off - v * k) -> v * k <= v * ((2 * off + v) / (2 * v))).
Proof. exact nearest_is_nearest. Qed.
Print Assumptions C17_nearest_is_nearest.

(* 2. AtTime without --time, at every clock reading whose neighbouring days exist, for every configuration and
      rounding: by the target date d —
        today      the rounded time;
        yesterday  the rounded time + 24h (written with `>`), an ERROR exactly when the rounded time is 24:00;
        tomorrow   the rounded time - 24h (written with `<`);
        otherwise  the error "missing time". *)
Theorem C17_at_time_spec : forall now cfg a d y tm,
  clock_ok now -> rounding_ok cfg a -> a_time a = None ->
  plus_days (now_date now) (-1) = Ok y -> plus_days (now_date now) 1 = Ok tm ->
  at_date now (a_date a) = Ok d ->
  let r := rounded_offset now cfg a in
  (dt d = now_date now -> exists t, at_time now cfg a = COk t /\ valid_time t /\ time_offset t = r) /\
  (dt d = y -> r < 1440 -> exists t, at_time now cfg a = COk t /\ valid_time t /\ time_offset t = r + 1440) /\
  (dt d = y -> r = 1440 -> at_time now cfg a = CErr CEImpossibleTime) /\
  (dt d = tm -> exists t, at_time now cfg a = COk t /\ valid_time t /\ time_offset t = r - 1440) /\
  (dt d <> now_date now -> dt d <> y -> dt d <> tm -> at_time now cfg a = CErr CEMissingTime).
Proof. exact at_time_spec. Qed.
Print Assumptions C17_at_time_spec.

(* the same by date selection flag *)
Theorem C17_at_time_by_selection : forall now cfg a y tm,
  clock_ok now -> rounding_ok cfg a -> a_time a = None ->
  plus_days (now_date now) (-1) = Ok y -> plus_days (now_date now) 1 = Ok tm ->
  let r := rounded_offset now cfg a in
  match a_date a with
  | DDefault | DToday => exists t, at_time now cfg a = COk t /\ time_offset t = r
  | DYesterday => if r <? 1440 then exists t, at_time now cfg a = COk t /\ time_offset t = r + 1440
                  else at_time now cfg a = CErr CEImpossibleTime
  | DTomorrow => exists t, at_time now cfg a = COk t /\ time_offset t = r - 1440
  | DExplicit d =>
    if cdate_eqb (dt d) (now_date now) then exists t, at_time now cfg a = COk t /\ time_offset t = r
    else if cdate_eqb (dt d) y then
      (if r <? 1440 then exists t, at_time now cfg a = COk t /\ time_offset t = r + 1440
       else at_time now cfg a = CErr CEImpossibleTime)
    else if cdate_eqb (dt d) tm then exists t, at_time now cfg a = COk t /\ time_offset t = r - 1440
    else at_time now cfg a = CErr CEMissingTime
  end.
Proof. exact at_time_by_selection. Qed.
Print Assumptions C17_at_time_by_selection.

(* AtTime never panics, and every time it returns is a valid one *)
Theorem C17_at_time_never_crash : forall now cfg a y tm,
  clock_ok now -> rounding_ok cfg a -> (forall t, a_time a = Some t -> valid_time t) ->
  plus_days (now_date now) (-1) = Ok y -> plus_days (now_date now) 1 = Ok tm ->
  at_time now cfg a <> CCrash /\ (forall t, at_time now cfg a = COk t -> valid_time t).
Proof. exact at_time_never_crash. Qed.
Print Assumptions C17_at_time_never_crash.

(* the hypothesis on the neighbouring days is needed: on 0000-01-01 `--yesterday` panics in Date.PlusDays, in the
   model as in the code (same cause as K-finding F8; the clock of a real machine never shows that date) *)
Theorem C17_at_time_first_day_refuted :
  exists now cfg a, clock_ok now /\ rounding_ok cfg a /\ a_time a = None /\ at_time now cfg a = CCrash.
Proof.
  exists {| now_date := mk 0 1 1; now_h := 12; now_m := 0 |},
         {| cfg_round := None; cfg_should := None; cfg_dashes := None; cfg_24h := None |},
         {| a_date := DYesterday; a_time := None; a_round := None |}.
  split; [unfold clock_ok; cbn; split; [reflexivity|split; discriminate || (split; discriminate)]|].
  split; [exact I|]. split; [reflexivity|]. exact at_time_first_day_crash.
Qed.
Print Assumptions C17_at_time_first_day_refuted.

(* stop with an explicit date selection looks at the record of that date only and never computes the day before: every
   date of the calendar, the first one included, is an ordinary target (fix F13) *)
Theorem C17_stop_explicit_date : forall now cfg a summary file d t rs bs,
  at_date now (a_date a) = Ok d -> at_time now cfg a = COk t -> was_automatic a = false ->
  parse_text file = Ok (Parsed rs bs) ->
  exec_simple now cfg (Stop a summary) file =
    match reconciler_at_record (dt d) rs bs with
    | Some r => finish (lift_r (close_open_range r t (time_format cfg a) (match summary with Some s => s | None => [] end)))
    | None => CErr CENoSuchRecord
    end.
Proof. exact stop_explicit_date. Qed.
Print Assumptions C17_stop_explicit_date.

(* 3. Stop. Spelled out for any arguments: the record of the target date when there is one; otherwise, and only
      when neither a date nor a time was selected, yesterday's record with the end time shifted by 24 hours
      ([stop_time] turns a failing Time.Plus into the error "impossible time") *)
Theorem C17_stop_unfold : forall now cfg a summary file d t y rs bs,
  at_date now (a_date a) = Ok d -> at_time now cfg a = COk t -> plus_days (dt d) (-1) = Ok y ->
  valid_cdate (dt d) = true ->
  parse_text file = Ok (Parsed rs bs) ->
  let fmt := time_format cfg a in
  let add := match summary with Some s => s | None => [] end in
  exec_simple now cfg (Stop a summary) file =
    match reconciler_at_record (dt d) rs bs with
    | Some r => finish (lift_r (close_open_range r t fmt add))
    | None =>
      if was_automatic a then
        match reconciler_at_record y rs bs with
        | Some r => let+ t' := stop_time (time_plus t 1440) in finish (lift_r (close_open_range r t' fmt add))
        | None => CErr CENoSuchRecord
        end
      else CErr CENoSuchRecord
    end.
Proof. exact stop_unfold. Qed.
Print Assumptions C17_stop_unfold.

(* `stop` without date and time selection: today's record at the rounded time; yesterday's record only when no
   record is dated today, and then at the rounded time + 24h; when that cannot be written (rounded time 24:00) the
   command fails with an error — no panic, no wrong time *)
Theorem C17_stop_fallback_spec : forall now cfg a summary file y tm rs bs,
  clock_ok now -> rounding_ok cfg a -> was_automatic a = true ->
  plus_days (now_date now) (-1) = Ok y -> plus_days (now_date now) 1 = Ok tm ->
  parse_text file = Ok (Parsed rs bs) ->
  let r := rounded_offset now cfg a in
  let fmt := time_format cfg a in
  let add := match summary with Some s => s | None => [] end in
  exists t, valid_time t /\ time_offset t = r /\
    exec_simple now cfg (Stop a summary) file =
      match reconciler_at_record (now_date now) rs bs with
      | Some rc => finish (lift_r (close_open_range rc t fmt add))
      | None =>
        match reconciler_at_record y rs bs with
        | Some rc => let+ t' := stop_time (time_plus t 1440) in finish (lift_r (close_open_range rc t' fmt add))
        | None => CErr CENoSuchRecord
        end
      end /\
    (r < 1440 -> exists t', stop_time (time_plus t 1440) = COk t' /\ valid_time t' /\ time_offset t' = r + 1440) /\
    (r = 1440 -> stop_time (time_plus t 1440) = CErr CEImpossibleTime).
Proof. exact stop_fallback_spec. Qed.
Print Assumptions C17_stop_fallback_spec.

(* the 24-hour shift of a valid time: exact, or an error; never a panic *)
Theorem C17_stop_time_spec : forall t, valid_time t ->
  (time_offset t < 1440 -> exists t', stop_time (time_plus t 1440) = COk t' /\ valid_time t' /\ time_offset t' = time_offset t + 1440) /\
  (1440 <= time_offset t -> stop_time (time_plus t 1440) = CErr CEImpossibleTime) /\
  stop_time (time_plus t 1440) <> CCrash.
Proof. exact stop_time_spec. Qed.
Print Assumptions C17_stop_time_spec.

(* with a date selection or an explicit time there is no fallback *)
Theorem C17_stop_no_fallback : forall now cfg a summary file d t y rs bs,
  was_automatic a = false ->
  at_date now (a_date a) = Ok d -> at_time now cfg a = COk t -> plus_days (dt d) (-1) = Ok y ->
  valid_cdate (dt d) = true -> parse_text file = Ok (Parsed rs bs) ->
  reconciler_at_record (dt d) rs bs = None ->
  exec_simple now cfg (Stop a summary) file = CErr CENoSuchRecord.
Proof. exact stop_no_fallback. Qed.
Print Assumptions C17_stop_no_fallback.

(* ---- non-vacuity: the critical end of the day ---- *)
Definition ex_now : clock := {| now_date := mk 2020 3 15; now_h := 23; now_m := 58 |}.
Definition ex_cfg : config := {| cfg_round := None; cfg_should := None; cfg_dashes := None; cfg_24h := None |}.
Definition ex_args (s : datesel) : at_args := {| a_date := s; a_time := None; a_round := Some 5 |}.

Example ex_clock_ok : clock_ok ex_now /\ rounding_ok ex_cfg (ex_args DYesterday) /\
  plus_days (now_date ex_now) (-1) = Ok (mk 2020 3 14) /\ plus_days (now_date ex_now) 1 = Ok (mk 2020 3 16).
Proof.
  split; [unfold clock_ok, ex_now; cbn; split; [reflexivity|split; split; discriminate]|].
  split; [cbn; tauto|]. split; vm_compute; reflexivity.
Qed.

(* 23:58 rounded to 5 minutes is 24:00 *)
Example ex_rounded : rounded_offset ex_now ex_cfg (ex_args DDefault) = 1440.
Proof. vm_compute. reflexivity. Qed.

(* ... which `start` (today) writes as 0:00>, which --tomorrow writes as 0:00, and which --yesterday cannot write (F6) *)
Example ex_today : at_time ex_now ex_cfg (ex_args DDefault) = COk {| t_hour := 0; t_min := 0; t_shift := 1; t_24h := true |}.
Proof. vm_cast_no_check (@eq_refl (cresult time) (COk {| t_hour := 0; t_min := 0; t_shift := 1; t_24h := true |})). Qed.
Example ex_tomorrow : at_time ex_now ex_cfg (ex_args DTomorrow) = COk {| t_hour := 0; t_min := 0; t_shift := 0; t_24h := true |}.
Proof. vm_cast_no_check (@eq_refl (cresult time) (COk {| t_hour := 0; t_min := 0; t_shift := 0; t_24h := true |})). Qed.
Example ex_yesterday : at_time ex_now ex_cfg (ex_args DYesterday) = CErr CEImpossibleTime.
Proof. vm_cast_no_check (@eq_refl (cresult time) (CErr CEImpossibleTime)). Qed.

(* stop at 23:40 rounded to 60 minutes with only yesterday's record open: an error, the file is not written *)
Definition ex_file : bytes := b!"2020-03-14
    22:00 - ?
".
Example ex_stop_fallback_impossible :
  exec_simple {| now_date := mk 2020 3 15; now_h := 23; now_m := 40 |} ex_cfg
    (Stop {| a_date := DDefault; a_time := None; a_round := Some 60 |} None) ex_file = CErr CEImpossibleTime.
Proof. vm_cast_no_check (@eq_refl (cresult bytes) (CErr CEImpossibleTime)). Qed.
(* ... and at 23:20 the range is closed at 23:00> *)
Example ex_stop_fallback :
  exec_simple {| now_date := mk 2020 3 15; now_h := 23; now_m := 20 |} ex_cfg
    (Stop {| a_date := DDefault; a_time := None; a_round := Some 60 |} None) ex_file
  = COk b!"2020-03-14
    22:00 - 23:00>
".
Proof. vm_cast_no_check (@eq_refl (cresult bytes) (COk b!"2020-03-14
    22:00 - 23:00>
")). Qed.
