(* Report: the evaluation views of klog. Definitions only.
     klog/app/cli/report.go + report/{day,week,month,quarter,year}.go   (report rows, --fill, --diff, --now)
     klog/service/query.go Sort                                          (sort by date)
     klog/app/cli/total.go, today.go, print.go (printWithDurations)      (the other views of the same total)
   Go maps are association lists in insertion order (the report never iterates over the map, it only looks
   keys up); panics are [Crash]; every loop is structural or fuel-bounded. *)
From Klog Require Import Base.Prelude Model.Calendar Model.Values Model.Record Model.Eval Model.Period.
Open Scope Z_scope.

Definition rdate (r : record) : cdate := dt (rec_date r).

(* ---------------- aggregators: report/*.go DateHash ---------------- *)

Inductive agg := ADay | AWeek | AMonth | AQuarter | AYear.

Definition agg_hash (a : agg) (c : cdate) : outcome Z :=
  match a with
  | ADay => day_hash c
  | AWeek => week_hash c
  | AMonth => month_hash c
  | AQuarter => quarter_hash c
  | AYear => year_hash c
  end.

(* ---------------- service.Sort(rs, true) ----------------
   Go: sort.Slice (pdqsort, not stable) with less(i, j) = date[j].IsAfterOrEqual(date[i]).
   Here: insertion sort that keeps records of equal date in file order. That the order among equal dates
   cannot be observed in any view is Proofs/Report.v [report_sort_invariant]. *)
Fixpoint insert_by_date (r : record) (l : list record) : list record :=
  match l with
  | [] => [r]
  | x :: rest => if cdate_geb (rdate x) (rdate r) then r :: l else x :: insert_by_date r rest
  end.

Fixpoint sort_by_date (rs : list record) : list record :=
  match rs with
  | [] => []
  | r :: rest => insert_by_date r (sort_by_date rest)
  end.

Fixpoint map_outcome {A B} (f : A -> outcome B) (l : list A) : outcome (list B) :=
  match l with
  | [] => Ok []
  | x :: r => let* y := f x in let* ys := map_outcome f r in Ok (y :: ys)
  end.

(* ---------------- groupByDate ----------------
   days map[Hash][]Record and order []Date: one group per hash, in order of first appearance; g_date is
   the entry of `order` (the date of the record that created the group). *)
Record group := { g_hash : Z; g_date : cdate; g_recs : list record }.

Fixpoint add_to_groups (h : Z) (r : record) (gs : list group) : list group :=
  match gs with
  | [] => [{| g_hash := h; g_date := rdate r; g_recs := [r] |}]
  | g :: rest =>
    if g_hash g =? h
    then {| g_hash := g_hash g; g_date := g_date g; g_recs := g_recs g ++ [r] |} :: rest
    else g :: add_to_groups h r rest
  end.

Definition group_by_date (keyed : list (Z * record)) : list group :=
  fold_left (fun gs hr => add_to_groups (fst hr) (snd hr) gs) keyed [].

(* recordGroups[hash]: nil when absent *)
Definition find_group (h : Z) (gs : list group) : list record :=
  match find (fun g => g_hash g =? h) gs with
  | Some g => g_recs g
  | None => []
  end.

(* ---------------- allDatesRange ---------------- *)
Fixpoint dates_loop (fuel : nat) (last to : cdate) : outcome (list cdate) :=
  if cdate_geb last to then Ok [last] else
  match fuel with
  | O => Crash COutOfFuel
  | S k => let* next := plus_days last 1 in
           let* rest := dates_loop k next to in
           Ok (last :: rest)
  end.

Definition all_dates_range (from to : cdate) : outcome (list cdate) :=
  dates_loop (Z.to_nat (days_of to - days_of from)) from to.

(* ---------------- the value cells of a row ---------------- *)
(* total, and (should, diff) when --diff is given *)
Record cells := { c_total : Z; c_sd : option (Z * Z) }.

Definition eval_cells (with_diff : bool) (rs : list record) : outcome cells :=
  let* t := total rs in
  if with_diff then
    let* s := should_total_sum rs in
    let* d := diff s t in
    Ok {| c_total := t; c_sd := Some (s, d) |}
  else Ok {| c_total := t; c_sd := None |}.

(* a row: the date handed to OnRowPrefix, and the cells (None: table.Skip, a filled gap) *)
Record row := { row_date : cdate; row_cells : option cells }.

Definition mem_z (h : Z) (l : list Z) : bool := existsb (Z.eqb h) l.

(* for _, date := range dates { ... } with hashesAlreadyProcessed *)
Fixpoint rows_loop (with_diff : bool) (gs : list group) (seen : list Z) (dates : list (Z * cdate))
    : outcome (list row) :=
  match dates with
  | [] => Ok []
  | (h, d) :: rest =>
    if mem_z h seen then rows_loop with_diff gs seen rest
    else
      let* c := match find_group h gs with
                | [] => Ok None
                | rs => let* c := eval_cells with_diff rs in Ok (Some c)
                end in
      let* more := rows_loop with_diff gs (h :: seen) rest in
      Ok ({| row_date := d; row_cells := c |} :: more)
  end.

Record report := { rep_rows : list row; rep_grand : cells }.

(* Report.Run from `records = service.Sort(records, true)` on; None: nothing is printed *)
Definition report_sorted (a : agg) (fill with_diff : bool) (sorted : list record) : outcome (option report) :=
  match sorted with
  | [] => Ok None
  | first :: _ =>
    let* hs := map_outcome (fun r => agg_hash a (rdate r)) sorted in
    let gs := group_by_date (combine hs sorted) in
    let* dates := if fill then all_dates_range (rdate first) (rdate (last sorted first))
                  else Ok (map g_date gs) in
    let* hd := map_outcome (fun d => let* h := agg_hash a d in Ok (h, d)) dates in
    let* rows := rows_loop with_diff gs [] hd in
    let* grand := eval_cells with_diff sorted in
    Ok (Some {| rep_rows := rows; rep_grand := grand |})
  end.

(* NowArgs.ApplyNow *)
Definition apply_now (now_flag : bool) (today : cdate) (h m : Z) (rs : list record) : outcome (list record) :=
  if now_flag then close_open_ranges today h m rs else Ok rs.

(* klog report --aggregate a [--fill] [--diff] [--now], no filter *)
Definition report_cmd (a : agg) (fill with_diff now_flag : bool) (today : cdate) (h m : Z) (rs : list record)
    : outcome (option report) :=
  match rs with
  | [] => Ok None
  | _ => let* rs' := apply_now now_flag today h m rs in
         report_sorted a fill with_diff (sort_by_date rs')
  end.

(* klog total --diff [--now]: total, should, diff, number of records *)
Definition total_cmd (now_flag : bool) (today : cdate) (h m : Z) (rs : list record) : outcome (Z * Z * Z * Z) :=
  let* rs' := apply_now now_flag today h m rs in
  let* t := total rs' in
  let* s := should_total_sum rs' in
  let* d := diff s t in
  Ok (t, s, d, Z.of_nat (length rs')).

(* ---------------- klog today ---------------- *)

(* splitIntoCurrentAndOther *)
Definition split_today (today yesterday : cdate) (rs : list record) : list record * list record * bool :=
  let todays := filter (fun r => cdate_eqb (rdate r) today) rs in
  let yesterdays := filter (fun r => negb (cdate_eqb (rdate r) today) && cdate_eqb (rdate r) yesterday) rs in
  let others := filter (fun r => negb (cdate_eqb (rdate r) today) && negb (cdate_eqb (rdate r) yesterday)) rs in
  match todays, yesterdays with
  | _ :: _, _ => (todays, others ++ yesterdays, false)
  | [], _ :: _ => (yesterdays, others, true)
  | [], [] => ([], others, false)
  end.

(* Today.evaluate: always total, should and diff *)
Definition eval3 (rs : list record) : outcome (Z * Z * Z) :=
  let* t := total rs in
  let* s := should_total_sum rs in
  let* d := diff s t in
  Ok (t, s, d).

(* klog.NewTimeFromGo(now).Plus(klog.NewDuration(0, 0).Minus(diff)); the error is dropped: None is a nil Time *)
Definition end_time (now_t : time) (d : Z) : outcome (option time) :=
  let* neg := dur_plus 0 (- d) in
  match time_plus now_t neg with
  | Ok t => Ok (Some t)
  | Err _ => Ok None
  | Crash c => Crash c
  end.

Record today_view := {
  tv_yesterday : bool;
  tv_has_current : bool;
  tv_had_open : bool;             (* NowArgs.HadOpenRange() *)
  tv_current : Z * Z * Z;  tv_current_end : option time;
  tv_other : Z * Z * Z;
  tv_all : Z * Z * Z;      tv_all_end : option time
}.

Definition has_open_range (r : record) : bool :=
  match open_range_of r with Some _ => true | None => false end.

Definition today_cmd (now_flag : bool) (today : cdate) (h m : Z) (rs : list record) : outcome today_view :=
  let* rs' := apply_now now_flag today h m rs in
  let* yesterday := plus_days today (-1) in
  let* now_t := new_time h m 0 true in
  let '(cur, other, is_y) := split_today today yesterday rs' in
  let* (ct, cs, cd) := eval3 cur in
  let* cend := end_time now_t cd in
  let* (ot, os, od) := eval3 other in
  let* gt := dur_plus ct ot in
  let* gs := dur_plus cs os in
  let* gd := diff gs gt in
  let* gend := end_time now_t gd in
  Ok {| tv_yesterday := is_y;
        tv_has_current := match cur with [] => false | _ => true end;
        tv_had_open := now_flag && existsb has_open_range rs;
        tv_current := (ct, cs, cd); tv_current_end := cend;
        tv_other := (ot, os, od);
        tv_all := (gt, gs, gd); tv_all_end := gend |}.

(* ---------------- klog print --with-totals ----------------
   one underlined prefix per record (service.Total(record)), one subdued prefix per entry
   (Entries()[i].Duration()) *)
Definition with_totals (rs : list record) : outcome (list (Z * list Z)) :=
  map_outcome (fun r => let* t := total [r] in Ok (t, map entry_minutes (rec_entries r))) rs.
