(* C11 — inserted text follows the file's own style, deterministically.
   Property theorems only; each is closed by [exact <lemma>] and followed by Print Assumptions.
   Model: Model/Reconcile.v (determine, votes_of, tally_up, ascertain, elect, insert, reconciler_at_record) after the
   fixes F4 (ties of the election go to the value that was voted for first, instead of Go's map order) and F5
   (indentation and line ending are read off the record's significant lines only).
   Definitions used in the statements (winner, keeps_explicit, styles_of, indented) are in Proofs/Style.v; new_date,
   a_elect, f24/fsp/fex, reformat_time in Proofs/CommandsRefine.v.
   Determinism ("repeating the command on the same input yields the same bytes") holds of the model by
   construction — [exec] is a Gallina function of clock, configuration, command and file, and after F4 nothing in it
   depends on an iteration order; the content is C11_election_spec/_unique: WHICH value wins is fixed by the votes.
   The comparison of repeated runs of the real code is the style-election suite.
   Not here: "the result is always accepted by the parser" is C05_exec_ok_valid. *)
From Klog Require Import Base.Prelude Model.Calendar Model.Values Model.Record Model.Lines Model.Parser
  Model.Reconcile Model.Commands Proofs.Values Proofs.Style Proofs.Reconcile Proofs.CommandsRefine.
Open Scope Z_scope.

(* 1. the election: the winner was voted for; every value voted for EARLIER has strictly fewer votes, every value
      voted for LATER has at most as many — i.e. the most voted value wins and a tie goes to the earliest voter *)
Theorem C11_election_spec : forall (A : Type) (eqb : A -> A -> bool), (forall a, eqb a a = true) ->
  forall votes d, votes <> [] ->
  exists pre post, votes = pre ++ tally_up eqb votes d :: post /\
    (forall v, In v pre -> (count_votes eqb v votes < count_votes eqb (tally_up eqb votes d) votes)%nat) /\
    (forall v, In v post -> (count_votes eqb v votes <= count_votes eqb (tally_up eqb votes d) votes)%nat).
Proof. exact (@tally_spec). Qed.
Print Assumptions C11_election_spec.

(* ... and that description has exactly one solution: the outcome is a function of the votes, not of the algorithm *)
Theorem C11_election_unique : forall (A : Type) (eqb : A -> A -> bool) votes w1 w2, winner eqb votes w1 -> winner eqb votes w2 -> w1 = w2.
Proof. exact (@winner_unique). Qed.
Print Assumptions C11_election_unique.

Theorem C11_election_max : forall (A : Type) (eqb : A -> A -> bool), (forall a, eqb a a = true) ->
  forall votes d v, In v votes -> (count_votes eqb v votes <= count_votes eqb (tally_up eqb votes d) votes)%nat.
Proof. exact (@tally_max). Qed.
Print Assumptions C11_election_max.

(* no votes: the default; unanimous votes: that value; always: a voted value or the default *)
Theorem C11_default_style : forall (A : Type) (eqb : A -> A -> bool) d, tally_up eqb [] d = d.
Proof. exact (@tally_nil). Qed.
Print Assumptions C11_default_style.

Theorem C11_unanimous : forall (A : Type) (eqb : A -> A -> bool), (forall a, eqb a a = true) ->
  forall votes d v, votes <> [] -> (forall x, In x votes -> x = v) -> tally_up eqb votes d = v.
Proof. exact (@tally_unanimous). Qed.
Print Assumptions C11_unanimous.

Theorem C11_elected_is_voted_or_default : forall (A : Type) (eqb : A -> A -> bool), (forall a, eqb a a = true) ->
  forall votes d, (votes = [] /\ tally_up eqb votes d = d) \/ In (tally_up eqb votes d) votes.
Proof. exact (@tally_voted_or_default). Qed.
Print Assumptions C11_elected_is_voted_or_default.

(* 2. the same at the level of the elected style, for any of the six facts [f] (line ending, indentation, date
      separator, clock convention, dash spacing, placeholder length) that the base (the target record, or the
      built-in default for a new record) does not exhibit itself *)
Theorem C11_elected_unanimous : forall (A : Type) (eqb : A -> A -> bool), (forall a, eqb a a = true) ->
  forall (f : style -> sprop A) base ss, sp_explicit (f base) = false ->
  forall v, (exists s, In s ss /\ sp_explicit (f s) = true) ->
  (forall s, In s ss -> sp_explicit (f s) = true -> sp_val (f s) = v) ->
  sp_val (ascertain eqb (votes_of (map f ss)) (f base)) = v.
Proof. exact (@elected_unanimous). Qed.
Print Assumptions C11_elected_unanimous.

Theorem C11_elected_default : forall (A : Type) (eqb : A -> A -> bool)
  (f : style -> sprop A) base ss, sp_explicit (f base) = false ->
  (forall s, In s ss -> sp_explicit (f s) = false) ->
  sp_val (ascertain eqb (votes_of (map f ss)) (f base)) = sp_val (f base).
Proof. exact (@elected_default). Qed.
Print Assumptions C11_elected_default.

Theorem C11_elected_voted_or_default : forall (A : Type) (eqb : A -> A -> bool), (forall a, eqb a a = true) ->
  forall (f : style -> sprop A) base ss, sp_explicit (f base) = false ->
  sp_val (ascertain eqb (votes_of (map f ss)) (f base)) = sp_val (f base) \/
  exists s, In s ss /\ sp_explicit (f s) = true /\ sp_val (f s) = sp_val (ascertain eqb (votes_of (map f ss)) (f base)).
Proof. exact (@elected_voted_or_default). Qed.
Print Assumptions C11_elected_voted_or_default.

(* the elected style IS these elections, over the records' styles in file order *)
Theorem C11_elect_facts : forall base rs bs,
  st_eol (elect base rs bs) = ascertain bytes_eqb (votes_of (map st_eol (styles_of rs bs))) (st_eol base) /\
  st_indent (elect base rs bs) = ascertain bytes_eqb (votes_of (map st_indent (styles_of rs bs))) (st_indent base) /\
  st_dashes (elect base rs bs) = ascertain Bool.eqb (votes_of (map st_dashes (styles_of rs bs))) (st_dashes base) /\
  st_24h (elect base rs bs) = ascertain Bool.eqb (votes_of (map st_24h (styles_of rs bs))) (st_24h base) /\
  st_spaces (elect base rs bs) = ascertain Bool.eqb (votes_of (map st_spaces (styles_of rs bs))) (st_spaces base) /\
  st_extra (elect base rs bs) = ascertain Nat.eqb (votes_of (map st_extra (styles_of rs bs))) (st_extra base).
Proof. intros. repeat split. Qed.
Print Assumptions C11_elect_facts.

(* a new record in a file whose records exhibit neither line ending nor indentation: LF and four spaces *)
Theorem C11_new_record_default_style : forall rs bs,
  (forall s, In s (styles_of rs bs) -> sp_explicit (st_eol s) = false) ->
  (forall s, In s (styles_of rs bs) -> sp_explicit (st_indent s) = false) ->
  sp_val (st_eol (elect default_style rs bs)) = [10%N] /\
  sp_val (st_indent (elect default_style rs bs)) = [32; 32; 32; 32]%N.
Proof. exact new_record_default_style. Qed.
Print Assumptions C11_new_record_default_style.

(* 3. own style wins: every fact the target record exhibits itself is the fact of the reconciler's style *)
Theorem C11_own_style_wins : forall d rs bs rc, reconciler_at_record d rs bs = Some rc ->
  exists r b, rc_record rc = r /\ In b bs /\
    keeps_explicit st_eol (determine r b) (rc_style rc) /\ keeps_explicit st_indent (determine r b) (rc_style rc) /\
    keeps_explicit st_dashes (determine r b) (rc_style rc) /\ keeps_explicit st_24h (determine r b) (rc_style rc) /\
    keeps_explicit st_spaces (determine r b) (rc_style rc) /\ keeps_explicit st_extra (determine r b) (rc_style rc).
Proof. exact own_style_wins. Qed.
Print Assumptions C11_own_style_wins.

(* what a record exhibits: the ending of its first significant line; the indentation of its first indented
   significant line (after F5: blank lines of the block do not count) *)
Theorem C11_determine_eol : forall r b,
  st_eol (determine r b) =
  match fst (fst (significant_lines b)) with
  | l :: _ => match l_ending l with [] => sdef [10%N] | e => sset e end
  | [] => sdef [10%N]
  end.
Proof. exact determine_eol. Qed.
Print Assumptions C11_determine_eol.

Theorem C11_determine_indent : forall r b,
  st_indent (determine r b) =
  match first_some_indent (fst (fst (significant_lines b))) with
  | Some i => sset i
  | None => sdef [32; 32; 32; 32]%N
  end.
Proof. exact determine_indent. Qed.
Print Assumptions C11_determine_indent.

Theorem C11_own_eol_wins : forall d rs bs rc, reconciler_at_record d rs bs = Some rc ->
  exists b, In b bs /\ forall l rest e0 e, fst (fst (significant_lines b)) = l :: rest -> l_ending l = e0 :: e ->
    st_eol (rc_style rc) = sset (e0 :: e).
Proof. exact own_eol_wins. Qed.
Print Assumptions C11_own_eol_wins.

Theorem C11_own_indent_wins : forall d rs bs rc, reconciler_at_record d rs bs = Some rc ->
  exists b, In b bs /\ forall i, first_some_indent (fst (fst (significant_lines b))) = Some i ->
    st_indent (rc_style rc) = sset i.
Proof. exact own_indent_wins. Qed.
Print Assumptions C11_own_indent_wins.

(* 4. insert uses the style: the k-th inserted text becomes line idx + k, and that line is
      indentation^level ++ text ++ line ending, split into text and ending *)
Theorem C11_insert_uses_style : forall st idx texts ls ls' k t, insert st idx texts ls = Ok ls' ->
  nth_error texts k = Some t ->
  nth_error ls' (Z.to_nat idx + k) = Some (new_line (repeat_bytes (sp_val (st_indent st)) (snd t) ++ fst t ++ sp_val (st_eol st))).
Proof. exact insert_uses_style. Qed.
Print Assumptions C11_insert_uses_style.

Theorem C11_inserted_line_lf : forall st t, sp_val (st_eol st) = [10%N] -> ~ (exists t', indented st t = t' ++ [13%N]) ->
  mk_inserted st t = {| l_text := repeat_bytes (sp_val (st_indent st)) (snd t) ++ fst t; l_ending := [10%N] |}.
Proof. exact mk_inserted_lf. Qed.
Print Assumptions C11_inserted_line_lf.

Theorem C11_inserted_line_crlf : forall st t, sp_val (st_eol st) = [13; 10]%N ->
  mk_inserted st t = {| l_text := repeat_bytes (sp_val (st_indent st)) (snd t) ++ fst t; l_ending := [13; 10]%N |}.
Proof. exact mk_inserted_crlf. Qed.
Print Assumptions C11_inserted_line_crlf.

(* ---- non-vacuity ---- *)
(* a tie between two-space and tab indentation: the first voter wins (F4's witness, now deterministic) *)
Example ex_tie : tally_up bytes_eqb [[32; 32]; [9]; [9]; [32; 32]]%N [32; 32; 32; 32]%N = [32; 32]%N.
Proof. reflexivity. Qed.
Example ex_majority : tally_up bytes_eqb [[32; 32]; [9]; [9]]%N [32; 32; 32; 32]%N = [9]%N.
Proof. reflexivity. Qed.
Example ex_winner : winner bytes_eqb [[32; 32]; [9]; [9]; [32; 32]]%N [32; 32]%N.
Proof. exists [], [[9]; [9]; [32; 32]]%N. split; [reflexivity|]. split; [intros v []|]. intros v Hv. cbn in Hv.
  destruct Hv as [<-|[<-|[<-|[]]]]; cbn; lia. Qed.

(* 5. generated values follow explicit argument > configuration > the file's style
      (Proofs/CommandsRefine.v: new_date, dashes_vote, a_elect, reformat_time; Proofs/Reconcile.v: end_text_of) *)

(* the directive: an explicit --date / --time is written as given; otherwise the configured preference; otherwise the style *)
Theorem C11_format_directives : forall cfg ds a,
  date_format cfg ds = match ds with
                       | DExplicit _ => NoReformat
                       | _ => match cfg_dashes cfg with Some x => ReformatExplicitly x | None => ReformatAuto end
                       end /\
  time_format cfg a = match a_time a with
                      | Some _ => NoReformat
                      | None => match cfg_24h cfg with Some x => ReformatExplicitly x | None => ReformatAuto end
                      end /\
  (forall A (v auto : A), apply_reformat NoReformat auto = None /\ apply_reformat (ReformatExplicitly v) auto = Some v /\
                          apply_reformat ReformatAuto auto = Some auto).
Proof. intros. split; [reflexivity|]. split; [reflexivity|]. intros. repeat split. Qed.
Print Assumptions C11_format_directives.

(* the date of a new record is printed with the separator the directive yields; the automatic one is the separator
   most records use (ties: the first record's; `-` for a file without records) *)
Theorem C11_new_record_date : forall d fmt st,
  match apply_reformat fmt (sp_val (st_dashes st)) with
  | None => print_date d
  | Some f => print_date {| dt := dt d; dt_dashes := f |}
  end = print_date (new_date d fmt st).
Proof. exact print_new_date. Qed.
Print Assumptions C11_new_record_date.

Theorem C11_date_separator_vote : forall rs bs, length rs = length bs ->
  sp_val (st_dashes (elect default_style rs bs)) = tally_up Bool.eqb (map (fun r => dt_dashes (rec_date r)) rs) true.
Proof. exact elect_default_dashes. Qed.
Print Assumptions C11_date_separator_vote.

(* clock convention, dash spacing and placeholder length: what the LAST range / open range of the target record shows,
   else the election over all records' facts, else 24-hour clock, spaces around the dash, one `?` *)
Theorem C11_value_style : forall base rs bs, length rs = length bs ->
  sp_val (st_24h (elect base rs bs)) = a_elect Bool.eqb f24 (st_24h base) rs /\
  sp_val (st_spaces (elect base rs bs)) = a_elect Bool.eqb fsp (st_spaces base) rs /\
  sp_val (st_extra (elect base rs bs)) = a_elect Nat.eqb fex (st_extra base) rs.
Proof. exact elect_values_abstract. Qed.
Print Assumptions C11_value_style.

(* `start` writes the open range in that style: the time re-spelled per the directive, the style's dash spacing and
   placeholder length *)
Theorem C11_start_writes_style : forall rc t fmt summary, find_open_index (rc_record rc) = -1 -> valid_time t ->
  start_open_range rc t fmt summary =
  lift_lines rc (insert (rc_style rc) (rc_last rc)
    (to_multiline (print_open_range {| o_start := reformat_time t fmt (time_format_of (rc_style rc));
                                       o_spaces := sp_val (st_spaces (rc_style rc));
                                       o_extra := sp_val (st_extra (rc_style rc)) |}) summary) (rc_lines rc)).
Proof. exact start_open_range_eq. Qed.
Print Assumptions C11_start_writes_style.
