(* Suite "report" (C12): the evaluation views of one file at one instant.
     report-run <y> <m> <d> <h> <mi> <aggregate> <fill 0/1> <diff 0/1> <now 0/1> <hex file>
   prints   <status> R <report> T <total> D <today> P <print --with-totals>
     report-filtered <y> <m> <d> <h> <mi> <aggregate> <fill> <diff> <now> <n> <flag_1> ... <flag_n> <hex file>
   the same with filter flags (spelled as in Model/SuiteQuery.v: `name` or `name:<hex value>`) on report, total and
   print --with-totals; prints   <status> R <report> T <total> P <print --with-totals>   or `argerr`
   with every number in minutes and the row keys rebuilt from the row's date:
     day  y-m-d-weekday   week  isoyear-week   month  y-m   quarter  y-q   year  y          *)
From Klog Require Import Base.Prelude Base.Utf8 Model.Calendar Model.Values Model.Record Model.Lines Model.Parser
  Model.Eval Model.Period Model.Tags Model.Query Model.Report Model.Show.
Open Scope Z_scope.

(* Report.canonicaliseOpts: the first letter, lower-cased; "" is day *)
Definition agg_of_bytes (s : bytes) : option agg :=
  match s with
  | [] => Some ADay
  | c :: _ =>
    let c := if ((65 <=? c) && (c <=? 90))%N then (c + 32)%N else c in
    if (c =? 100)%N then Some ADay
    else if (c =? 119)%N then Some AWeek
    else if (c =? 109)%N then Some AMonth
    else if (c =? 113)%N then Some AQuarter
    else if (c =? 121)%N then Some AYear
    else None
  end.

Definition commas (l : list bytes) : bytes := join [44%N] l.
Definition dashes (l : list bytes) : bytes := join [45%N] l.

Definition show_key (a : agg) (c : cdate) : bytes :=
  match a with
  | ADay => dashes [dec (c_year c); dec (c_month c); dec (c_day c); dec (weekday c)]
  | AWeek => let '(y, w) := iso_week c in dashes [dec y; dec w]
  | AMonth => dashes [dec (c_year c); dec (c_month c)]
  | AQuarter => dashes [dec (c_year c); dec (quarter c)]
  | AYear => dec (c_year c)
  end.

Definition show_cells (c : cells) : bytes :=
  match c_sd c with
  | None => dec (c_total c)
  | Some (s, d) => commas [dec (c_total c); dec s; dec d]
  end.

Definition show_row (a : agg) (r : row) : bytes :=
  show_key a (row_date r) ++ b!"=" ++ match row_cells r with Some c => show_cells c | None => b!"_" end.

Definition show_report (a : agg) (r : option report) : list bytes :=
  match r with
  | None => [b!"none"]
  | Some rep => dec (Z.of_nat (length (rep_rows rep))) :: map (show_row a) (rep_rows rep)
                ++ [b!"G"; show_cells (rep_grand rep)]
  end.

Definition show3 (x : Z * Z * Z) : list bytes := let '(t, s, d) := x in [dec t; dec s; dec d].

Definition show_end (v : today_view) (e : option time) : bytes :=
  if tv_has_current v then
    match e with
    | Some t => if tv_had_open v then print_time t else b!"(" ++ print_time t ++ b!")"
    | None => b!"???"
    end
  else b!"n/a".

Definition show_today (now_flag : bool) (v : today_view) : list bytes :=
  let e (x : option time) := if now_flag then [show_end v x] else [] in
  [ (if tv_yesterday v then b!"yesterday" else b!"today");
    (if tv_has_current v then commas (show3 (tv_current v) ++ e (tv_current_end v)) else b!"n/a");
    commas (show3 (tv_other v));
    commas (show3 (tv_all v) ++ e (tv_all_end v)) ].

Definition show_with_totals (l : list (Z * list Z)) : list bytes :=
  match l with
  | [] => [b!"none"]
  | _ => dec (Z.of_nat (length l))
         :: map (fun p => dec (fst p) ++ b!":" ++ match snd p with [] => b!"_" | es => commas (map dec es) end) l
  end.

Inductive sec_status := SOk | SErr | SCrash.

Definition section {A} (tag : bytes) (f : A -> list bytes) (x : outcome A) : sec_status * list bytes :=
  match x with
  | Ok a => (SOk, tag :: f a)
  | Err _ => (SErr, [tag; b!"err"])
  | Crash _ => (SCrash, [tag; b!"crash"])
  end.

Definition worst (a b : sec_status) : sec_status :=
  match a, b with
  | SCrash, _ | _, SCrash => SCrash
  | SErr, _ | _, SErr => SErr
  | _, _ => SOk
  end.

Definition show_status (s : sec_status) : bytes :=
  match s with SOk => b!"ok" | SErr => b!"err" | SCrash => b!"crash" end.

Definition report_line (a : agg) (fill with_diff now_flag : bool) (today : cdate) (h m : Z) (rs : list record) : bytes :=
  let secs := [ section b!"R" (show_report a) (report_cmd a fill with_diff now_flag today h m rs);
                section b!"T" (fun x => let '(t, s, d, n) := x in [dec t; dec s; dec d; dec n]) (total_cmd now_flag today h m rs);
                section b!"D" (show_today now_flag) (today_cmd now_flag today h m rs);
                section b!"P" show_with_totals (with_totals rs) ] in
  words (show_status (fold_left worst (map fst secs) SOk) :: flat_map snd secs).

Definition flag (s : bytes) : bool := bytes_eqb s b!"1".

(* klog report / total / print --with-totals with filter flags: FilterArgs.ApplyFilter comes first in all three *)
Definition filtered_line (a : agg) (fill with_diff now_flag : bool) (today : cdate) (h m : Z) (oq : outcome filter_qry)
    (rs : list record) : bytes :=
  (* each command computes the query from its own flags: a panic in ApplyFilter (a date flag at the end of the
     calendar) is a panic of each of them *)
  let with_filter {A} (f : list record -> outcome A) : outcome A := let* q := oq in f (filter_records q rs) in
  let secs := [ section b!"R" (show_report a) (with_filter (report_cmd a fill with_diff now_flag today h m));
                section b!"T" (fun x => let '(t, s, d, n) := x in [dec t; dec s; dec d; dec n])
                        (with_filter (total_cmd now_flag today h m));
                section b!"P" show_with_totals (with_filter with_totals) ] in
  words (show_status (fold_left worst (map fst secs) SOk) :: flat_map snd secs).

(* `name` or `name:hex` (as Model/SuiteQuery.v) *)
Definition split_flag (tok : bytes) : bytes * bytes :=
  match split_on 58%N tok [] with
  | [n] => (n, [])
  | n :: v :: _ => (n, arg_bytes v)
  | [] => ([], [])
  end.

Definition flag_shape_ok (tok : bytes) : bool :=
  let has_value := existsb (N.eqb 58%N) tok in
  match index_of (fst (split_flag tok)) bool_flag_names 0%nat with
  | Some _ => negb has_value
  | None => has_value
  end.

Fixpoint take_flags (n : nat) (l : list bytes) : option (list bytes * list bytes) :=
  match n with
  | O => Some ([], l)
  | S k => match l with
           | [] => None
           | x :: r => match take_flags k r with Some (a, b) => Some (x :: a, b) | None => None end
           end
  end.

Definition suite_report (cmd : bytes) (args : list bytes) : option bytes :=
  if bytes_eqb cmd b!"report-run" then
    match args with
    | [y; mo; d; h; mi; ag; fill; df; now; s] =>
      match agg_of_bytes ag, parse_text (arg_bytes s) with
      | Some a, Ok (Parsed rs _) =>
        let today := {| c_year := parse_int y; c_month := parse_int mo; c_day := parse_int d |} in
        Some (report_line a (flag fill) (flag df) (flag now) today (parse_int h) (parse_int mi) rs)
      | Some _, Ok (Failed _) => Some b!"invalid"
      | Some _, _ => Some b!"crash"
      | None, _ => Some b!"badarg"
      end
    | _ => None
    end
  else if bytes_eqb cmd b!"report-filtered" then
    match args with
    | y :: mo :: d :: h :: mi :: ag :: fill :: df :: now :: n :: rest =>
      match take_flags (Z.to_nat (parse_int n)) rest with
      | Some (flags, [s]) =>
        let today := {| c_year := parse_int y; c_month := parse_int mo; c_day := parse_int d |} in
        Some (
          if negb (forallb flag_shape_ok flags) then b!"argerr" else
          match decode_flags no_args (map split_flag flags) with
          | Err _ => b!"argerr"
          | Crash _ => b!"crash"
          | Ok fa =>
            match agg_of_bytes ag, parse_text (arg_bytes s) with
            | Some a, Ok (Parsed rs _) =>
              filtered_line a (flag fill) (flag df) (flag now) today (parse_int h) (parse_int mi) (apply_filter_args today fa) rs
            | Some _, Ok (Failed _) => b!"invalid"
            | Some _, _ => b!"crash"
            | None, _ => b!"badarg"
            end
          end)
      | _ => None
      end
    | _ => None
    end
  else None.
