(* CommandsPause: C04 for `klog pause` — the initial AppendPause / ExtendPause and one ExtendPause per completed minute. *)
From Klog Require Import Base.Prelude Base.Utf8 Model.Calendar Model.Values Model.Record Model.Lines Model.Parser
  Model.Tags Model.Serialiser Model.Reconcile Model.Commands Proofs.Lines Proofs.Parser Proofs.TagsUtf8 Proofs.Calendar
  Proofs.Values Spec.Spec Proofs.SpecValues Proofs.SpecEntry Proofs.SpecRecord Proofs.SpecDoc Proofs.Print
  Proofs.Style Proofs.Reconcile Proofs.Commands Proofs.Rounding Proofs.CommandsSpec Proofs.CommandsRefine Proofs.CommandsStop.
From Coq Require Import ZifyBool.
Open Scope Z_scope.

(* ---------------------------------------------------------------- the value token of a duration entry line *)

Lemma indent_blank i : forallb is_blank_char (indent_text i) = true.
Proof. destruct i; reflexivity. Qed.

Lemma duration_token_replaced i d tail repl : dur_shape d = true -> tail_ok tail ->
  replace_value_token (utf8_encode (indent_text i ++ render_dur d ++ tail)) repl
  = indent_text i ++ repl ++ utf8_encode tail.
Proof.
  intros Sh Ht. rewrite !utf8_encode_app, (utf8_encode_ascii _ (indent_ascii i)), (utf8_encode_ascii _ (render_dur_ascii d Sh)).
  apply replace_value_token_app. split; [reflexivity|]. split; [apply indent_blank|]. split; [|split].
  - pose proof (render_dur_no_blank d Sh) as H. revert H. apply forallb_impl. intros c. unfold is_space_or_tab, is_blank_char. lia.
  - destruct tail as [|c t]; [exact I|]. cbn in Ht. subst c. rewrite encode_cons_ascii by reflexivity. reflexivity.
  - intros E. exfalso. exact (render_dur_nonempty d Sh E).
Qed.

(* ---------------------------------------------------------------- ExtendPause on a conforming file *)

Record extends_at (rc : reconciler) (L lead : list line) (gs : list group) (recs : srecs) (k : nat) (g : group)
  (rg : s_record * list text) (es1 : list s_entry) (se : s_entry) (es2 : list s_entry) (GP : list line) (vl : line)
  (GM GQ : list line) (d : s_dur) : Prop := {
  xa_entry : entry_at L lead gs recs k g rg es1 se es2 GP vl GM GQ;
  xa_lines : rc_lines rc = L;
  xa_last : rc_last rc = Z.of_nat (length (before_group lead gs k ++ fst g));
  xa_record : rec_entries (rc_record rc) = map denote_entry (sr_entries (fst rg));
  xa_dur : se_value se = SDur d;
  xa_pause : d_mins (denote_dur d) <= 0;
  xa_last_pause : existsb is_pause (map denote_entry es2) = false;
  xa_open : existsb is_open (map denote_entry (sr_entries (fst rg))) = true }.

Definition int64_ok (z : Z) : Prop := - max_int64 <= z <= max_int64.

Lemma dur_plus_ok a b : int64_ok a -> int64_ok b -> int64_ok (a + b) -> dur_plus a b = Ok (a + b).
Proof.
  unfold int64_ok, dur_plus, add64, sm_ok, sm_min. intros Ha Hb Hab.
  destruct ((- max_int64 <=? a) && (a <=? max_int64) && ((- max_int64 <=? b) && (b <=? max_int64)) && ((- max_int64 <=? a + b) && (a + b <=? max_int64))) eqn:E; [reflexivity|lia].
Qed.

Lemma dur_chars_no_cr s : forallb SpecRecord.dur_char s = true -> forallb (fun c => negb (c =? 13)%N) s = true.
Proof. apply forallb_impl. intros c. unfold SpecRecord.dur_char, is_digit. lia. Qed.

Theorem extend_conforming rc L lead gs recs k g rg es1 se es2 GP vl GM GQ d inc :
  extends_at rc L lead gs recs k g rg es1 se es2 GP vl GM GQ d ->
  let m := d_mins (denote_dur d) in
  int64_ok m -> int64_ok inc -> int64_ok (m + inc) ->
  let ext := m + inc in
  let se' := if ext =? 0 then se else {| se_value := SDur (canon_dur (mk_dur ext)); se_first := se_first se; se_more := se_more se |} in
  exists rc' g',
    extend_pause rc inc = ROk rc' /\
    conforms (rc_lines rc') lead (set_nth k g' gs) (set_nth k (with_entries (fst rg) (es1 ++ se' :: es2), snd rg) recs) /\
    last_line_safe (rc_lines rc').
Proof.
  intros [EA Hl Hlast Hrec Hdur Hp Hlp Hopen] m Hm Hinc Hsum ext se'.
  pose proof EA as [C Hs Hg Hrg E Esig MP Mv MM MQ].
  set (ind := indent_text (sr_indent (fst rg))) in *.
  destruct (entry_at_wf _ _ _ _ _ _ _ _ _ _ _ _ _ _ EA) as [Wr We].
  destruct (wf_entry_parts se We) as (Wv & Wf & Wm0).
  assert (Wd : wf_dur d = true) by (rewrite Hdur in Wv; exact Wv).
  pose proof Wd as Wd'. unfold wf_dur in Wd'. apply andb_true_iff in Wd' as [Sh _].
  assert (Eden : map denote_entry (sr_entries (fst rg)) = map denote_entry es1 ++ denote_entry se :: map denote_entry es2).
  { rewrite E, map_app. reflexivity. }
  assert (Hval : e_value (denote_entry se) = VDuration (denote_dur d)).
  { unfold denote_entry. cbn [e_value]. rewrite Hdur. reflexivity. }
  assert (Hpi : find_last_idx is_pause (rec_entries (rc_record rc)) 0 (-1) = Z.of_nat (length es1)).
  { rewrite Hrec, Eden, find_last_idx_app.
    - unfold zlen. rewrite map_length. lia.
    - unfold is_pause. rewrite Hval. apply Z.leb_le. exact Hp.
    - exact Hlp. }
  assert (Hoi : (find_open_index (rc_record rc) =? -1) = false).
  { destruct (find_open_index (rc_record rc) =? -1) eqn:Eo; [|reflexivity].
    apply Z.eqb_eq, find_open_index_none in Eo. rewrite Hrec, Hopen in Eo. discriminate. }
  unfold extend_pause. rewrite Hoi. cbv zeta. rewrite Hpi.
  replace (Z.of_nat (length es1) =? -1) with false by lia. rewrite Nat2Z.id.
  assert (Hnth : nth_error (rec_entries (rc_record rc)) (length es1) = Some (denote_entry se)).
  { rewrite Hrec, Eden, nth_error_app2 by (rewrite map_length; lia). rewrite map_length, Nat.sub_diag. reflexivity. }
  rewrite Hnth.
  assert (Hmin : entry_minutes (denote_entry se) = m) by (unfold entry_minutes; rewrite Hval; reflexivity).
  rewrite Hmin, (dur_plus_ok m inc Hm Hinc Hsum). fold ext.
  destruct (ext =? 0) eqn:E0.
  - (* nothing to write *)
    exists rc, g. split; [reflexivity|]. unfold se'. rewrite <- E, with_entries_same.
    replace (fst rg, snd rg) with rg by (destruct rg; reflexivity).
    rewrite (set_nth_same k g gs Hg), (set_nth_same k rg recs Hrg), Hl. split; [exact C|exact Hs].
  - (* the value token *)
    assert (Hskip : skipn (length es1) (rec_entries (rc_record rc)) = denote_entry se :: map denote_entry es2).
    { rewrite Hrec, Eden, <- (map_length denote_entry es1). apply skipn_pre. }
    rewrite Hskip, count_lines_cons, (count_lines_denote ind es2).
    assert (LM : length GM = @List.length (list N) (se_more se)) by (rewrite <- (map_length l_text GM), MM, !map_length; reflexivity).
    assert (LQ : length GQ = length (flat_map (entry_texts ind) es2)) by (rewrite <- (map_length l_text GQ), MQ, map_length; reflexivity).
    set (X := before_group lead gs k ++ GP) in *.
    set (Y := GM ++ GQ ++ snd g ++ flat_map group_lines (skipn (S k) gs)) in *.
    assert (Hvl : rc_last rc - (zlen (e_summary (denote_entry se)) + Z.of_nat (length (flat_map (entry_texts ind) es2))) = Z.of_nat (length X)).
    { rewrite Hlast, Esig. unfold X, zlen, denote_entry. cbn [e_summary List.length]. rewrite !app_length, map_length. cbn [List.length].
      rewrite !app_length. clear - LM LQ. lia. }
    rewrite Hvl.
    assert (EL : L = X ++ vl :: Y).
    { rewrite (cf_lines _ _ _ _ C), (split_at_group lead gs k g Hg), Esig. unfold X, Y. rewrite <- !app_assoc. cbn [app]. rewrite <- !app_assoc. reflexivity. }
    rewrite Hl, EL, update_line_at. cbn [lift_lines]. cbv beta.
    set (d' := canon_dur (mk_dur ext)).
    assert (Hext : - max_int64 <= d_mins (mk_dur ext) <= max_int64) by exact Hsum.
    destruct (canon_dur_facts (mk_dur ext) Hext) as [Wd2 Dd2]. fold d' in Wd2, Dd2.
    pose proof Wd2 as Wd2'. unfold wf_dur in Wd2'. apply andb_true_iff in Wd2' as [Sh2 _].
    set (se2 := {| se_value := SDur d'; se_first := se_first se; se_more := se_more se |}).
    assert (Ev : replace_value_token (l_text vl) (print_duration (mk_dur ext)) = utf8_encode (vtext ind se2)).
    { rewrite Mv. unfold vtext. rewrite Hdur. cbn [render_value se_value se2]. change (first_tail se2) with (first_tail se). unfold ind.
      rewrite (duration_token_replaced _ d _ _ Sh (first_tail_ok se)), print_duration_render. fold d'.
      rewrite !utf8_encode_app, (utf8_encode_ascii _ (indent_ascii _)), (utf8_encode_ascii _ (render_dur_ascii d' Sh2)). reflexivity. }
    rewrite Ev.
    assert (We2 : wf_entry se2 = true) by (apply wf_entry_make; [exact Wd2|exact Wf|exact Wm0]).
    assert (Hk : text_keeps_line vl (utf8_encode (vtext ind se2))).
    { pose proof (cf_ok _ _ _ _ C) as Hok. rewrite EL in Hok. pose proof Hs as Hs'. rewrite EL in Hs'.
      unfold vtext. cbn [se_value se2 render_value]. change (first_tail se2) with (first_tail se).
      destruct (first_tail se) as [|c t] eqn:Et.
      - rewrite app_nil_r. apply keeps_line_no_cr.
        + apply no_lf_encode. pose proof (entry_line_text_ok (sr_indent (fst rg)) se2 We2) as T. unfold first_tail in T. cbn [se_value se_first se2 render_value] in T.
          fold (first_tail se) in T. rewrite Et, app_nil_r in T. exact T.
        + apply utf8_encode_nonempty. unfold ind. destruct (sr_indent (fst rg)); discriminate.
        + rewrite utf8_encode_app, (utf8_encode_ascii _ (render_dur_ascii d' Sh2)).
          rewrite ends_in_cr_app by (exact (render_dur_nonempty d' Sh2)).
          apply ends_in_cr_none. apply dur_chars_no_cr. exact (render_dur_dur_chars d' Sh2).
      - assert (HT : utf8_encode (c :: t) <> []) by (apply utf8_encode_nonempty; discriminate).
        apply (keeps_line_same_end X vl Y _ (utf8_encode (ind ++ render_value (se_value se))) (utf8_encode (ind ++ render_dur d')) (utf8_encode (c :: t)) Hok Hs' HT).
        + rewrite Mv. unfold vtext. rewrite Et, app_assoc, utf8_encode_app. reflexivity.
        + rewrite app_assoc, utf8_encode_app. reflexivity.
        + apply no_lf_encode. pose proof (entry_line_text_ok (sr_indent (fst rg)) se2 We2) as T. unfold first_tail in T. cbn [se_value se_first se2 render_value] in T.
          fold (first_tail se) in T. rewrite Et in T. exact T. }
    destruct (replace_value_line L lead gs recs k g rg es1 se es2 GP vl GM GQ se2 EA eq_refl We2 ltac:(intros H; discriminate H) Hk) as (_ & EA2).
    cbv zeta in EA2. fold ind X Y in EA2.
    eexists (with_lines rc _), _. split; [reflexivity|]. cbn [with_lines rc_lines]. unfold se'.
    split; [exact (ea_conf _ _ _ _ _ _ _ _ _ _ _ _ _ _ EA2)|exact (ea_safe _ _ _ _ _ _ _ _ _ _ _ _ _ _ EA2)].
Qed.

(* ---------------------------------------------------------------- the pause entry AppendPause writes *)

Definition pause_dur : s_dur := {| du_sign := SMinus; du_h := None; du_m := Some [48%N] |}.
Definition pause_value : evalue := VDuration {| d_mins := 0; d_plus := false; d_zsign := -1 |}.

Lemma pause_dur_facts : wf_dur pause_dur = true /\ render_dur pause_dur = b!"-0m" /\ denote_value (SDur pause_dur) = pause_value.
Proof. repeat split. Qed.

(* the summary of the new pause entry: the given lines; the open range's tags, when taken over, join the last line *)
Definition a_pause_summary (summary : list bytes) (tg : option bytes) : list bytes :=
  let s := summary_or_empty summary in
  match tg with
  | None => s
  | Some tg =>
    match s with
    | [s0] => [match s0 with [] => tg | _ => s0 ++ [32%N] ++ tg end]
    | _ => removelast s ++ [last s [] ++ [32%N] ++ tg]
    end
  end.

(* the lines AppendPause hands to AppendEntry *)
Definition pause_lines (summary : list bytes) (tg : option bytes) : list bytes :=
  let summary1 := match summary with [] => [[]] | _ => summary end in
  let s0 := hd [] summary1 in
  let value := b!"-0m" ++ (match s0 with [] => [] | _ => [32%N] end) in
  let summary2 := (value ++ s0) :: tl summary1 in
  match tg with Some tg => summary_append summary2 tg | None => summary2 end.

Definition pause_args_ok (sr : list text) (tgr : option text) : Prop :=
  match sr with [] => True | s0r :: mr => text_ok s0r = true /\ forallb (fun t => text_ok t && negb (all_blank t)) mr = true end /\
  no_cr_lines (map utf8_encode sr) /\
  match tgr with Some t => text_ok t = true /\ no_cr (utf8_encode t) = true | None => True end.

Lemma last_in {A} (l : list A) d : l <> [] -> In (last l d) l.
Proof. induction l as [|x l IH]; [contradiction|]. intros _. destruct l as [|y l]; [left; reflexivity|]. right. apply IH. discriminate. Qed.

Lemma encode_nil_iff t : utf8_encode t = [] <-> t = [].
Proof. split; [|intros ->; reflexivity]. intros H. destruct t; [reflexivity|]. exfalso. exact (utf8_encode_nonempty (n :: t) ltac:(discriminate) H). Qed.

Lemma pause_entry_se sr tgr : pause_args_ok sr tgr ->
  exists se, wf_entry se = true /\ no_cr_lines (entry_arg se) /\ is_open_value (se_value se) = false /\
    denote_entry se = {| e_value := pause_value; e_summary := a_pause_summary (map utf8_encode sr) (option_map utf8_encode tgr) |} /\
    to_multiline [] (pause_lines (map utf8_encode sr) (option_map utf8_encode tgr)) = entry_itexts se.
Proof.
  intros (Hsr & Hcr & Htg).
  (* normalise the summary to a first line and further lines *)
  set (s0r := match sr with [] => [] | x :: _ => x end).
  set (mr := match sr with [] => [] | _ :: m => m end).
  assert (Ts0 : text_ok s0r = true) by (unfold s0r; destruct sr; [reflexivity|exact (proj1 Hsr)]).
  assert (Wmr : forallb (fun t => text_ok t && negb (all_blank t)) mr = true) by (unfold mr; destruct sr; [reflexivity|exact (proj2 Hsr)]).
  assert (Hcr0 : no_cr (utf8_encode s0r) = true).
  { unfold s0r. destruct sr; [reflexivity|]. unfold no_cr_lines in Hcr. cbn [map forallb] in Hcr. apply andb_true_iff in Hcr as [H _]. exact H. }
  assert (Hcrm : no_cr_lines (map utf8_encode mr)).
  { unfold mr, no_cr_lines in *. destruct sr; [reflexivity|]. cbn [map forallb] in Hcr. apply andb_true_iff in Hcr as [_ H]. exact H. }
  assert (E1 : match map utf8_encode sr with [] => [[]] | _ => map utf8_encode sr end = utf8_encode s0r :: map utf8_encode mr).
  { unfold s0r, mr. destruct sr; reflexivity. }
  assert (Eso : summary_or_empty (map utf8_encode sr) = utf8_encode s0r :: map utf8_encode mr) by exact E1.
  unfold pause_lines, a_pause_summary. rewrite E1, Eso. cbn [hd tl]. clear E1 Eso Hsr Hcr.
  set (s0 := utf8_encode s0r) in *.
  set (sep := match s0 with [] => [] | _ => [32%N] end).
  assert (Esep : sep ++ s0 = utf8_encode (tail_for s0r)).
  { unfold sep, s0. rewrite <- (sep_for_encode s0r Ts0). reflexivity. }
  destruct pause_dur_facts as (Wd & Rd & Dd).
  assert (Hline : forall first, (b!"-0m" ++ utf8_encode (first_tail {| se_value := SDur pause_dur; se_first := first; se_more := [] |}))
                               = utf8_encode (render_value (SDur pause_dur) ++ first_tail {| se_value := SDur pause_dur; se_first := first; se_more := [] |})).
  { intros first. rewrite utf8_encode_app. cbn [render_value]. rewrite Rd. reflexivity. }
  destruct tgr as [tgr|]; cbn [option_map].
  - destruct Htg as [Ttg Ctg]. set (tg := utf8_encode tgr) in *.
    destruct mr as [|m1 mr'] eqn:Emr.
    + (* one line: the tags join it *)
      cbn [map summary_append removelast last app].
      set (first := Some (match s0r with [] => tgr | _ => s0r ++ 32%N :: tgr end)).
      exists {| se_value := SDur pause_dur; se_first := first; se_more := [] |}.
      assert (Efirst : (b!"-0m" ++ sep) ++ s0 = b!"-0m" ++ sep ++ s0) by (rewrite <- app_assoc; reflexivity).
      assert (Hl0 : ((b!"-0m" ++ sep) ++ s0) ++ (match (b!"-0m" ++ sep) ++ s0 with [] => [] | _ => [32%N] end) ++ tg
                    = utf8_encode (render_value (SDur pause_dur) ++ first_tail {| se_value := SDur pause_dur; se_first := first; se_more := [] |})).
      { rewrite <- Hline. unfold first_tail, first. cbn [se_first]. rewrite <- !app_assoc. cbn [bytes_of_string app].
        f_equal. f_equal. f_equal. unfold sep, s0, tg. destruct s0r as [|c r].
        - change (utf8_encode []) with (@nil N). cbn [app]. rewrite encode_cons_ascii by reflexivity. reflexivity.
        - pose proof (utf8_encode_nonempty (c :: r) ltac:(discriminate)) as Hne. destruct (utf8_encode (c :: r)) eqn:Ee; [contradiction|].
          rewrite <- Ee. rewrite (encode_cons_ascii 32%N) by reflexivity. rewrite utf8_encode_app, (encode_cons_ascii 32%N tgr) by reflexivity. reflexivity. }
      split; [|split; [|split; [reflexivity|split]]].
      * apply wf_entry_make; [exact Wd| |reflexivity]. unfold first. destruct s0r; [exact Ttg|]. change (32%N :: tgr) with ([32%N] ++ tgr). rewrite !text_ok_app, Ts0, Ttg. reflexivity.
      * unfold no_cr_lines, entry_arg. cbn [se_value se_first se_more map forallb]. rewrite andb_true_r, <- Hl0.
        unfold no_cr in *. destruct tgr as [|c r].
        { cbn [tg utf8_encode flat_map]. rewrite !app_nil_r. rewrite ends_in_cr_app by discriminate. reflexivity. }
        { rewrite !app_assoc. rewrite ends_in_cr_app by (unfold tg; apply utf8_encode_nonempty; discriminate). exact Ctg. }
      * unfold denote_entry. cbn [se_value se_first se_more map]. rewrite Dd. f_equal. f_equal. unfold first, s0, tg.
        destruct s0r as [|c r]; [reflexivity|].
        pose proof (utf8_encode_nonempty (c :: r) ltac:(discriminate)) as Hne. destruct (utf8_encode (c :: r)) eqn:Ee; [contradiction|].
        rewrite <- Ee. change ((c :: r) ++ 32%N :: tgr) with ((c :: r) ++ [32%N] ++ tgr). rewrite !utf8_encode_app. reflexivity.
      * cbn [to_multiline map app]. unfold entry_itexts. cbn [se_value se_first se_more map]. rewrite <- Hl0. reflexivity.
    + (* several lines: the tags join the last one *)
      set (more := m1 :: mr') in *. assert (Hne : more <> []) by discriminate.
      set (first := match s0r with [] => None | _ => Some s0r end).
      set (more' := removelast more ++ [last more [] ++ 32%N :: tgr]).
      exists {| se_value := SDur pause_dur; se_first := first; se_more := more' |}.
      assert (Hl0 : (b!"-0m" ++ sep) ++ s0 = utf8_encode (render_value (SDur pause_dur) ++ first_tail {| se_value := SDur pause_dur; se_first := first; se_more := more' |})).
      { change (first_tail {| se_value := SDur pause_dur; se_first := first; se_more := more' |})
          with (first_tail {| se_value := SDur pause_dur; se_first := first; se_more := [] |}).
        rewrite <- Hline, <- app_assoc. f_equal. rewrite Esep. unfold first_tail, first. cbn [se_first]. destruct s0r; reflexivity. }
      assert (Wlast : text_ok (last more []) && negb (all_blank (last more [])) = true).
      { rewrite forallb_forall in Wmr. apply Wmr. exact (last_in more [] Hne). }
      apply andb_true_iff in Wlast as [Tl Nl].
      assert (Hlastne : utf8_encode (last more []) <> []) by (apply utf8_encode_nonempty; intros E; rewrite E in Nl; discriminate Nl).
      assert (Esum : summary_append (((b!"-0m" ++ sep) ++ s0) :: map utf8_encode more) tg
                     = ((b!"-0m" ++ sep) ++ s0) :: map utf8_encode more').
      { unfold summary_append. cbn [removelast last]. destruct (map utf8_encode more) as [|x xs] eqn:Em; [discriminate|]. rewrite <- Em.
        cbn [app]. f_equal. unfold more'. rewrite map_app, map_removelast. f_equal. cbn [map]. f_equal.
        change (last (map utf8_encode more) []) with (last (map utf8_encode more) (utf8_encode [])).
        rewrite (last_map utf8_encode more [] Hne).
        change (last more [] ++ 32%N :: tgr) with (last more [] ++ [32%N] ++ tgr). rewrite !utf8_encode_app.
        assert (Hm : forall x : bytes, x <> [] -> match x with [] => [] | _ :: _ => [32%N] end = [32%N]) by (intros [|? ?] H; [contradiction|reflexivity]).
        match goal with |- context [match ?x with [] => [] | _ :: _ => [32%N] end] => rewrite (Hm x) by exact Hlastne end. reflexivity. }
      rewrite Esum.
      split; [|split; [|split; [reflexivity|split]]].
      * apply wf_entry_make; [exact Wd|unfold first; destruct s0r; [exact I|exact Ts0]|].
        unfold more'. rewrite forallb_app. apply andb_true_iff. split.
        { rewrite (removelast_last more [] Hne), forallb_app in Wmr. apply andb_true_iff in Wmr as [H _]. exact H. }
        { cbn [forallb]. change (32%N :: tgr) with ([32%N] ++ tgr). rewrite !text_ok_app, Tl, Ttg, all_blank_app. apply negb_true_iff in Nl. rewrite Nl. reflexivity. }
      * unfold no_cr_lines, entry_arg. cbn [se_value se_first se_more map forallb]. rewrite <- Hl0. apply andb_true_iff. split.
        { unfold no_cr. destruct s0r as [|c r].
          - cbn [s0 sep utf8_encode flat_map app]. reflexivity.
          - rewrite ends_in_cr_app by (unfold s0; apply utf8_encode_nonempty; discriminate). unfold no_cr in Hcr0. exact Hcr0. }
        { unfold more'. rewrite map_app, forallb_app. apply andb_true_iff. split.
          - unfold no_cr_lines in Hcrm. rewrite (removelast_last more [] Hne), map_app, forallb_app in Hcrm. apply andb_true_iff in Hcrm as [H _]. exact H.
          - cbn [map forallb]. rewrite andb_true_r. unfold no_cr in *. replace (last more [] ++ 32%N :: tgr) with ((last more [] ++ [32%N]) ++ tgr) by (rewrite <- app_assoc; reflexivity).
            rewrite utf8_encode_app. destruct tgr as [|c r].
            + cbn [utf8_encode flat_map]. rewrite app_nil_r, utf8_encode_app. rewrite ends_in_cr_app by discriminate. reflexivity.
            + rewrite ends_in_cr_app by (apply utf8_encode_nonempty; discriminate). exact Ctg. }
      * unfold denote_entry. cbn [se_value se_first se_more]. rewrite Dd. f_equal.
        destruct (map utf8_encode more) as [|x xs] eqn:Em; [discriminate|]. rewrite <- Em.
        replace (removelast (s0 :: map utf8_encode more)) with (s0 :: removelast (map utf8_encode more)) by (rewrite Em; reflexivity).
        replace (last (s0 :: map utf8_encode more) []) with (last (map utf8_encode more) (utf8_encode [])) by (rewrite Em; reflexivity).
        cbn [app]. f_equal; [unfold first, s0; destruct s0r; reflexivity|].
        unfold more'. rewrite map_app, map_removelast. f_equal. cbn [map]. f_equal.
        rewrite (last_map utf8_encode more [] Hne). change (last more [] ++ 32%N :: tgr) with (last more [] ++ [32%N] ++ tgr).
        rewrite !utf8_encode_app. reflexivity.
      * cbn [to_multiline]. unfold entry_itexts. cbn [se_value se_first se_more]. rewrite <- Hl0. destruct ((b!"-0m" ++ sep) ++ s0); reflexivity.
  - (* no tags *)
    set (first := match s0r with [] => None | _ => Some s0r end).
    exists {| se_value := SDur pause_dur; se_first := first; se_more := mr |}.
    assert (Hl0 : (b!"-0m" ++ sep) ++ s0 = utf8_encode (render_value (SDur pause_dur) ++ first_tail {| se_value := SDur pause_dur; se_first := first; se_more := mr |})).
    { change (first_tail {| se_value := SDur pause_dur; se_first := first; se_more := mr |})
        with (first_tail {| se_value := SDur pause_dur; se_first := first; se_more := [] |}).
      rewrite <- Hline, <- app_assoc. f_equal. rewrite Esep. unfold first_tail, first. cbn [se_first]. destruct s0r; reflexivity. }
    split; [|split; [|split; [reflexivity|split]]].
    + apply wf_entry_make; [exact Wd|unfold first; destruct s0r; [exact I|exact Ts0]|exact Wmr].
    + unfold no_cr_lines, entry_arg. cbn [se_value se_first se_more map forallb]. rewrite <- Hl0. apply andb_true_iff. split; [|exact Hcrm].
      unfold no_cr. destruct s0r as [|c r].
      * cbn [s0 sep utf8_encode flat_map app]. reflexivity.
      * rewrite ends_in_cr_app by (unfold s0; apply utf8_encode_nonempty; discriminate). unfold no_cr in Hcr0. exact Hcr0.
    + unfold denote_entry. cbn [se_value se_first se_more]. rewrite Dd. f_equal. f_equal. unfold first, s0. destruct s0r; reflexivity.
    + cbn [to_multiline]. unfold entry_itexts. cbn [se_value se_first se_more]. rewrite <- Hl0. destruct ((b!"-0m" ++ sep) ++ s0); reflexivity.
Qed.

(* ---------------------------------------------------------------- ExtendPause at the record of group i *)

Lemma find_last_idx_split {A : Type} (p : entry -> bool) es : forall i c, 0 <= i -> c < i ->
  find_last_idx p es i c <> c ->
  exists a e b, es = a ++ e :: b /\ find_last_idx p es i c = i + zlen a /\ p e = true /\ existsb p b = false.
Proof.
  induction es as [|x es IH]; intros i c Hi Hc H; [cbn in H; contradiction|].
  cbn [find_last_idx] in *. destruct (existsb p es) eqn:Ex.
  - destruct (p x) eqn:Px.
    + assert (Hn : find_last_idx p es (i + 1) i <> i).
      { pose proof (find_last_idx_some p es (i + 1) i ltac:(lia) ltac:(lia) Ex). lia. }
      destruct (IH (i + 1) i ltac:(lia) ltac:(lia) Hn) as (a & e & b & -> & Hidx & Pe & Hb).
      exists (x :: a), e, b. split; [reflexivity|]. split; [rewrite Hidx; unfold zlen; cbn [List.length]; lia|]. auto.
    + destruct (IH (i + 1) c ltac:(lia) ltac:(lia) H) as (a & e & b & -> & Hidx & Pe & Hb).
      exists (x :: a), e, b. split; [reflexivity|]. split; [rewrite Hidx; unfold zlen; cbn [List.length]; lia|]. auto.
  - destruct (p x) eqn:Px.
    + exists [], x, es. split; [reflexivity|]. split; [rewrite (find_last_idx_none p es (i + 1) i Ex); unfold zlen; cbn; lia|]. auto.
    + rewrite (find_last_idx_none p es (i + 1) c Ex) in H. contradiction.
Qed.

Lemma dur_plus_inv a b ext : dur_plus a b = Ok ext -> ext = a + b /\ int64_ok a /\ int64_ok b /\ int64_ok (a + b).
Proof.
  unfold dur_plus, add64, sm_ok, sm_min, int64_ok. destruct (_ && _ && _) eqn:E; [|discriminate]. intros [= <-]. lia.
Qed.

Definition a_extend_entries (es : list entry) (inc : Z) : cresult (list entry) :=
  if negb (existsb is_open es) then CErr CEManipulation else
  let pi := find_last_idx is_pause es 0 (-1) in
  if pi =? -1 then CErr CEManipulation else
  match nth_error es (Z.to_nat pi) with
  | None => CCrash
  | Some e =>
    match dur_plus (entry_minutes e) inc with
    | Ok ext => COk (if ext =? 0 then es else set_nth (Z.to_nat pi) {| e_value := VDuration (mk_dur ext); e_summary := e_summary e |} es)
    | _ => CCrash
    end
  end.

Definition a_extend_in (i : nat) (inc : Z) (rs : list record) : cresult (list record) :=
  match nth_error rs i with
  | None => CCrash
  | Some r => let+ es' := a_extend_entries (rec_entries r) inc in COk (set_nth i (set_entries r es') rs)
  end.

Lemma pause_is_duration se : is_pause (denote_entry se) = true -> exists d, se_value se = SDur d /\ d_mins (denote_dur d) <= 0.
Proof.
  unfold is_pause, denote_entry. cbn [e_value]. destruct (se_value se) as [d| |]; cbn [denote_value]; try discriminate.
  intros H. exists d. split; [reflexivity|lia].
Qed.

Lemma set_nth_app_mid {A} (a : list A) x y b : set_nth (length a) y (a ++ x :: b) = a ++ y :: b.
Proof. induction a as [|z a IH]; [reflexivity|]. cbn [List.length app set_nth]. rewrite IH. reflexivity. Qed.

Lemma dur_canonical_mk ext : ext <> 0 -> dur_canonical (mk_dur ext) = mk_dur ext.
Proof. intros H. unfold dur_canonical, mk_dur. cbn [d_mins d_plus]. replace (ext =? 0) with false by lia. destruct (ext <? 0); reflexivity. Qed.

Theorem extend_at_record file lead gs recs dd i rg inc rs' :
  conforms (lines_of file) lead gs recs -> last_line_safe (lines_of file) ->
  find_record_idx dd (denote_recs recs) 0 = Some i -> nth_error recs i = Some rg ->
  a_extend_in i inc (denote_recs recs) = COk rs' ->
  exists rc file' recs',
    reconciler_at_record dd (denote_recs recs) (expect_blocks 0 lead gs) = Some rc /\
    finish (lift_r (extend_pause rc inc)) = COk file' /\
    spec_state file' recs' /\ denote_recs recs' = rs' /\
    exists bs', parse_text file' = Ok (Parsed (denote_recs recs') bs').
Proof.
  intros C Hsafe Hf Hrg Ha.
  destruct (Forall2_nth_r _ _ _ _ _ (cf_groups _ _ _ _ C) Hrg) as (g & Hg & _).
  destruct (at_record_conforming _ lead gs recs dd i rg g C Hf Hrg Hg) as (rc & Hrc & F).
  unfold a_extend_in in Ha. rewrite (nth_error_denote_recs _ _ _ Hrg) in Ha.
  apply cbind_ok in Ha as (es' & Hext & Ha). injection Ha as <-.
  unfold a_extend_entries in Hext. unfold denote_record in Hext. cbn [rec_entries] in Hext.
  set (es := map denote_entry (sr_entries (fst rg))) in *.
  destruct (existsb is_open es) eqn:Eopen; [|discriminate]. cbn [negb] in Hext. cbv zeta in Hext.
  destruct (find_last_idx is_pause es 0 (-1) =? -1) eqn:Epi; [discriminate|].
  destruct (find_last_idx_split (A := unit) is_pause es 0 (-1) ltac:(lia) ltac:(lia) ltac:(lia)) as (ea & e & eb & Ees & Hidx & Pe & Hb).
  rewrite Hidx in Hext. replace (Z.to_nat (0 + zlen ea)) with (length ea) in Hext by (unfold zlen; lia).
  rewrite Ees, nth_error_app2, Nat.sub_diag in Hext by lia. cbn [nth_error] in Hext.
  (* the specification entries split accordingly *)
  unfold es in Ees. apply map_eq_app in Ees as (es1 & R & E & M1 & MR). cbn [map] in MR.
  apply map_eq_cons in MR as (se & es2 & -> & Mse & M2). subst ea e eb.
  destruct (pause_is_duration se Pe) as (d & Hdur & Hp).
  destruct (entry_at_intro _ lead gs recs i g rg es1 se es2 C Hsafe Hg Hrg E) as (GP & vl & GM & GQ & EA).
  assert (XA : extends_at rc (lines_of file) lead gs recs i g rg es1 se es2 GP vl GM GQ d).
  { constructor; try assumption.
    - exact (arf_lines _ _ _ _ _ _ _ _ F).
    - exact (arf_last _ _ _ _ _ _ _ _ F).
    - rewrite (arf_record _ _ _ _ _ _ _ _ F). reflexivity. }
  assert (Hmin : entry_minutes (denote_entry se) = d_mins (denote_dur d)).
  { unfold entry_minutes, denote_entry. cbn [e_value]. rewrite Hdur. reflexivity. }
  rewrite Hmin in Hext.
  destruct (dur_plus (d_mins (denote_dur d)) inc) as [ext| |] eqn:Edp; [|discriminate|discriminate].
  destruct (dur_plus_inv _ _ _ Edp) as (-> & Hm & Hinc & Hsum).
  destruct (extend_conforming rc _ lead gs recs i g rg es1 se es2 GP vl GM GQ d inc XA Hm Hinc Hsum) as (rc' & g' & Hrun & C' & S').
  cbv zeta in C'. set (ext := d_mins (denote_dur d) + inc) in *.
  pose proof (conforms_parse _ _ _ _ C') as P'.
  eexists rc, (text_of_lines (rc_lines rc')), _.
  split; [exact Hrc|]. split; [|split; [exact (spec_state_of_conforms _ _ _ _ C' S')|split; [|eexists; exact P']]].
  - unfold finish. rewrite Hrun. cbn [lift_r cbind]. unfold make_result. rewrite P'. reflexivity.
  - rewrite denote_recs_set_nth, denote_with_entries. f_equal. f_equal. injection Hext as <-.
    destruct (ext =? 0) eqn:E0.
    + rewrite map_app. reflexivity.
    + rewrite set_nth_app_mid, map_app. cbn [map]. f_equal. f_equal. unfold denote_entry at 1. cbn [se_value se_first se_more denote_value].
      destruct (canon_dur_facts (mk_dur ext) Hsum) as [_ ->]. rewrite dur_canonical_mk by lia. reflexivity.
Qed.

(* ---------------------------------------------------------------- AppendPause at the record of group i *)

(* the tags of the record's open range, as AppendPause prints them *)
Definition a_tags (r : record) : bytes :=
  match nth_error (rec_entries r) (Z.to_nat (find_open_index r)) with
  | Some oe => join [32%N] (go_tags_of (e_summary oe))
  | None => []
  end.

Definition a_append_pause (i : nat) (summary : list bytes) (with_tags : bool) (rs : list record) : cresult (list record) :=
  match nth_error rs i with
  | None => CCrash
  | Some r =>
    if negb (existsb is_open (rec_entries r)) then CErr CEManipulation else
    COk (set_nth i (add_entry {| e_value := pause_value;
                                 e_summary := a_pause_summary summary (if with_tags then Some (a_tags r) else None) |} r) rs)
  end.

Lemma append_pause_eq rc summary with_tags : find_open_index (rc_record rc) <> -1 ->
  nth_error (rec_entries (rc_record rc)) (Z.to_nat (find_open_index (rc_record rc))) <> None ->
  append_pause go_tags_of rc summary with_tags =
  append_entry rc (pause_lines summary (if with_tags then Some (a_tags (rc_record rc)) else None)).
Proof.
  intros Ho Hn. unfold append_pause, pause_lines, a_tags. cbv zeta.
  destruct (find_open_index (rc_record rc) =? -1) eqn:E; [lia|].
  destruct with_tags; [|reflexivity].
  destruct (nth_error (rec_entries (rc_record rc)) (Z.to_nat (find_open_index (rc_record rc)))); [reflexivity|contradiction].
Qed.

Theorem append_pause_at_record file lead gs recs dd i rg sr (with_tags : bool) tgr rs' :
  conforms (lines_of file) lead gs recs -> last_line_safe (lines_of file) ->
  find_record_idx dd (denote_recs recs) 0 = Some i -> nth_error recs i = Some rg ->
  a_tags (denote_record (fst rg)) = utf8_encode tgr ->
  pause_args_ok sr (if with_tags then Some tgr else @None text) ->
  a_append_pause i (map utf8_encode sr) with_tags (denote_recs recs) = COk rs' ->
  exists rc file' recs',
    reconciler_at_record dd (denote_recs recs) (expect_blocks 0 lead gs) = Some rc /\
    finish (lift_r (append_pause go_tags_of rc (map utf8_encode sr) with_tags)) = COk file' /\
    spec_state file' recs' /\ denote_recs recs' = rs' /\
    exists bs', parse_text file' = Ok (Parsed (denote_recs recs') bs').
Proof.
  intros C Hsafe Hf Hrg Htags Hargs Ha.
  destruct (Forall2_nth_r _ _ _ _ _ (cf_groups _ _ _ _ C) Hrg) as (g & Hg & _).
  destruct (at_record_conforming _ lead gs recs dd i rg g C Hf Hrg Hg) as (rc & Hrc & F).
  destruct (at_record_points_at _ _ _ _ _ _ _ _ C Hsafe Hrg Hg F) as (j & P).
  unfold a_append_pause in Ha. rewrite (nth_error_denote_recs _ _ _ Hrg) in Ha.
  set (r := denote_record (fst rg)) in *.
  destruct (existsb is_open (rec_entries r)) eqn:Eopen; [|discriminate]. cbn [negb] in Ha. injection Ha as <-.
  assert (Wr : wf_record (fst rg) = true).
  { pose proof (cf_wf _ _ _ _ C) as W. rewrite forallb_forall in W. exact (W rg (nth_error_In _ _ Hrg)). }
  destruct (pause_entry_se sr (if with_tags then Some tgr else @None text) Hargs) as (se & We & Hcr & Hnotopen & Hden & Hmul).
  assert (Hcount : (count_open (sr_entries (fst rg) ++ [se]) <= 1)%nat).
  { apply (count_open_add _ _ Wr). rewrite is_open_denote, Hnotopen. discriminate. }
  destruct (insert_entry_conforming _ _ _ _ _ _ _ _ _ se P We Hcr Hcount) as (L' & g' & HI & C' & S').
  pose proof (conforms_parse _ _ _ _ C') as P'.
  (* the open range exists in the reconciler's record *)
  assert (Hrec : rc_record rc = r) by exact (arf_record _ _ _ _ _ _ _ _ F).
  assert (Hoi : find_open_index (rc_record rc) <> -1).
  { rewrite Hrec. intros E. apply find_open_index_none in E. rewrite Eopen in E. discriminate. }
  assert (Hnth : nth_error (rec_entries (rc_record rc)) (Z.to_nat (find_open_index (rc_record rc))) <> None).
  { rewrite Hrec. unfold find_open_index.
    destruct (find_last_idx_split (A := unit) is_open (rec_entries r) 0 (-1) ltac:(lia) ltac:(lia)) as (ea & e & eb & Ees & Hidx & _).
    - rewrite Hrec in Hoi. exact Hoi.
    - rewrite Hidx, Ees. replace (Z.to_nat (0 + zlen ea)) with (length ea) by (unfold zlen; lia).
      rewrite nth_error_app2, Nat.sub_diag by lia. discriminate. }
  assert (Etg : (if with_tags then Some (a_tags (rc_record rc)) else None) = option_map utf8_encode (if with_tags then Some tgr else @None text)).
  { rewrite Hrec. destruct with_tags; [cbn [option_map]; rewrite <- Htags|]; reflexivity. }
  eexists rc, (text_of_lines L'), _.
  split; [exact Hrc|]. split; [|split; [exact (spec_state_of_conforms _ _ _ _ C' S')|split; [|eexists; exact P']]].
  - unfold finish. rewrite (append_pause_eq rc _ _ Hoi Hnth), Etg. unfold append_entry.
    replace (to_multiline [] _) with (entry_itexts se) by (symmetry; exact Hmul). rewrite HI.
    cbn [lift_lines lift_r cbind]. unfold make_result. cbn [with_lines rc_lines]. rewrite P'. reflexivity.
  - rewrite denote_recs_set_nth, denote_s_add_entry, Hden. fold r. do 4 f_equal.
    destruct with_tags; [cbn [option_map]; rewrite <- Htags|]; reflexivity.
Qed.

(* ---------------------------------------------------------------- one write of `klog pause` *)

(* the record a pause step works on: today's, else yesterday's *)
Definition a_pause_step (today y : cdate) (f : nat -> list record -> cresult (list record)) (rs : list record) : cresult (list record) :=
  match find_record_idx today rs 0 with
  | Some i => f i rs
  | None => match find_record_idx y rs 0 with Some i => f i rs | None => CErr CENoSuchRecord end
  end.

Lemma pause_reconcile_step now file lead gs recs y op f rs' :
  conforms (lines_of file) lead gs recs -> plus_days (now_date now) (-1) = Ok y ->
  (forall dd i rg, find_record_idx dd (denote_recs recs) 0 = Some i -> nth_error recs i = Some rg -> f i (denote_recs recs) = COk rs' ->
     exists rc file' recs',
       reconciler_at_record dd (denote_recs recs) (expect_blocks 0 lead gs) = Some rc /\
       finish (op rc) = COk file' /\ spec_state file' recs' /\ denote_recs recs' = rs') ->
  a_pause_step (now_date now) y f (denote_recs recs) = COk rs' ->
  exists file' recs', pause_reconcile now file op = COk file' /\ spec_state file' recs' /\ denote_recs recs' = rs'.
Proof.
  intros C Hy Hstep Ha. unfold a_pause_step in Ha. unfold pause_reconcile. rewrite Hy.
  rewrite (reconcile_file_one file _ _ _ _ (spec_file_parse file lead gs recs C)).
  unfold first_creator, at_record.
  destruct (find_record_idx (now_date now) (denote_recs recs) 0) as [i|] eqn:Hf.
  - destruct (find_record_idx_nth _ _ _ _ Hf) as (k & r & -> & Hn & _). cbn [Nat.add] in *.
    unfold denote_recs in Hn. rewrite nth_error_map in Hn. destruct (nth_error recs k) as [rg|] eqn:Hrg; [|discriminate].
    destruct (Hstep _ _ _ Hf Hrg Ha) as (rc & file' & recs' & Hrc & Hfin & S' & Hden).
    rewrite Hrc. cbn [flat_map app cbind]. exists file', recs'. auto.
  - rewrite (find_record_idx_none_at _ _ _ Hf).
    destruct (find_record_idx y (denote_recs recs) 0) as [i|] eqn:Hfy; [|discriminate].
    destruct (find_record_idx_nth _ _ _ _ Hfy) as (k & r & -> & Hn & _). cbn [Nat.add] in *.
    unfold denote_recs in Hn. rewrite nth_error_map in Hn. destruct (nth_error recs k) as [rg|] eqn:Hrg; [|discriminate].
    destruct (Hstep _ _ _ Hfy Hrg Ha) as (rc & file' & recs' & Hrc & Hfin & S' & Hden).
    rewrite Hrc. cbn [flat_map app cbind]. exists file', recs'. auto.
Qed.

Lemma pause_extend_step now file recs y inc rs' :
  spec_state file recs -> plus_days (now_date now) (-1) = Ok y ->
  a_pause_step (now_date now) y (fun i => a_extend_in i inc) (denote_recs recs) = COk rs' ->
  exists file' recs', pause_reconcile now file (fun r => lift_r (extend_pause r inc)) = COk file' /\
    spec_state file' recs' /\ denote_recs recs' = rs'.
Proof.
  intros (lead & gs & C & Hsafe) Hy Ha. unfold spec_file in C.
  apply (pause_reconcile_step now file lead gs recs y _ (fun i => a_extend_in i inc) rs' C Hy); [|exact Ha].
  intros dd i rg Hf Hrg Hx.
  destruct (extend_at_record file lead gs recs dd i rg inc rs' C Hsafe Hf Hrg Hx) as (rc & file' & recs' & Hrc & Hfin & S' & Hden & _).
  exists rc, file', recs'. auto.
Qed.

(* ---------------------------------------------------------------- the ticks *)

Fixpoint a_pause_loop (today y : cdate) (ticks : list Z) (captured : Z) (rs : list record) : cresult (list record) :=
  match ticks with
  | [] => COk rs
  | t :: rest =>
    let uncaptured := go_div t 60 - captured in
    if 0 <? uncaptured then
      let+ rs' := a_pause_step today y (fun i => a_extend_in i (- uncaptured)) rs in
      a_pause_loop today y rest (captured + uncaptured) rs'
    else a_pause_loop today y rest captured rs
  end.

Theorem pause_loop_refines now y ticks : plus_days (now_date now) (-1) = Ok y ->
  forall captured file recs rs', spec_state file recs ->
  a_pause_loop (now_date now) y ticks captured (denote_recs recs) = COk rs' ->
  exists file' recs', pause_loop now ticks captured file = (file', COk tt) /\ spec_state file' recs' /\ denote_recs recs' = rs'.
Proof.
  intros Hy. induction ticks as [|t rest IH]; intros captured file recs rs' S Ha.
  - cbn [a_pause_loop] in Ha. injection Ha as <-. exists file, recs. auto.
  - cbn [a_pause_loop pause_loop] in *. destruct (0 <? go_div t 60 - captured).
    + apply cbind_ok in Ha as (rs1 & Hstep & Ha).
      destruct (pause_extend_step now file recs y _ rs1 S Hy Hstep) as (file1 & recs1 & Hrun & S1 & Hden1).
      rewrite Hrun. rewrite <- Hden1 in Ha. exact (IH _ _ _ _ S1 Ha).
    + exact (IH _ _ _ _ S Ha).
Qed.

(* ---------------------------------------------------------------- klog pause *)

Definition tags_ok (recs : srecs) : Prop :=
  forall rg, In rg recs -> exists tgr, a_tags (denote_record (fst rg)) = utf8_encode tgr /\ text_ok tgr = true /\ no_cr (utf8_encode tgr) = true.

Definition a_pause (today y : cdate) (summary : option (list bytes)) (no_tags extend : bool) (ticks : list Z) (rs : list record)
  : cresult (list record) :=
  if extend && (match summary with Some _ => true | None => false end) then CErr CEFlags else
  let+ rs1 := a_pause_step today y
                (fun i => if extend then a_extend_in i 0
                          else a_append_pause i (match summary with Some s => s | None => [] end) (negb no_tags)) rs in
  a_pause_loop today y ticks 0 rs1.

Theorem pause_refines now cfg summary sr no_tags extend ticks file recs y rs' :
  spec_state file recs -> plus_days (now_date now) (-1) = Ok y ->
  match summary with Some s => s | None => [] end = map utf8_encode sr ->
  match sr with [] => True | s0r :: mr => text_ok s0r = true /\ forallb (fun t => text_ok t && negb (all_blank t)) mr = true end ->
  no_cr_lines (map utf8_encode sr) -> tags_ok recs ->
  a_pause (now_date now) y summary no_tags extend ticks (denote_recs recs) = COk rs' ->
  exists file' recs',
    exec now cfg (Pause summary no_tags extend ticks) file = (file', COk tt) /\
    spec_state file' recs' /\ denote_recs recs' = rs' /\
    exists bs', parse_text file' = Ok (Parsed (denote_recs recs') bs').
Proof.
  intros S Hy Hsum Hsr Hcr Htags Ha. unfold a_pause in Ha. cbn [exec].
  destruct (extend && match summary with Some _ => true | None => false end); [discriminate|].
  apply cbind_ok in Ha as (rs1 & Hstep & Hloop).
  assert (Hinit : exists file1 recs1,
            pause_reconcile now file (fun r => lift_r (if extend then extend_pause r 0
                                                       else append_pause go_tags_of r (match summary with Some s => s | None => [] end) (negb no_tags))) = COk file1 /\
            spec_state file1 recs1 /\ denote_recs recs1 = rs1).
  { destruct extend.
    - exact (pause_extend_step now file recs y 0 rs1 S Hy Hstep).
    - destruct S as (lead & gs & C & Hsafe). unfold spec_file in C.
      apply (pause_reconcile_step now file lead gs recs y _ (fun i => a_append_pause i (match summary with Some s => s | None => [] end) (negb no_tags)) rs1 C Hy); [|exact Hstep].
      intros dd i rg Hf Hrg Hx. rewrite Hsum in *.
      destruct (Htags rg (nth_error_In _ _ Hrg)) as (tgr & Etg & Ttg & Ctg).
      destruct (append_pause_at_record file lead gs recs dd i rg sr (negb no_tags) tgr rs1 C Hsafe Hf Hrg Etg) as (rc & file' & recs' & Hrc & Hfin & S' & Hden & _).
      + split; [exact Hsr|]. split; [exact Hcr|]. destruct (negb no_tags); [split; assumption|exact I].
      + exact Hx.
      + exists rc, file', recs'. auto. }
  destruct Hinit as (file1 & recs1 & Hrun & S1 & Hden1). rewrite Hrun.
  rewrite <- Hden1 in Hloop.
  destruct (pause_loop_refines now y ticks Hy 0 file1 recs1 rs' S1 Hloop) as (file' & recs' & Hl & S' & Hden').
  exists file', recs'. split; [exact Hl|]. split; [exact S'|]. split; [exact Hden'|].
  destruct S' as (lead' & gs' & C' & _). eexists. exact (spec_file_parse _ _ _ _ C').
Qed.
