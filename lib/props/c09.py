"""C09 — printing a file yields an equivalent canonical file (round trip, fixed point)."""
import sys, os
sys.path.insert(0, os.path.dirname(os.path.dirname(os.path.abspath(__file__))))
from check import Suite
from props.parsing import *

EXPECT = {}

def normalise(expect):
    # a should-total of zero is printed as absent; nothing else changes
    return " ".join("_" if (tok == "0" and i >= 2 and toks[i - 2] == "R") else tok
                    for toks in [expect.split(" ")] for i, tok in enumerate(toks))

def gen_print(tier, rng):
    n = 4000 if tier == "quick" else 200000
    out = []
    for d in docs(rng, n):
        r = req_print(d.render())
        EXPECT[r] = d
        out.append(r)
    # CRLF files in which a summary line ends in a carriage return of its own (`foo\r\r\n`): known finding K2
    for d in docs(rng, max(20, n // 100)):
        if not d.records:
            continue
        d.eol = "\r\n"
        r0 = rng.choice(d.records)
        if r0.summary and rng.random() < 0.5:
            r0.summary[rng.randrange(len(r0.summary))] += "\r"
        elif r0.entries:
            e = rng.choice(r0.entries)
            if e.first: e.first += "\r"
            else: e.first = "x\r"
        else:
            r0.summary = ["note\r"]
        b = d.render()
        if b"\r\r\n" not in b:
            continue
        r = req_print(b)
        EXPECT[r] = d
        out.append(r)
    return out

def oracle_print(req, out):
    d = EXPECT.get(req)
    if d is None:
        return None
    f = out.split(" ")
    if f[0] != "ok":
        return "printing a valid file failed: " + out[:100]
    if len(f) < 3 or f[2] != "reparsed":
        return "the printed output is not a valid file"
    if not d.records:
        return None if f[1] == "-" else "empty input printed something"
    printed, again = f[1], f[3]
    if printed != again:
        return "printing the printed output changes it"
    got = " ".join(["ok"] + f[4:])
    want = normalise(d.expect())
    if got != want:
        return "the printed file parses to different records: %s vs %s" % (got[:160], want[:160])
    text = bytes.fromhex(printed).decode("utf-8", "replace")
    if "\r" in text.replace("\r", "", 0) and False:
        return None
    for line in text.split("\n"):
        if line.startswith(" ") and not line.startswith("    "):
            return "printed output is not indented with four spaces"
    if "\n\n\n" in text or text.startswith("\n"):
        return "printed output has more than one blank line between records"
    return None

def k2_trailing_cr(req, out, model_out=None):
    """known finding K2: a summary line that ends in a lone CR does not survive print -> parse. The model reproduces
       the defect exactly, so the finding is recognised only while the implementation answers as the model does: any
       other treatment of such a line is a different violation and is reported."""
    b = unhx(req.split(" ")[1])
    return (b"\r\r\n" in b or b.endswith(b"\r") and not b.endswith(b"\r\n")) and (model_out is None or model_out == out)

def suites():
    return [
        Suite("roundtrip", gen_print, oracle=oracle_print,
              rule="`klog print --no-style` on conforming documents in every admissible formatting, output parsed and printed again; non-trivial = >= 1 record",
              nontrivial=lambda r, o: o.startswith("ok") and " R " in o),
    ]
