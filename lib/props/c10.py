"""C10 — syntax errors are reported at the right place and can always be displayed."""
import sys, os
sys.path.insert(0, os.path.dirname(os.path.dirname(os.path.abspath(__file__))))
from check import Suite
import specgen
from props.parsing import *

FAULT = {}

def gen_faulted(tier, rng):
    n = 10000 if tier == "quick" else 300000
    out = []
    for d in docs(rng, n):
        f = specgen.inject_fault(d, rng)
        if f is None:
            continue
        r = req_parse(f[0])
        FAULT[r] = (f[1], f[2])
        out.append(r)
    return out

def oracle_faulted(req, out):
    v = errors_located(req, out)
    if v: return v
    if req in FAULT:
        f = out.split(" ")
        if f[0] != "errors":
            return None          # acceptance of faulted texts is C01's business
        first = int(f[2].split(":")[0])
        if first != FAULT[req][0]:
            return "first error on line %d, but the text stops conforming on line %d (%s)" % (first, FAULT[req][0], FAULT[req][1])
    return None

def gen_malformed(tier, rng):
    return [req_parse(b) for b in byte_stream(tier, rng, 3000 if tier == "quick" else 200000, 1000 if tier == "quick" else 100000, 3) if len(b) < 20000]

def gen_render(tier, rng):
    n = 800 if tier == "quick" else 30000
    out = []
    for d in docs(rng, n, max_records=3):
        f = specgen.inject_fault(d, rng)
        if f: out.append("render-errors " + f[0].hex())
    for b in byte_stream(tier, rng, n, n // 2, 2):
        if len(b) < 3000: out.append("render-errors " + (b.hex() if b else "-"))
    return out

def oracle_render(req, out):
    if out.startswith("ok") or out == "valid":
        return None
    return "terminal / JSON rendering of the errors disagrees with the reported positions or failed: " + out[:200]

def suites():
    return [
        Suite("faulted", gen_faulted, oracle=oracle_faulted,
              rule="one rule-violating edit at a random line of a conforming document; checks existence/quote/span/order of every error and the line of the first; non-trivial = rejected",
              nontrivial=lambda r, o: o.startswith("errors")),
        Suite("malformed", gen_malformed, oracle=errors_located,
              rule="token strings, mutated documents, random bytes; every reported error must be located inside the text; non-trivial = rejected",
              nontrivial=lambda r, o: o.startswith("errors")),
        Suite("renderings", gen_render, oracle=oracle_render, model=False,
              rule="PrettifyParsingError and `klog json` on invalid texts, serial and parallel: line number, caret offset/count, line/column/length must equal the reported positions; non-trivial = >= 1 error rendered",
              nontrivial=lambda r, o: o.startswith("ok")),
    ]
