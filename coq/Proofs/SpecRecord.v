(* SpecRecord — layer L2 of C01: a block holding the lines of a specification record parses to the denoted record. *)
From Klog Require Import Base.Prelude Base.Utf8 Model.Calendar Model.Values Model.Record Model.Lines Model.Parser
  Proofs.TagsUtf8 Spec.Spec Proofs.SpecValues Proofs.SpecEntry.
From Coq Require Import ZifyBool.
Open Scope Z_scope.

(* ================= runes and bytes of a line ================= *)

Lemma scalar_is_scalar r : scalar r = is_scalar r.
Proof. reflexivity. Qed.

Lemma text_ok_scalar t : text_ok t = true -> Forall (fun r => is_scalar r = true) t.
Proof.
  unfold text_ok. rewrite forallb_forall, Forall_forall. intros H c Hc. specialize (H c Hc).
  apply andb_true_iff in H as [H _]. exact H.
Qed.

Lemma decode_encode t : text_ok t = true -> utf8_decode (utf8_encode t) = t.
Proof. intros H. apply utf8_decode_encode, text_ok_scalar, H. Qed.

Lemma text_ok_app a b : text_ok (a ++ b) = text_ok a && text_ok b.
Proof. apply forallb_app. Qed.

Lemma ascii_text_ok t : ascii t = true -> forallb (fun c => negb (c =? 10)%N) t = true -> text_ok t = true.
Proof.
  unfold ascii, text_ok. rewrite !forallb_forall. intros A L c Hc. specialize (A c Hc). specialize (L c Hc).
  unfold scalar. lia.
Qed.

(* the blank test of the model looks at bytes; on encoded text it is the rune-level test *)
Lemma is_blank_encode t : is_blank_text (utf8_encode t) = blank_text t.
Proof.
  induction t as [|c t IH]; [reflexivity|].
  unfold utf8_encode. cbn [flat_map]. fold (utf8_encode t). unfold is_blank_text, blank_text in *.
  rewrite forallb_app. cbn [forallb]. rewrite IH. f_equal.
  destruct (encode_rune_bytes c) as [[Hc ->] | [Hc Hb]].
  - cbn [forallb]. rewrite andb_true_r. reflexivity.
  - replace ((c =? 32)%N || (c =? 9)%N) with false by lia.
    destruct (encode_rune c) as [|b0 r] eqn:E; [exfalso; exact (encode_rune_nonempty c E)|].
    inversion Hb; subst. cbn [forallb]. replace ((b0 =? 32)%N || (b0 =? 9)%N) with false by lia. reflexivity.
Qed.

(* indentation styles are the same bytes as runes *)
Lemma indent_ascii i : ascii (indent_text i) = true.
Proof. destruct i; reflexivity. Qed.

Lemma encode_indent i rest : utf8_encode (indent_text i ++ rest) = indent_text i ++ utf8_encode rest.
Proof. rewrite utf8_encode_app, (utf8_encode_ascii _ (indent_ascii i)). reflexivity. Qed.

Lemma has_prefix_app p s : has_prefix p (p ++ s) = true.
Proof. apply has_prefix_spec. exists s. reflexivity. Qed.

Lemma has_prefix_app_same p a b : has_prefix (p ++ a) (p ++ b) = has_prefix a b.
Proof. induction p as [|x p IH]; [reflexivity|]. cbn [app has_prefix]. rewrite N.eqb_refl. exact IH. Qed.

Lemma has_prefix_indent_head i c r : is_space_or_tab c = false -> has_prefix (indent_text i) (c :: r) = false.
Proof. unfold is_space_or_tab. intros H. destruct i; cbn [indent_text spaces repeat has_prefix]; lia. Qed.

(* first byte of an encoded text whose first rune is ASCII *)
Lemma encode_cons_ascii c r : (c <? 128)%N = true -> utf8_encode (c :: r) = c :: utf8_encode r.
Proof. intros H. unfold utf8_encode. cbn [flat_map]. unfold encode_rune. rewrite H. reflexivity. Qed.

(* the indentation found on an entry line whose text begins with a non-blank ASCII character *)
Lemma find_indentation_entry i c r : is_space_or_tab c = false ->
  find_indentation (indent_text i ++ c :: r) = Some (indent_text i).
Proof.
  unfold is_space_or_tab. intros H. unfold find_indentation, indentations.
  destruct i; cbn [indent_text spaces repeat app find has_prefix]; rewrite ?N.eqb_refl; cbn [andb];
    repeat match goal with |- context [(?x =? ?y)%N] => first [replace (x =? y)%N with false by lia | change (x =? y)%N with false | change (x =? y)%N with true]; cbn [andb] end; reflexivity.
Qed.

(* ================= headline ================= *)

Lemma forallb_impl {A} (p q : A -> bool) l : (forall c, p c = true -> q c = true) -> forallb p l = true -> forallb q l = true.
Proof. rewrite !forallb_forall. intros H Hp c Hc. apply H, Hp, Hc. Qed.

Lemma count_while_all p a rest : forallb p a = true ->
  match rest with c :: _ => p c = false | [] => True end ->
  count_while p (a ++ rest) = length a.
Proof.
  intros Ha Hr. induction a as [|c a IH]; cbn [app forallb] in *.
  - destruct rest as [|c r]; [reflexivity|]. cbn [count_while]. rewrite Hr. reflexivity.
  - apply andb_true_iff in Ha as [Hc Ha]. cbn [count_while length]. rewrite Hc, (IH Ha). reflexivity.
Qed.

Lemma skip_while_all_at p cs pos pre a rest : cs = pre ++ a ++ rest -> pos = length pre ->
  forallb p a = true -> match rest with c :: _ => p c = false | [] => True end ->
  skip_while p cs pos = (pos + length a)%nat.
Proof. intros -> -> Ha Hr. unfold skip_while. rewrite skipn_pre, count_while_all by assumption. reflexivity. Qed.

Definition dur_char (c : N) : bool := is_digit c || (c =? 43)%N || (c =? 45)%N || (c =? 104)%N || (c =? 109)%N.

Lemma render_dur_dur_chars d : dur_shape d = true -> forallb dur_char (render_dur d) = true.
Proof.
  unfold dur_shape, render_dur. intros W. repeat (apply andb_true_iff in W as [W ?]).
  assert (Dg : forall ds, forallb is_digit ds = true -> forallb dur_char ds = true).
  { intros ds. apply forallb_impl. intros c Hc. unfold dur_char. rewrite Hc. reflexivity. }
  rewrite !forallb_app.
  apply andb_true_iff; split; [destruct (du_sign d); reflexivity|].
  apply andb_true_iff; split.
  - destruct (du_h d) as [hs|]; [|reflexivity]. cbn [opt_ok] in H1. apply integer_ok_inv in H1 as [_ D].
    rewrite forallb_app, (Dg _ D). reflexivity.
  - destruct (du_m d) as [ms|]; [|reflexivity]. cbn [opt_ok] in H0. apply integer_ok_inv in H0 as [_ D].
    rewrite forallb_app, (Dg _ D). reflexivity.
Qed.

Lemma render_dur_nonempty d : dur_shape d = true -> render_dur d <> [].
Proof.
  intros Sh E. destruct (match_render_dur d Sh) as [_ Hne].
  unfold render_dur in E. apply app_eq_nil in E as [_ E]. apply app_eq_nil in E as [E1 E2].
  destruct (du_h d) as [hs|]; [destruct hs; discriminate|]. destruct (du_m d) as [ms|]; [destruct ms; discriminate|].
  cbn in Hne. destruct Hne; congruence.
Qed.

Definition date_char (c : N) : bool := is_digit c || (c =? 45)%N || (c =? 47)%N.

Lemma render_date_chars d : wf_date d = true -> forallb date_char (render_date d) = true.
Proof.
  intros W. pose proof W as V. unfold wf_date in W.
  assert (Hy : 0 <= sd_year d <= 9999) by lia.
  assert (Hm : 0 <= sd_month d <= 99) by lia.
  assert (Hd : 0 <= sd_day d <= 99).
  { split; [lia|]. rewrite month_length_days_in_month in W. unfold days_in_month in W.
    destruct (sd_month d =? 2); [destruct (is_leap (sd_year d)); lia|].
    destruct ((sd_month d =? 4) || (sd_month d =? 6) || (sd_month d =? 9) || (sd_month d =? 11)); lia. }
  assert (Dg : forall ds, forallb is_digit ds = true -> forallb date_char ds = true).
  { intros ds. apply forallb_impl. intros c Hc. unfold date_char. rewrite Hc. reflexivity. }
  unfold render_date. rewrite !forallb_app.
  rewrite (Dg _ (four_digits_digits _ Hy)), (Dg _ (two_digits_digits _ Hm)), (Dg _ (two_digits_digits _ Hd)).
  destruct (sd_dash d); reflexivity.
Qed.

Lemma render_date_head d : match render_date d with c :: _ => c = dchar (sd_year d / 1000) | [] => False end.
Proof. reflexivity. Qed.

Lemma blank_text_is_space_or_tab t : blank_text t = forallb is_space_or_tab t.
Proof. reflexivity. Qed.

Lemma ascii_repeat_space_blank n : forallb is_space_or_tab (repeat 32%N n) = true.
Proof. induction n; [reflexivity|exact IHn]. Qed.

Lemma peek_at_cons cs pos pre c rest : cs = pre ++ c :: rest -> pos = length pre -> peek cs pos = c.
Proof. intros E1 E2. rewrite (peek_at cs pos pre (c :: rest) E1 E2). reflexivity. Qed.

Lemma peek_at_end cs pos : pos = length cs -> peek cs pos = rune_error.
Proof. intros E. rewrite (peek_at cs pos cs [] (eq_sym (app_nil_r cs)) E). reflexivity. Qed.

Lemma skip_while_stay p cs pos pre rest : cs = pre ++ rest -> pos = length pre ->
  match rest with c :: _ => p c = false | [] => True end -> skip_while p cs pos = pos.
Proof. intros E1 E2 H. rewrite (skip_while_all_at p cs pos pre [] rest E1 E2 eq_refl H). cbn [length]. apply Nat.add_0_r. Qed.

Lemma peek_until_at_cons p cs pos pre a c rest : cs = pre ++ a ++ c :: rest -> pos = length pre ->
  forallb (fun c => negb (p c)) a = true -> p c = true -> peek_until p cs pos = (a, true).
Proof. intros E1 E2 Ha Hc. rewrite (peek_until_at p cs pos pre a (c :: rest) E1 E2 Ha Hc). reflexivity. Qed.

Section Headline.
  Variables (ln : nat) (r : s_record).
  Hypothesis Wd : wf_date (sr_date r) = true.
  Hypothesis Ws : match sr_should r with Some (_, d) => wf_dur d = true | None => True end.
  Hypothesis Wt : blank_text (sr_trail r) = true.

  Lemma parse_headline_spec :
    parse_headline ln (headline_text r) =
    HeadRec (denote_date (sr_date r))
            (match sr_should r with Some (_, d) => Some (d_mins (denote_dur d)) | None => None end) [].
  Proof.
    pose proof (render_date_chars _ Wd) as Dc.
    assert (Dnb : forallb (fun c => negb (is_space_or_tab c)) (render_date (sr_date r)) = true).
    { revert Dc. apply forallb_impl. intros c. unfold date_char, is_digit, is_space_or_tab. lia. }
    assert (Das : ascii (render_date (sr_date r)) = true).
    { revert Dc. apply forallb_impl. intros c. unfold date_char, is_digit. lia. }
    assert (Dhead : exists c0 r0, render_date (sr_date r) = c0 :: r0 /\ is_space_or_tab c0 = false).
    { unfold render_date, four_digits. cbn [app]. eexists; eexists; split; [reflexivity|].
      unfold wf_date in Wd. assert (0 <= sd_year (sr_date r) / 1000 <= 9) by (Z.div_mod_to_equations; lia).
      unfold is_space_or_tab, dchar. lia. }
    pose proof (parse_render_date _ Wd) as Pd.
    remember (render_date (sr_date r)) as rd eqn:Erd.
    remember (sr_trail r) as trail eqn:Etr.
    assert (Thead : match trail with c :: _ => is_space_or_tab c = true | [] => True end).
    { destruct trail as [|c t]; [trivial|]. cbn [blank_text forallb] in Wt. apply andb_true_iff in Wt as [H _]. exact H. }
    unfold headline_text. rewrite <- Erd, <- Etr.
    destruct (sr_should r) as [[extra d]|] eqn:Esh.
    - (* with a should-total *)
      pose proof Ws as Wdur. unfold wf_dur in Wdur. apply andb_true_iff in Wdur as [Sh _].
      pose proof (render_dur_dur_chars d Sh) as Uc.
      pose proof (render_dur_ascii d Sh) as Uas.
      pose proof (render_dur_nonempty d Sh) as Une.
      pose proof (parse_render_dur d Ws) as Pu.
      remember (render_dur d) as ru eqn:Eru.
      assert (Uhead : forall x, match ru ++ x with c :: _ => is_space_or_tab c = false | [] => True end).
      { intros x. destruct ru as [|c t]; [congruence|].
        cbn [app forallb] in *. apply andb_true_iff in Uc as [H _]. unfold dur_char, is_digit in H. unfold is_space_or_tab. lia. }
      assert (U41 : forallb (fun c => negb (c =? ch_rpar)%N) (ru ++ [33%N]) = true).
      { rewrite forallb_app. apply andb_true_iff; split; [|reflexivity].
        revert Uc. apply forallb_impl. intros c. unfold dur_char, is_digit, ch_rpar. lia. }
      assert (U33 : forallb (fun c => negb (c =? ch_excl)%N) ru = true).
      { revert Uc. apply forallb_impl. intros c. unfold dur_char, is_digit, ch_excl. lia. }
      remember (repeat 32%N (S extra)) as sp eqn:Esp.
      assert (Hsp : forallb is_space_or_tab sp = true) by (subst sp; apply ascii_repeat_space_blank).
      assert (Hsp0 : exists s', sp = 32%N :: s') by (subst sp; eexists; reflexivity).
      unfold spaces. rewrite <- Esp. clear Esp Erd Etr Eru.
      remember (rd ++ (sp ++ [40%N] ++ ru ++ [33; 41]%N) ++ trail) as cs eqn:Ecs.
      unfold parse_headline. cbv zeta.
      destruct Dhead as (c0 & r0 & Erd & Hc0).
      rewrite (peek_at_cons cs 0 [] c0 (r0 ++ (sp ++ [40%N] ++ ru ++ [33; 41]%N) ++ trail) ltac:(rewrite Ecs, Erd; reflexivity) eq_refl).
      rewrite Hc0. destruct Hsp0 as [s' Es'].
      rewrite (peek_until_at_cons is_space_or_tab cs 0 [] rd 32%N (s' ++ [40%N] ++ ru ++ [33; 41]%N ++ trail)
                 ltac:(rewrite Ecs, Es'; app_eq) eq_refl Dnb eq_refl).
      cbv iota beta. unfold str at 1. rewrite (utf8_encode_ascii _ Das), Pd.
      rewrite (skip_while_all_at is_space_or_tab cs (length rd) rd sp (40%N :: ru ++ [33; 41]%N ++ trail)
                 ltac:(rewrite Ecs; app_eq) eq_refl Hsp eq_refl).
      rewrite (peek_at_cons cs (length rd + length sp) (rd ++ sp) 40%N (ru ++ [33; 41]%N ++ trail)
                 ltac:(rewrite Ecs; app_eq) ltac:(len_eq)).
      change (40 =? ch_lpar)%N with true. cbv iota.
      rewrite (skip_while_stay is_space_or_tab cs (S (length rd + length sp)) (rd ++ sp ++ [40%N]) (ru ++ [33; 41]%N ++ trail)
                 ltac:(rewrite Ecs; app_eq) ltac:(len_eq) (Uhead _)).
      rewrite (peek_until_at_cons (fun c => (c =? ch_rpar)%N) cs (S (length rd + length sp)) (rd ++ sp ++ [40%N]) (ru ++ [33%N]) 41%N trail
                 ltac:(rewrite Ecs; app_eq) ltac:(len_eq) U41 eq_refl).
      cbv iota beta. change (negb true) with false. cbv iota.
      replace (Nat.eqb (length (ru ++ [33%N])) 0) with false by (rewrite app_length; cbn [length]; symmetry; apply Nat.eqb_neq; lia).
      cbv iota.
      rewrite (peek_until_at_cons (fun c => (c =? ch_excl)%N) cs (S (length rd + length sp)) (rd ++ sp ++ [40%N]) ru 33%N (41%N :: trail)
                 ltac:(rewrite Ecs; app_eq) ltac:(len_eq) U33 eq_refl).
      cbv iota beta. change (negb true) with false. cbv iota.
      unfold parser_duration, str. rewrite (utf8_encode_ascii _ Uas), Pu.
      rewrite (skip_while_stay is_space_or_tab cs (S (length rd + length sp) + length ru + 1) (rd ++ sp ++ [40%N] ++ ru ++ [33%N]) (41%N :: trail)
                 ltac:(rewrite Ecs; app_eq) ltac:(len_eq) eq_refl).
      rewrite (peek_at_cons cs (S (length rd + length sp) + length ru + 1) (rd ++ sp ++ [40%N] ++ ru ++ [33%N]) 41%N trail
                 ltac:(rewrite Ecs; app_eq) ltac:(len_eq)).
      change (41 =? ch_rpar)%N with true. change (negb true) with false. cbv iota.
      rewrite (skip_while_all_at is_space_or_tab cs (S (S (length rd + length sp) + length ru + 1)) (rd ++ sp ++ [40%N] ++ ru ++ [33; 41]%N) trail []
                 ltac:(rewrite Ecs, app_nil_r; app_eq) ltac:(len_eq) Wt I).
      replace (Z.of_nat (S (S (length rd + length sp) + length ru + 1) + length trail) <? zlen cs) with false; [reflexivity|].
      symmetry. apply Z.ltb_ge. unfold zlen. rewrite Ecs. apply Nat2Z.inj_le. len_eq.
    - (* without *)
      clear Etr.
      remember (rd ++ [] ++ trail) as cs eqn:Ecs. cbn [app] in Ecs.
      unfold parse_headline. cbv zeta.
      destruct Dhead as (c0 & r0 & Erd' & Hc0).
      rewrite (peek_at_cons cs 0 [] c0 (r0 ++ trail) ltac:(rewrite Ecs, Erd'; reflexivity) eq_refl).
      rewrite Hc0.
      rewrite (peek_until_at is_space_or_tab cs 0 [] rd trail Ecs eq_refl Dnb Thead).
      cbv iota beta. unfold str at 1. rewrite (utf8_encode_ascii _ Das), Pd.
      rewrite (skip_while_all_at is_space_or_tab cs (length rd) rd trail [] ltac:(rewrite Ecs, app_nil_r; reflexivity) eq_refl Wt I).
      rewrite (peek_at_end cs (length rd + length trail) ltac:(rewrite Ecs; len_eq)).
      change (rune_error =? ch_lpar)%N with false. cbv iota.
      rewrite (skip_while_stay is_space_or_tab cs (length rd + length trail) cs [] (eq_sym (app_nil_r cs)) ltac:(rewrite Ecs; len_eq) I).
      replace (Z.of_nat (length rd + length trail) <? zlen cs) with false; [reflexivity|].
      symmetry. apply Z.ltb_ge. unfold zlen. rewrite Ecs. apply Nat2Z.inj_le. len_eq.
  Qed.
End Headline.
