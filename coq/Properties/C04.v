(* C04 — mutating commands have exactly their intended effect over any command history.
   Property theorems only; each is closed by [exact <lemma>] and followed by Print Assumptions.
   Model: Model/Commands.v (exec_simple) over Model/Reconcile.v and Model/Parser.v.
   The abstract model works on parsed records (Proofs/CommandsRefine.v):
     add_entry e r            the record r with the entry e added at its end
     insert_record r rs       the records rs with r put at the place klog gives a new record (before the first record
                              when it is dated earlier, otherwise after the record [new_record_position] selects)
     a_add_entry cfg d fmt e  add e to the first record dated d; when there is none, insert a new record holding e,
                              with the configured should-total and the date written with the separator the file uses
     a_add_entry_ok           the model rejects a second open range in a record
     a_close_in / a_stop      close the FIRST open range of the record at the given time (rejected when the end lies
                              before the start), keeping its dash spacing, the end written in the record's / the
                              file's clock convention; summary text is appended: the first line joins the entry's last
                              line, the others follow (append_summary)
     a_switch                 a_close_in, then an open range starting at the same time, in the same record
     a_start                  resolve the summary (--summary / --resume / --resume-nth, on the records), refuse a second
                              open range, add the open range - written in the clock convention, dash spacing and
                              placeholder length the target record / the file uses (a_open_range) - like a_add_entry
   The files quantified over are the specification-conforming ones: [spec_state file recs] says that the lines of
   [file] are the lines of the specification records [recs] (Spec/Spec.v: any blank lines before / between / after the
   records, any of the four indentations per record, LF or CRLF per line, last line with or without newline), and that
   an unterminated last line does not end in a carriage return. Every rendered well-formed specification document is
   one (C04_spec_files_exist); by C01 these are the files the parser is specified to accept. Each theorem also says
   that the result is again such a file, so the statements chain over histories.

   PARTIAL. Covered: create, track, start (each into an existing record and into a record that is created), stop
   (with the yesterday fallback and an appended summary), switch. Not yet covered: pause; the lift to whole histories
   (each theorem returns a [spec_state] again, so the lift is an induction once pause is in); the converse direction
   `the model rejects -> the command fails and changes nothing' beyond what C05 gives (no file is written on failure).
   The refinement is stated for arguments that are themselves specification-conforming (an entry text that is a
   specification entry, summary lines that are specification summary lines, none ending in a carriage return). *)
From Klog Require Import Base.Prelude Base.Utf8 Model.Calendar Model.Values Model.Record Model.Lines Model.Parser
  Model.Reconcile Model.Commands Proofs.Values Spec.Spec Proofs.SpecEntry Proofs.SpecRecord Proofs.SpecDoc
  Proofs.Reconcile Proofs.Commands Proofs.Rounding Proofs.CommandsSpec Proofs.CommandsRefine Proofs.CommandsStop.
Open Scope Z_scope.

(* the files: every rendered well-formed specification document whose last line is terminated or does not end in CR *)
Theorem C04_spec_files_exist : forall d, wf d -> last_line_safe (doc_lines d) -> spec_state (render d) (do_records d).
Proof.
  intros d W Hs. destruct (conforms_doc d W) as (lead & gs & C). exact (spec_state_of_conforms _ _ _ _ C Hs).
Qed.
Print Assumptions C04_spec_files_exist.

(* what such a file parses to *)
Theorem C04_spec_state_parse : forall file recs, spec_state file recs ->
  exists bs, parse_text file = Ok (Parsed (denote_recs recs) bs).
Proof. intros file recs (lead & gs & C & _). eexists. exact (spec_file_parse _ _ _ _ C). Qed.
Print Assumptions C04_spec_state_parse.

(* create: succeeds, and re-reading the file yields the records with the new one at its place *)
Theorem C04_create_refines : forall now cfg ds should srunes file recs d,
  spec_state file recs -> at_date now ds = Ok d -> valid_cdate (dt d) = true ->
  let should' := match should with Some m => Some m | None => cfg_should cfg end in
  should_fits should' -> forallb summary_line_ok srunes = true -> no_cr_lines (map utf8_encode srunes) ->
  exists file' recs',
    exec_simple now cfg (Create ds should (map utf8_encode srunes)) file = COk file' /\
    spec_state file' recs' /\
    denote_recs recs' =
      insert_record {| rec_date := a_new_date d (date_format cfg ds) (denote_recs recs); rec_should := should';
                       rec_summary := map utf8_encode srunes; rec_entries := [] |} (denote_recs recs) /\
    exists bs', parse_text file' = Ok (Parsed (denote_recs recs') bs').
Proof. exact create_refines. Qed.
Print Assumptions C04_create_refines.

(* track: whenever the model accepts, the command succeeds and re-reading the file yields the model's records *)
Theorem C04_track_refines : forall now cfg ds file recs d se,
  spec_state file recs -> at_date now ds = Ok d -> valid_cdate (dt d) = true -> should_fits (cfg_should cfg) ->
  wf_entry se = true -> no_cr_lines (entry_arg se) ->
  a_add_entry_ok d (denote_entry se) (denote_recs recs) ->
  exists file' recs',
    exec_simple now cfg (Track ds (entry_arg se)) file = COk file' /\
    spec_state file' recs' /\
    denote_recs recs' = a_add_entry cfg d (date_format cfg ds) (denote_entry se) (denote_recs recs) /\
    exists bs', parse_text file' = Ok (Parsed (denote_recs recs') bs').
Proof. exact track_refines. Qed.
Print Assumptions C04_track_refines.

(* start: whenever the model accepts (no open range yet, the summary resolves), the command succeeds and re-reading the
   file yields the model's records. [summaries_ok]: whatever summary the arguments resolve to - the given text or the
   summary of an entry of the file - is made of specification summary lines not ending in a carriage return *)
Theorem C04_start_refines : forall now cfg a s file recs d t rs',
  spec_state file recs -> at_date now (a_date a) = Ok d -> at_time now cfg a = COk t -> valid_time t ->
  valid_cdate (dt d) = true -> should_fits (cfg_should cfg) ->
  summaries_ok s (denote_recs recs) ->
  a_start cfg d (date_format cfg (a_date a)) t (time_format cfg a) s (denote_recs recs) = COk rs' ->
  exists file' recs',
    exec_simple now cfg (Start a s) file = COk file' /\
    spec_state file' recs' /\ denote_recs recs' = rs' /\
    exists bs', parse_text file' = Ok (Parsed (denote_recs recs') bs').
Proof. exact start_refines. Qed.
Print Assumptions C04_start_refines.

(* stop: whenever the model accepts (a record of the target date - or, without date and time selection, of the day
   before - with an open range that does not start after the end time), the command succeeds and re-reading the file
   yields the model's records. [open_entry_ok]: no open range line ends in a blank directly after the placeholder
   (such a line reads back like one without the blank, but appended text would start with it). *)
Theorem C04_stop_refines : forall now cfg a summary add_r file recs d t y rs',
  spec_state file recs -> at_date now (a_date a) = Ok d -> at_time now cfg a = COk t -> valid_time t ->
  plus_days (dt d) (-1) = Ok y -> valid_cdate (dt d) = true ->
  match summary with Some s => s | None => [] end = map utf8_encode add_r -> add_ok add_r ->
  (forall rg, In rg recs -> open_entry_ok (fst rg)) ->
  a_stop (was_automatic a) d y t (time_format cfg a) (map utf8_encode add_r) (denote_recs recs) = COk rs' ->
  exists file' recs',
    exec_simple now cfg (Stop a summary) file = COk file' /\
    spec_state file' recs' /\ denote_recs recs' = rs' /\
    exists bs', parse_text file' = Ok (Parsed (denote_recs recs') bs').
Proof. exact stop_refines. Qed.
Print Assumptions C04_stop_refines.

(* switch: the stop half and the start half, in one write *)
Theorem C04_switch_refines : forall now cfg a s file recs d t rs',
  spec_state file recs -> at_date now (a_date a) = Ok d -> at_time now cfg a = COk t -> valid_time t ->
  (forall rg, In rg recs -> open_entry_ok (fst rg)) ->
  (forall current summary, resolve_summary s current None = COk summary -> summary_ok summary) ->
  a_switch d t (time_format cfg a) s (denote_recs recs) = COk rs' ->
  exists file' recs',
    exec_simple now cfg (Switch a s) file = COk file' /\
    spec_state file' recs' /\ denote_recs recs' = rs' /\
    exists bs', parse_text file' = Ok (Parsed (denote_recs recs') bs').
Proof. exact switch_refines. Qed.
Print Assumptions C04_switch_refines.
