(* CommandsArgs: what the commands' date and time arguments are, without further assumptions —
   every date [at_date] returns and every time [at_time] returns is a valid one as soon as the clock's date and the
   explicitly given date / time are; and explicitly given ones are, when they come out of the value parsers. *)
From Klog Require Import Base.Prelude Model.Calendar Model.Values Model.Record Model.Lines Model.Parser
  Model.Reconcile Model.Commands Proofs.Values Proofs.Calendar Proofs.Rounding.
From Coq Require Import ZifyBool.
Open Scope Z_scope.

Lemma time_plus_valid t d t' : time_plus t d = Ok t' -> valid_time t'.
Proof.
  unfold time_plus. destruct (add64 (time_offset t) d) as [mins|]; [|discriminate].
  destruct ((2 * 1440 <=? mins) || (mins <? -1440)); [discriminate|].
  destruct (mins <? 0); [apply new_time_valid; lia|]. destruct (1440 <? mins); apply new_time_valid; lia.
Qed.

Lemma round_to_nearest_valid t v t' : round_to_nearest t v = Ok t' -> valid_time t'.
Proof.
  unfold round_to_nearest. destruct (time_plus _ _) as [r|e|c] eqn:E; [|intros [= <-]; unfold valid_time; cbn; lia|discriminate].
  intros [= <-]. exact (time_plus_valid _ _ _ E).
Qed.

Definition time_arg_ok (a : at_args) : Prop := forall t, a_time a = Some t -> valid_time t.

Theorem at_time_valid now cfg a t : time_arg_ok a -> at_time now cfg a = COk t -> valid_time t.
Proof.
  intros Ha. unfold at_time. destruct (a_time a) as [t0|] eqn:Et; [intros [= <-]; exact (Ha _ Et)|].
  destruct (of_outcome (at_date now (a_date a))) as [d| |]; cbn [cbind]; [|discriminate|discriminate].
  destruct (new_time (now_h now) (now_m now) 0 true) as [t0| |] eqn:E0; cbn [of_outcome cbind]; [|discriminate|discriminate].
  pose proof (new_time_valid _ _ 0 _ _ ltac:(lia) E0) as V0.
  assert (Hr : forall o tr, (match o with Some v => round_to_nearest t0 v | None => Ok t0 end) = Ok tr -> valid_time tr).
  { intros [v|] tr H; [exact (round_to_nearest_valid _ _ _ H)|injection H as <-; exact V0]. }
  destruct (match a_round a with Some v => round_to_nearest t0 v | None => match cfg_round cfg with Some v => round_to_nearest t0 v | None => Ok t0 end end) as [tr| |] eqn:Er;
    cbn [of_outcome cbind]; [|discriminate|discriminate].
  assert (Vr : valid_time tr).
  { destruct (a_round a) as [v|]; [exact (round_to_nearest_valid _ _ _ Er)|]. exact (Hr (cfg_round cfg) tr Er). }
  destruct (cdate_eqb (now_date now) (dt d)); [intros [= <-]; exact Vr|].
  destruct (of_outcome (plus_days (now_date now) (-1))) as [y| |]; cbn [cbind]; [|discriminate|discriminate].
  destruct (cdate_eqb y (dt d)).
  - destruct (time_plus tr 1440) as [t2| |] eqn:E2; [intros [= <-]; exact (time_plus_valid _ _ _ E2)|discriminate|discriminate].
  - destruct (of_outcome (plus_days (now_date now) 1)) as [tm| |]; cbn [cbind]; [|discriminate|discriminate].
    destruct (cdate_eqb tm (dt d)); [|discriminate].
    destruct (time_plus tr (-1440)) as [t2| |] eqn:E2; [intros [= <-]; exact (time_plus_valid _ _ _ E2)|discriminate|discriminate].
Qed.

(* a time given on the command line comes out of NewTimeFromString *)
Theorem parse_time_valid s t : parse_time s = Ok t -> valid_time t.
Proof.
  unfold parse_time. destruct (match_time s) as [m|]; [|discriminate].
  destruct (tm_lt m && tm_gt m); [discriminate|].
  assert (Hs : -1 <= (if tm_lt m then -1 else if tm_gt m then 1 else 0) <= 1) by (destruct (tm_lt m), (tm_gt m); lia).
  destruct (tm_ampm m).
  - apply new_time_valid. exact Hs.
  - destruct (_ || _); [discriminate|]. apply new_time_valid. exact Hs.
  - destruct (_ || _); [discriminate|]. apply new_time_valid. exact Hs.
Qed.

Lemma plus_days_valid c n r : plus_days c n = Ok r -> valid_cdate r = true.
Proof.
  unfold plus_days. destruct (_ && _) eqn:E; [|discriminate]. intros [= <-].
  destruct (days_cfd (days_of c + n)) as [Hw _]. apply valid_wf. split; [exact Hw|lia].
Qed.

Definition datesel_ok (now : clock) (ds : datesel) : Prop :=
  valid_cdate (now_date now) = true /\ match ds with DExplicit d => valid_cdate (dt d) = true | _ => True end.

Theorem at_date_valid now ds d : datesel_ok now ds -> at_date now ds = Ok d -> valid_cdate (dt d) = true.
Proof.
  intros [Hn Hd]. unfold at_date. destruct ds as [| | | |d0].
  - intros [= <-]. exact Hn.
  - intros [= <-]. exact Hn.
  - destruct (plus_days (now_date now) (-1)) as [c| |] eqn:E; cbn [bind]; [|discriminate|discriminate]. intros [= <-]. exact (plus_days_valid _ _ _ E).
  - destruct (plus_days (now_date now) 1) as [c| |] eqn:E; cbn [bind]; [|discriminate|discriminate]. intros [= <-]. exact (plus_days_valid _ _ _ E).
  - intros [= <-]. exact Hd.
Qed.

(* a date given on the command line comes out of NewDateFromString *)
Theorem parse_date_valid s d : parse_date s = Ok d -> valid_cdate (dt d) = true.
Proof.
  unfold parse_date. destruct s as [|y1 [|y2 [|y3 [|y4 [|s1 [|m1 [|m2 [|s2 [|d1 [|d2 [|? ?]]]]]]]]]]]; try discriminate.
  destruct (_ && _ && _ && _ && _ && _ && _ && _ && _ && _); [|discriminate].
  destruct (Nat.eqb _ 1); [discriminate|].
  destruct (valid_ymd _ _ _) eqn:E; [|discriminate]. intros [= <-]. exact E.
Qed.
