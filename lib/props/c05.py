"""C05 — a mutating command either leaves a valid file or leaves the file untouched."""
import sys, os
sys.path.insert(0, os.path.dirname(os.path.dirname(os.path.abspath(__file__))))
from check import Suite
from props.commands import *
from props.parsing import byte_stream, mutate
import specgen

def gen_histories(tier, rng):
    n = 1500 if tier == "quick" else 200000
    out = []
    for _ in range(n):
        doc, cfg, steps = make_history(rng)
        out.append(history_request(doc.render(), cfg, steps))
    return out

def gen_invalid_targets(tier, rng):
    """all mutating commands on files that do not parse, and parameters chosen to make a step fail"""
    n = 800 if tier == "quick" else 80000
    out = []
    for _ in range(n):
        doc, cfg, steps = make_history(rng, max_steps=3)
        f = specgen.inject_fault(doc, rng)
        b = f[0] if f else mutate(rng, doc.render())
        out.append(history_request(b, cfg, steps))
    return out

HOSTILE_TAILS = [["\r"], ["", "More"], ["\r", "More"], ["   ", "More"], ["\t"], ["More\r", "\r", "Last"], ["\u00a0"], ["\u3000 x"], ["100%", "%s %d %!"],
                 ["\x00"], ["2020-01-01"], ["    1h"], ["x" * 5000], ["\r\r"], [" \r"], ["a\rb"], ["\x0c"], ["\ufeff"], ["\xff\xfe"], ["More", ""], ["", ""]]

def gen_hostile(tier, rng):
    """the texts a user passes on the command line (the entry text of track; --summary of start, stop, switch, create, pause)
       made hostile: carriage returns, CRLF-separated and empty lines, lines of blanks, NUL, form feed, BOM, invalid UTF-8,
       percent signs, very long lines, lines that look like a date or an indented entry. The command must still either
       leave a file that parses or refuse and leave the bytes alone."""
    n = 700 if tier == "quick" else 80000
    out = []
    # the first and the last day of the calendar with times shifted beyond them: whatever looks at the neighbouring day
    # after the file has been written (warnings, for instance) must not turn a successful write into a crash
    import datetime as _dt
    now = _dt.datetime(2021, 3, 14, 10, 0)
    for date, entry in (("9999-12-31", "23:00 - 1:00>"), ("9999-12-31", "0:30> - ?"), ("9999-12-31", "1h"), ("0000-01-01", "<23:00 - 1:00"),
                        ("0000-01-01", "<22:00 - ?"), ("9999-12-30", "23:00 - 1:00>"), ("0000-01-02", "<23:00 - 1:00")):
        for file0 in (b"", ("%s\n    2h\n" % date).encode(), ("%s\n    23:30 - 0:10>\n    <23:50 - ?\n" % date).encode(), b"2000-01-01\n    1h\n"):
            steps = [Step(now, "track", [hx(date.encode()), hl([entry])]), Step(now, "stop", [hx(date.encode()), hx(b"23:59"), "_", "_"]),
                     Step(now, "create", [hx(date.encode()), "_", "_"])]
            out.append(history_request(file0, ["_", "_", "_", "_"], steps))
    while len(out) < n:
        doc, cfg, steps = make_history(rng, max_steps=3)
        touched = False
        for s in steps:
            tail = rng.choice(HOSTILE_TAILS)
            tail = [x.encode("utf-8") if isinstance(x, str) and "\xff" not in x else (b"\xff\xfe" if isinstance(x, str) else x) for x in tail]
            idx = {"track": 1, "start": 3, "switch": 3, "stop": 3, "create": 2, "pause": 0}[s.kind]
            if s.args[idx] == "_" and s.kind != "track":
                if rng.random() < 0.5: continue
                s.args[idx] = hx(b"text")
            if s.kind == "pause" and s.args[2] == "1":
                continue
            first = rng.choice([b"", b"", b"\r", b" \r", b"\t"])
            toks = s.args[idx].split(",")
            toks[-1] = hx(unhx(toks[-1]) + first)
            s.args[idx] = ",".join(toks + [hx(x) for x in tail])
            touched = True
        if touched:
            out.append(history_request(doc.render(), cfg, steps))
    return out

def nontrivial(req, out):
    return "fail:" in out or "ok:" in out

def suites():
    return [
        Suite("histories", gen_histories, oracle=oracle_c05, decisive=False, nontrivial=nontrivial,
              rule="histories of 1-6 mutating commands (all six kinds, all date selections, explicit/automatic/rounded times, summaries, --resume/--resume-nth, flag conflicts, non-entry texts) on conforming documents; after every step: success => file parses, failure => bytes unchanged"),
        Suite("invalid-targets", gen_invalid_targets, oracle=oracle_c05, decisive=False, nontrivial=nontrivial,
              rule="the same commands on files with an injected fault or byte mutations (unparseable targets)"),
        Suite("hostile-arguments", gen_hostile, oracle=oracle_c05, decisive=False, nontrivial=nontrivial, model=False, env={"VERIF_WARN": "1"},
              rule="oracle-only (the model's commands take the texts the command line decoder lets through), run WITHOUT --no-warn so that the warnings computed after the write are part of the command: histories whose user-supplied texts (track text, --summary) carry carriage returns, empty and blank lines, NUL, form feed, BOM, invalid UTF-8, percent signs, 5000-character lines, date-like and entry-like lines"),
    ]
