(* CommandsAccepted: every file the parser accepts is EQUIVALENT to a specification-conforming one — the records it
   parses to are well-formed ([wf_records]: what Proofs/Print.v asks of records to print them), so their canonical print
   is a [spec_state] file, and that file parses to the same records up to [normalise] (a should-total of 0 reads as
   absent; nothing else changes for parsed records). The abstract model of C04 therefore speaks about every accepted
   file through its canonical form; what separates an accepted file from a conforming one is layout only (texts the
   specification does not mention: a tab after an entry value, blanks inside the should-total parentheses). *)
From Klog Require Import Base.Prelude Base.Utf8 Model.Calendar Model.Values Model.Record Model.Lines Model.Parser
  Model.Serialiser Model.Reconcile Model.Commands Proofs.Lines Proofs.Parser Proofs.TagsUtf8 Proofs.Calendar Proofs.Values
  Spec.Spec Proofs.SpecValues Proofs.SpecEntry Proofs.SpecRecord Proofs.SpecDoc Proofs.Print Proofs.JsonView
  Proofs.Reconcile Proofs.CommandsSpec Proofs.CommandsRefine Proofs.CommandsStop Proofs.CommandsTags.
From Coq Require Import ZifyBool.
Open Scope Z_scope.

(* ---------------------------------------------------------------- durations the parser returns *)

Lemma add64_some_ok a b v : add64 a b = Some v -> v = a + b /\ sm_ok v = true.
Proof. unfold add64. destruct (sm_ok a && sm_ok b && sm_ok (a + b)) eqn:E; [|discriminate]. intros [= <-]. split; [reflexivity|]. apply andb_true_iff in E as [_ E]. exact E. Qed.

Lemma mul64_some a b v : mul64 a b = Some v -> v = a * b.
Proof. unfold mul64. destruct (_ && _ && _); [|discriminate]. intros [= <-]. reflexivity. Qed.

Lemma span_digits_all s : forallb is_digit (fst (span is_digit s)) = true.
Proof. apply span_fst_forallb. Qed.

Lemma match_duration_digits s m : match_duration s = Some m -> forallb is_digit (dm_h m) = true /\ forallb is_digit (dm_m m) = true.
Proof.
  unfold match_duration.
  destruct (match s with x :: r => if (x =? ch_minus)%N || (x =? ch_plus)%N then (x, r) else (0%N, s) | [] => (0%N, s) end) as [sg s1].
  pose proof (span_digits_all s1) as D1. destruct (span is_digit s1) as [ds1 r1]. cbn [fst] in D1.
  destruct ds1 as [|d1 ds1'].
  - destruct r1; [intros [= <-]; split; reflexivity|discriminate].
  - destruct r1 as [|c r2]; [discriminate|].
    destruct (c =? ch_h)%N.
    + pose proof (span_digits_all r2) as D2. destruct (span is_digit r2) as [ds2 r3]. cbn [fst] in D2.
      destruct ds2 as [|d2 ds2'].
      * destruct r3; [intros [= <-]; split; [exact D1|reflexivity]|discriminate].
      * destruct r3 as [|c2 [|? ?]]; try discriminate. destruct (c2 =? ch_m)%N; [|discriminate]. intros [= <-]. split; assumption.
    + destruct (c =? ch_m)%N; [|discriminate]. destruct r2; [|discriminate]. intros [= <-]. split; [reflexivity|exact D1].
Qed.

Lemma atoi_opt_nonneg ds v : forallb is_digit ds = true -> match ds with [] => Some 0 | _ => atoi_digits ds end = Some v -> 0 <= v.
Proof.
  intros D H. destruct ds as [|c r]; [injection H as <-; lia|]. unfold atoi_digits in H.
  destruct (digits_val (c :: r) <=? max_int64); [|discriminate]. injection H as <-. apply digits_val_nonneg. exact D.
Qed.

Lemma match_duration_sign s m : match_duration s = Some m -> dm_sign m = 0%N \/ dm_sign m = ch_minus \/ dm_sign m = ch_plus.
Proof.
  unfold match_duration.
  assert (S : forall sg s1, (match s with x :: r => if (x =? ch_minus)%N || (x =? ch_plus)%N then (x, r) else (0%N, s) | [] => (0%N, s) end) = (sg, s1) ->
              sg = 0%N \/ sg = ch_minus \/ sg = ch_plus).
  { intros sg s1 H. destruct s as [|x r]; [injection H as <- _; auto|].
    destruct ((x =? ch_minus)%N || (x =? ch_plus)%N) eqn:E; injection H as <- _; [|auto]. right. unfold ch_minus, ch_plus in *. lia. }
  destruct (match s with x :: r => if (x =? ch_minus)%N || (x =? ch_plus)%N then (x, r) else (0%N, s) | [] => (0%N, s) end) as [sg s1] eqn:E0.
  specialize (S sg s1 eq_refl).
  destruct (span is_digit s1) as [ds1 r1].
  destruct ds1 as [|d1 ds1'].
  - destruct r1; [intros [= <-]; exact S|discriminate].
  - destruct r1 as [|c r2]; [discriminate|].
    destruct (c =? ch_h)%N.
    + destruct (span is_digit r2) as [ds2 r3].
      destruct ds2 as [|d2 ds2'].
      * destruct r3; [intros [= <-]; exact S|discriminate].
      * destruct r3 as [|c2 [|? ?]]; try discriminate. destruct (c2 =? ch_m)%N; [|discriminate]. intros [= <-]. exact S.
    + destruct (c =? ch_m)%N; [|discriminate]. destruct r2; [|discriminate]. intros [= <-]. exact S.
Qed.

Lemma dur_core sgc h mi d : (sgc = 0%N \/ sgc = ch_minus \/ sgc = ch_plus) -> 0 <= h -> 0 <= mi ->
  new_duration_fmt ((if (sgc =? ch_minus)%N then -1 else 1) * h) ((if (sgc =? ch_minus)%N then -1 else 1) * mi) (sgc =? ch_plus)%N
    (if (h =? 0) && (mi =? 0) && negb (sgc =? 0)%N then (if (sgc =? ch_minus)%N then -1 else 1) else 0) = Ok d ->
  fits_int64 (d_mins d) = true /\ duration_flags_ok d = true.
Proof.
  intros Hs Hh Hm. unfold new_duration_fmt.
  destruct (mul64 _ 60) as [hm|] eqn:Mu; [|discriminate]. destruct (add64 hm _) as [t|] eqn:Ad; [|discriminate].
  intros [= <-]. apply mul64_some in Mu. apply add64_some_ok in Ad as [-> Hok]. subst hm.
  unfold fits_int64, duration_flags_ok. cbn [d_mins d_plus d_zsign]. unfold sm_ok, sm_min, max_int64 in Hok.
  split; [lia|].
  destruct Hs as [-> |[-> | ->]];
    repeat match goal with |- context [(?a =? ?b)%N] => let v := eval vm_compute in (a =? b)%N in change (a =? b)%N with v end;
    repeat match type of Hok with context [(?a =? ?b)%N] => let v := eval vm_compute in (a =? b)%N in change (a =? b)%N with v in Hok end;
    cbn [negb andb]; destruct (h =? 0) eqn:H0; destruct (mi =? 0) eqn:M0; cbn [andb];
    match goal with |- (if ?c then _ else _) = true => destruct c eqn:E end; try reflexivity; try lia;
    match goal with |- context [if ?c then _ else _] => destruct c eqn:E2 end; try reflexivity; lia.
Qed.

Theorem parse_duration_ok s d : parse_duration s = Ok d -> fits_int64 (d_mins d) = true /\ duration_flags_ok d = true.
Proof.
  unfold parse_duration. destruct (match_duration s) as [m|] eqn:M; [|discriminate].
  destruct (match_duration_digits s m M) as [Dh Dm]. pose proof (match_duration_sign s m M) as Hs. cbv zeta.
  assert (G : forall hs ms, forallb is_digit hs = true -> forallb is_digit ms = true ->
    match (match hs with [] => Some 0 | _ => atoi_digits hs end) with
    | None => Crash CAtoiRange
    | Some h =>
      match (match ms with [] => Some 0 | _ => atoi_digits ms end) with
      | None => Crash CAtoiRange
      | Some mi =>
        if (match hs with [] => false | _ => true end) && (60 <=? mi) then Err EUnrepresentableDuration
        else new_duration_fmt ((if (dm_sign m =? ch_minus)%N then -1 else 1) * h) ((if (dm_sign m =? ch_minus)%N then -1 else 1) * mi) (dm_sign m =? ch_plus)%N
               (if (h =? 0) && (mi =? 0) && negb (dm_sign m =? 0)%N then (if (dm_sign m =? ch_minus)%N then -1 else 1) else 0)
      end
    end = Ok d -> fits_int64 (d_mins d) = true /\ duration_flags_ok d = true).
  { intros hs ms Hhs Hms H.
    destruct (match hs with [] => Some 0 | _ => atoi_digits hs end) as [h|] eqn:Ah; [|discriminate].
    destruct (match ms with [] => Some 0 | _ => atoi_digits ms end) as [mi|] eqn:Am; [|discriminate].
    destruct (_ && _); [discriminate|].
    exact (dur_core _ h mi d Hs (atoi_opt_nonneg hs h Hhs Ah) (atoi_opt_nonneg ms mi Hms Am) H). }
  destruct (dm_h m) as [|hc hr] eqn:Eh; destruct (dm_m m) as [|mc mr] eqn:Em; [discriminate| | |].
  - exact (G [] (mc :: mr) eq_refl Dm).
  - exact (G (hc :: hr) [] Dh eq_refl).
  - exact (G (hc :: hr) (mc :: mr) Dh Dm).
Qed.

(* ---------------------------------------------------------------- lines the parser stores *)

Lemma rune_ok_text cs : Forall rune_ok cs -> text_ok cs = true /\ utf8_decode (str cs) = cs /\ bytes_line_ok (str cs) = true.
Proof.
  intros H. assert (T : text_ok cs = true) by (apply text_ok_runes; exact H).
  assert (D : utf8_decode (str cs) = cs) by (unfold str; apply utf8_decode_encode; eapply Forall_impl; [|exact H]; intros r [Hr _]; exact Hr).
  split; [exact T|]. split; [exact D|]. unfold bytes_line_ok. rewrite D, T. unfold str. rewrite (proj2 (bytes_eqb_eq _ _) eq_refl). reflexivity.
Qed.

Definition sum_line (s : bytes) : bool := bytes_line_ok s && summary_line_ok (utf8_decode s).
Definition more_line (s : bytes) : bool := bytes_line_ok s && negb (all_blank (utf8_decode s)).

Lemma parse_summary_lines_spec_ok : forall ls ln acc errs summary errs' style rest1 ln1,
  parse_summary_lines ln ls acc errs = (summary, errs', style, rest1, ln1) ->
  Forall lineP ls -> forallb sum_line acc = true ->
  forallb sum_line summary = true /\ Forall lineP rest1 /\ (errs' = [] -> errs = []).
Proof.
  induction ls as [|l rest IH]; intros ln acc errs summary errs' style rest1 ln1 H Hls Hacc; cbn [parse_summary_lines] in H.
  - injection H as <- <- <- <- <-. auto.
  - inversion Hls as [|? ? Hl Hrest]; subst.
    destruct (find_indentation (l_text l)).
    + injection H as <- <- <- <- <-. auto.
    + pose proof (line_runes_ok l Hl) as Hr. destruct (utf8_decode (l_text l)) as [|c cs] eqn:Ecs.
      * apply IH in H; [|exact Hrest|reflexivity]. destruct H as (H1 & H2 & H3). repeat split; try assumption.
        intros E. apply H3 in E. destruct errs; discriminate E.
      * destruct (is_zs c || (c =? 9)%N) eqn:Eb.
        -- apply IH in H; [|exact Hrest|reflexivity]. destruct H as (H1 & H2 & H3). repeat split; try assumption.
           intros E. apply H3 in E. destruct errs; discriminate E.
        -- apply IH in H; [exact H|exact Hrest|]. rewrite forallb_app, Hacc. cbn [forallb andb]. rewrite andb_true_r.
           destruct (rune_ok_text (c :: cs) Hr) as (T & D & B). unfold sum_line. rewrite B, D. unfold summary_line_ok. rewrite T.
           rewrite blank_char_is_zs, Eb. reflexivity.
Qed.

Lemma parse_entry_summary_more_spec_ok style : forall ls ln acc acc' serr rest' ln',
  parse_entry_summary_more style ln ls acc = (acc', serr, rest', ln') ->
  Forall lineP ls ->
  forall f more, acc = f :: more -> forallb more_line more = true ->
  exists more', acc' = f :: more' /\ forallb more_line more' = true /\ Forall lineP rest'.
Proof.
  induction ls as [|l rest IH]; intros ln acc acc' serr rest' ln' H Hls f more Ea Hm; cbn [parse_entry_summary_more] in H.
  - injection H as <- <- <- <-. exists more. auto.
  - inversion Hls as [|? ? Hl Hrest]; subst.
    destruct (has_prefix (style ++ style) (l_text l)).
    + destruct (Nat.eqb _ 0 || all_blank_runes _) eqn:Eb.
      * injection H as <- <- <- <-. exists more. auto.
      * apply (IH _ _ _ _ _ _ H Hrest f (more ++ [str (skipn (2 * length style) (utf8_decode (l_text l)))])); [reflexivity|].
        rewrite forallb_app, Hm. cbn [forallb andb]. rewrite andb_true_r.
        apply orb_false_iff in Eb as [_ Eb]. rewrite all_blank_runes_eq in Eb.
        destruct (rune_ok_text _ (Forall_skipn _ (2 * length style) _ (line_runes_ok l Hl))) as (T & D & B).
        unfold more_line. rewrite B, D, Eb. reflexivity.
    + injection H as <- <- <- <-. exists more. auto.
Qed.

Lemma first_line_spec_ok cs pos : Forall rune_ok cs ->
  exists f, (if is_space_or_tab (peek cs pos) then [str (skipn (S pos) cs)] else [[]]) = [f] /\ bytes_line_ok f = true.
Proof.
  intros H. destruct (is_space_or_tab (peek cs pos)).
  - eexists. split; [reflexivity|]. exact (proj2 (proj2 (rune_ok_text _ (Forall_skipn _ (S pos) _ H)))).
  - exists []. split; reflexivity.
Qed.

(* ---------------------------------------------------------------- values the parser returns *)

Lemma parser_duration_ok s d : parser_duration s = Some d -> fits_int64 (d_mins d) = true /\ duration_flags_ok d = true.
Proof. unfold parser_duration. destruct (parse_duration s) as [d0| |] eqn:E; [|discriminate|discriminate]. intros [= <-]. exact (parse_duration_ok s d0 E). Qed.

Lemma parse_entry_value_spec_ok ln cs p0 :
  match parse_entry_value ln cs p0 with
  | EvDur d _ => value_ok (VDuration d) = true
  | EvRange r _ => value_ok (VRange r) = true
  | EvOpen o _ _ => value_ok (VOpen o) = true
  | EvErr _ => True
  end.
Proof.
  unfold parse_entry_value.
  destruct (peek_until is_space_or_tab cs p0) as [dur_cand ?].
  destruct (parser_duration (str dur_cand)) as [d|] eqn:Ed.
  { destruct (parser_duration_ok _ _ Ed) as [A B]. cbn [value_ok]. rewrite A, B. reflexivity. }
  destruct (peek_until is_dash_or_space cs p0) as [start_cand ?].
  destruct (Nat.eqb (length start_cand) 0); [exact I|].
  destruct (parse_time (str start_cand)) as [start| |] eqn:Es; try exact I.
  apply JsonView.parse_time_valid in Es. apply valid_time_ok in Es.
  destruct (negb _); [exact I|].
  destruct (peek cs _ =? ch_q)%N.
  - destruct (peek_until is_space_or_tab cs _) as [rep ?]. destruct (forallb _ rep); [exact Es|exact I].
  - destruct (peek_until is_space_or_tab cs _) as [end_cand ?].
    destruct (Nat.eqb (length end_cand) 0); [exact I|].
    destruct (parse_time (str end_cand)) as [e| |] eqn:Ee; try exact I.
    apply JsonView.parse_time_valid in Ee. apply valid_time_ok in Ee.
    unfold new_range. destruct (time_geb e start) eqn:G; [|exact I].
    cbn [value_ok r_start r_end]. rewrite Es, Ee. unfold time_geb in G. cbn [andb]. apply Z.leb_le. lia.
Qed.

(* ---------------------------------------------------------------- entries *)

Definition entries_inv (es : list entry) : Prop :=
  forallb Spec.entry_ok es = true /\ (length (filter is_open es) <= 1)%nat /\ (has_open_entry es = false -> filter is_open es = []).

Lemma entries_inv_snoc es e : entries_inv es -> Spec.entry_ok e = true -> (is_open e = true -> has_open_entry es = false) ->
  entries_inv (es ++ [e]).
Proof.
  intros (A & B & C) He Ho. unfold entries_inv. rewrite forallb_app, A. cbn [forallb]. rewrite He. split; [reflexivity|].
  rewrite filter_app. cbn [filter]. unfold has_open_entry. rewrite existsb_app. cbn [existsb].
  destruct (is_open e) eqn:E.
  - rewrite (C (Ho eq_refl)). cbn [app List.length]. split; [lia|]. intros H. cbn [orb] in H. rewrite orb_true_r in H. discriminate.
  - rewrite app_nil_r. split; [exact B|]. intros H. cbn [orb] in H. rewrite orb_false_r in H. apply C. exact H.
Qed.

Lemma parse_entries_spec_ok style : forall fuel ln ls es errs es' errs',
  parse_entries fuel style ln ls es errs = (es', errs') ->
  Forall lineP ls -> entries_inv es ->
  entries_inv es' /\ (errs' = [] -> errs = []).
Proof.
  induction fuel as [|k IH]; intros ln ls es errs es' errs' H Hls Hes; cbn [parse_entries] in H.
  - injection H as <- <-. auto.
  - destruct ls as [|l rest]; [injection H as <- <-; auto|].
    inversion Hls as [|? ? Hl Hrest]; subst.
    set (cs := utf8_decode (l_text l)) in *.
    assert (Hgrow : forall (x : list perr) e, x ++ [e] = [] -> False) by (intros x e E; destruct x; discriminate E).
    destruct (negb (has_prefix style (l_text l)) || is_space_or_tab (peek cs (length style))).
    { injection H as <- <-. split; [exact Hes|]. intros E. exfalso. exact (Hgrow _ _ E). }
    pose proof (parse_entry_value_spec_ok ln cs (length style)) as Hv.
    assert (Step : forall v pos,
              (let first := if is_space_or_tab (peek cs pos) then [str (skipn (S pos) cs)] else [[]] in
               let '(summary, serr, rest', ln') := parse_entry_summary_more style (S ln) rest first in
               match serr with
               | Some e => parse_entries k style ln' rest' es (errs ++ [e])
               | None => parse_entries k style ln' rest' (es ++ [{| e_value := v; e_summary := summary |}]) errs
               end) = (es', errs') ->
              value_ok v = true ->
              (is_open {| e_value := v; e_summary := [] |} = true -> has_open_entry es = false) ->
              entries_inv es' /\ (errs' = [] -> errs = [])).
    { intros v pos H' Hvok Hopen. cbv zeta in H'.
      destruct (first_line_spec_ok cs pos (line_runes_ok l Hl)) as (f & Ef & Bf). rewrite Ef in H'.
      destruct (parse_entry_summary_more style (S ln) rest [f]) as [[[summary serr] rest'] ln'] eqn:Em.
      destruct (parse_entry_summary_more_spec_ok style _ _ _ _ _ _ _ Em Hrest f [] eq_refl eq_refl) as (more' & -> & Hm' & Hr').
      destruct serr as [e|].
      - apply IH in H'; [|exact Hr'|exact Hes]. destruct H' as [H1 H2]. split; [exact H1|]. intros E. apply H2 in E. exfalso. exact (Hgrow _ _ E).
      - apply IH in H'; [exact H'|exact Hr'|].
        apply entries_inv_snoc; [exact Hes| |exact Hopen].
        unfold Spec.entry_ok. cbn [e_value e_summary]. rewrite Hvok, Bf. exact Hm'. }
    destruct (parse_entry_value ln cs (length style)) as [e|d pos|r pos|o sp pos] eqn:Ev.
    + apply IH in H; [|exact Hrest|exact Hes]. destruct H as [H1 H2]. split; [exact H1|]. intros E. apply H2 in E. exfalso. exact (Hgrow _ _ E).
    + apply (Step (VDuration d) pos H Hv). intros Ho; discriminate Ho.
    + apply (Step (VRange r) pos H Hv). intros Ho; discriminate Ho.
    + destruct (has_open_entry es) eqn:Eo.
      * (* a second open range: an error is recorded *)
        cbv zeta in H. destruct (first_line_spec_ok cs pos (line_runes_ok l Hl)) as (f & Ef & Bf). rewrite Ef in H.
        destruct (parse_entry_summary_more style (S ln) rest [f]) as [[[summary serr] rest'] ln'] eqn:Em.
        destruct (parse_entry_summary_more_spec_ok style _ _ _ _ _ _ _ Em Hrest f [] eq_refl eq_refl) as (more' & -> & Hm' & Hr').
        destruct serr as [e|]; apply IH in H; try exact Hr'; try exact Hes; destruct H as [H1 H2]; (split; [exact H1|]); intros E; apply H2 in E; exfalso; exact (Hgrow _ _ E).
      * apply (Step (VOpen o) pos H Hv). intros _. reflexivity.
Qed.

(* a should-total that comes out of [parse_duration] (the configuration's default, `create --should`) is within int64 *)
Theorem parse_duration_should_fits s d : parse_duration s = Ok d -> should_fits (Some (d_mins d)).
Proof.
  intros H. destruct (parse_duration_ok s d H) as [F _]. unfold fits_int64 in F. unfold should_fits, max_int64. lia.
Qed.

(* ---------------------------------------------------------------- records *)

Lemma parse_headline_should ln cs d should : parse_headline ln cs = HeadRec d should [] ->
  match should with Some m => fits_int64 m = true | None => True end.
Proof.
  unfold parse_headline. destruct (is_space_or_tab (peek cs 0)); [discriminate|].
  destruct (peek_until is_space_or_tab cs 0) as [date_text ?].
  destruct (parse_date (str date_text)) as [d0| |]; try discriminate.
  set (p := skip_while is_space_or_tab cs (length date_text)).
  destruct (peek cs p =? ch_lpar)%N.
  - destruct (peek_until (fun c => (c =? ch_rpar)%N) cs _) as [all_props has_close].
    destruct (negb has_close); [discriminate|]. destruct (Nat.eqb (length all_props) 0); [discriminate|].
    destruct (peek_until (fun c => (c =? ch_excl)%N) cs _) as [st_text has_excl].
    destruct (negb has_excl); [discriminate|].
    destruct (parser_duration (str st_text)) as [dur|] eqn:Ed; [|discriminate].
    destruct (negb _); [discriminate|].
    destruct (_ <? _); [discriminate|]. intros [= _ <-]. exact (proj1 (parser_duration_ok _ _ Ed)).
  - destruct (_ <? _); [discriminate|]. intros [= _ <-]. exact I.
Qed.

Lemma parse_record_spec_ok b r : parse_record b = Ok (inl r) -> Forall lineP (b_lines b) -> Spec.record_ok r = true.
Proof.
  unfold parse_record. destruct (significant_lines b) as [[sig head] tail] eqn:Es. intros H Hb.
  pose proof (significant_lines_sub b sig head tail Es Hb) as Hsig.
  destruct sig as [|hl rest]; [discriminate|]. inversion Hsig as [|? ? Hhl Hrest]; subst.
  assert (Inv0 : entries_inv []) by (split; [reflexivity|split; [cbn; lia|reflexivity]]).
  destruct (parse_headline head (utf8_decode (l_text hl))) as [e|d should errs0] eqn:Eh.
  - destruct (parse_summary_lines (S head) rest [] [e]) as [[[[summary errs1] style] rest1] ln1] eqn:Esl.
    apply parse_summary_lines_spec_ok in Esl as (_ & Hr1 & He1); [|exact Hrest|reflexivity].
    destruct style as [st|].
    + destruct (parse_entries (length rest1) st ln1 rest1 [] errs1) as [entries errs2] eqn:Epe.
      apply parse_entries_spec_ok in Epe as (_ & He2); [|exact Hr1|exact Inv0].
      destruct errs2; [|discriminate]. specialize (He2 eq_refl). specialize (He1 He2). discriminate.
    + destruct errs1; [|discriminate]. specialize (He1 eq_refl). discriminate.
  - destruct (parse_summary_lines (S head) rest [] errs0) as [[[[summary errs1] style] rest1] ln1] eqn:Esl.
    apply parse_summary_lines_spec_ok in Esl as (Hsum & Hr1 & He1); [|exact Hrest|reflexivity].
    assert (Fin : forall entries, errs0 = [] -> entries_inv entries ->
              Spec.record_ok {| rec_date := d; rec_should := should; rec_summary := summary; rec_entries := entries |} = true).
    { intros entries E0 (A & B & _). subst errs0. unfold Spec.record_ok. cbn [rec_date rec_summary rec_entries].
      rewrite (parse_headline_date _ _ _ _ Eh), A. pose proof (parse_headline_should _ _ _ _ Eh) as Hsh.
      assert (Hf : fits_int64 (should_minutes {| rec_date := d; rec_should := should; rec_summary := summary; rec_entries := entries |}) = true).
      { unfold should_minutes. cbn [rec_should]. destruct should; [exact Hsh|reflexivity]. }
      rewrite Hf. fold (sum_line). change (forallb (fun s => bytes_line_ok s && summary_line_ok (utf8_decode s)) summary) with (forallb sum_line summary).
      rewrite Hsum. cbn [andb]. apply Nat.leb_le. exact B. }
    destruct style as [st|].
    + destruct (parse_entries (length rest1) st ln1 rest1 [] errs1) as [entries errs2] eqn:Epe.
      apply parse_entries_spec_ok in Epe as (Hent & He2); [|exact Hr1|exact Inv0].
      destruct errs2; [|discriminate]. specialize (He2 eq_refl). specialize (He1 He2).
      injection H as <-. exact (Fin entries He1 Hent).
    + destruct errs1; [|discriminate]. specialize (He1 eq_refl). injection H as <-. exact (Fin [] He1 Inv0).
Qed.

Lemma parse_blocks_spec_ok : forall bs rs es rs' es', parse_blocks bs rs es = Ok (rs', es') ->
  Forall (fun b => Forall lineP (b_lines b)) bs -> forallb Spec.record_ok rs = true -> forallb Spec.record_ok rs' = true.
Proof.
  induction bs as [|b bs IH]; intros rs es rs' es' H Hbs Hrs; cbn [parse_blocks] in H.
  - injection H as <- <-. exact Hrs.
  - inversion Hbs as [|? ? Hb Hrest]; subst.
    destruct (parse_record b) as [[r|errs]| |] eqn:Er; try discriminate.
    + apply IH in H; [exact H|exact Hrest|]. rewrite forallb_app, Hrs. cbn [forallb]. rewrite (parse_record_spec_ok b r Er Hb). reflexivity.
    + apply IH in H; [exact H|exact Hrest|exact Hrs].
Qed.

(* the records of an accepted file are well-formed *)
Theorem parsed_records_wf_records s rs bs : parse_text s = Ok (Parsed rs bs) -> wf_records rs.
Proof.
  unfold parse_text, parse_lines_blocks. destruct (parse_blocks (blocks_of s) [] []) as [[rs0 es0]| |] eqn:E; try discriminate.
  destruct es0; [|discriminate]. intros [= <- _].
  exact (parse_blocks_spec_ok _ _ _ _ _ E (blocks_lines_ok s) eq_refl).
Qed.

(* ---------------------------------------------------------------- the canonical form of an accepted file *)

Lemma doc_lines_terminated d : do_final_newline d = true -> last_line_safe (doc_lines d).
Proof.
  intros Hf. apply last_line_safe_terminated. intros pre l E. unfold doc_lines in E. rewrite Hf in E.
  assert (G : forall crlf ts i pre l, attach crlf true i ts = pre ++ [l] -> l_ending l <> []).
  { clear. intros crlf ts. induction ts as [|t ts IH]; intros i pre l E; [destruct pre; discriminate|].
    destruct ts as [|t2 ts'].
    - cbn [attach] in E. destruct pre as [|x pre]; [injection E as <-; cbn [l_ending]; destruct (crlf i); discriminate|].
      injection E as _ E. destruct pre; discriminate.
    - change (attach crlf true i (t :: t2 :: ts')) with ({| l_text := utf8_encode t; l_ending := ending (crlf i) |} :: attach crlf true (S i) (t2 :: ts')) in E.
      destruct pre as [|x pre].
      + injection E as _ E. destruct ts'; discriminate E.
      + injection E as _ E. exact (IH _ _ _ E). }
  exact (G _ _ _ _ _ E).
Qed.

(* every accepted file is equivalent to a conforming one: the canonical print of its records conforms to the
   specification, and reads back as the same records (up to [normalise]: a should-total of 0 is printed as absent) *)
Theorem accepted_equivalent f rs bs : parse_text f = Ok (Parsed rs bs) -> no_trailing_cr rs = true ->
  spec_state (print_records rs) (canon_records rs) /\
  denote_recs (canon_records rs) = normalise rs /\
  exists bs', parse_text (print_records rs) = Ok (Parsed (normalise rs) bs').
Proof.
  intros H Hcr. pose proof (parsed_records_wf_records f rs bs H) as W.
  pose proof (wf_canon rs W Hcr) as Wc.
  rewrite (print_is_canonical_render rs W).
  destruct (conforms_doc (canon rs) Wc) as (lead & gs & C).
  assert (S : spec_state (render (canon rs)) (canon_records rs)).
  { exact (spec_state_of_conforms _ _ _ _ C (doc_lines_terminated (canon rs) eq_refl)). }
  split; [exact S|]. pose proof (denote_canon rs W) as D. unfold denote in D. cbn [canon do_records] in D.
  split; [exact D|]. destruct S as (lead' & gs' & C' & _). eexists. rewrite (spec_file_parse _ _ _ _ C'). unfold denote_recs. rewrite D. reflexivity.
Qed.
