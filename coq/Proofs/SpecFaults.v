(* SpecFaults — layer L4 of C01, block level, with the position of the first error (for C10 first_error_at_fault):
   for every fault class, the lines of the faulted record make any block that holds them fail, and the FIRST error of
   the block sits on the faulted line. *)
From Klog Require Import Base.Prelude Base.Utf8 Model.Calendar Model.Values Model.Record Model.Lines Model.Parser
  Proofs.Sweep Proofs.Values Proofs.TagsUtf8 Spec.Spec Spec.SpecInject Proofs.SpecValues Proofs.SpecEntry Proofs.SpecRecord Proofs.SpecDoc
  Proofs.SpecReject.
From Coq Require Import ZifyBool.
Open Scope Z_scope.

(* ================= the first error of a block ================= *)

Definition first_err_at (errs : list perr) (ln : nat) : Prop := exists e rest, errs = e :: rest /\ pe_line e = ln.

Lemma first_err_extends a b ln : extends a b -> first_err_at a ln -> first_err_at b ln.
Proof. intros [x ->] (e & rest & -> & H). exists e, (rest ++ x). split; [reflexivity|exact H]. Qed.

Lemma first_err_single e : first_err_at [e] (pe_line e).
Proof. exists e, []. split; reflexivity. Qed.

Lemma first_err_nonempty errs ln : first_err_at errs ln -> errs <> [].
Proof. intros (e & rest & -> & _). discriminate. Qed.

Definition block_fails_at (b : block) (ln : nat) : Prop := exists errs, parse_record b = Ok (inr errs) /\ first_err_at errs ln.

Lemma block_fails_at_fails b ln : block_fails_at b ln -> block_fails b.
Proof. intros (errs & P & F). exists errs. split; [exact P|apply (first_err_nonempty _ _ F)]. Qed.

(* the error list parse_record ends up with *)
Definition record_errs (head : nat) (hl : line) (rest : list line) : list perr :=
  let errs0 := headline_errs (parse_headline head (utf8_decode (l_text hl))) in
  let '(summary, errs1, style, rest1, ln1) := parse_summary_lines (S head) rest [] errs0 in
  match style with Some st => snd (parse_entries (length rest1) st ln1 rest1 [] errs1) | None => errs1 end.

Lemma record_errs_at b hl rest head tail ln : significant_lines b = (hl :: rest, head, tail) ->
  first_err_at (record_errs head hl rest) ln -> block_fails_at b ln.
Proof.
  intros Hsig F. pose proof (parse_record_shape b hl rest head tail Hsig) as H. cbv zeta in H.
  unfold record_errs in F.
  destruct (parse_summary_lines (S head) rest [] _) as [[[[summary errs1] style] rest1] ln1].
  destruct H as [[E _]|[_ H]]; [exfalso; apply (first_err_nonempty _ _ F); exact E|].
  eexists; split; [exact H|exact F].
Qed.

Lemma headline_err_at head hl rest ln :
  first_err_at (headline_errs (parse_headline head (utf8_decode (l_text hl)))) ln -> first_err_at (record_errs head hl rest) ln.
Proof.
  intros F. unfold record_errs.
  pose proof (parse_summary_lines_extends rest (S head) [] (headline_errs (parse_headline head (utf8_decode (l_text hl))))) as X1.
  destruct (parse_summary_lines (S head) rest [] _) as [[[[summary errs1] style] rest1] ln1]. cbn [fst snd] in X1.
  pose proof (first_err_extends _ _ ln X1 F) as F1.
  destruct style as [st|]; [|exact F1]. apply (first_err_extends errs1); [apply parse_entries_extends|exact F1].
Qed.

Lemma summary_err_at head hl rest ln :
  first_err_at (snd (fst (fst (fst (parse_summary_lines (S head) rest [] (headline_errs (parse_headline head (utf8_decode (l_text hl))))))))) ln ->
  first_err_at (record_errs head hl rest) ln.
Proof.
  intros F. unfold record_errs.
  destruct (parse_summary_lines (S head) rest [] _) as [[[[summary errs1] style] rest1] ln1]. cbn [fst snd] in F.
  destruct style as [st|]; [|exact F]. apply (first_err_extends errs1); [apply parse_entries_extends|exact F].
Qed.

Definition sig_fails_at (ts : list text) (j : nat) : Prop :=
  forall b head sig tail, b_lines b = head ++ sig ++ tail ->
  forallb is_blank head = true -> forallb is_blank tail = true ->
  map l_text sig = map utf8_encode ts -> block_fails_at b (length head + j).

Lemma sig_fails_at_fails ts j : sig_fails_at ts j -> sig_fails ts.
Proof. intros H b head sig tail Hb Hh Ht M. apply (block_fails_at_fails _ _ (H b head sig tail Hb Hh Ht M)). Qed.

(* every error parse_entry_value reports is on the line it was given *)
Lemma parse_entry_value_err_line ln cs p e : parse_entry_value ln cs p = EvErr e -> pe_line e = ln.
Proof.
  unfold parse_entry_value.
  destruct (peek_until is_space_or_tab cs p) as [dc ?]. destruct (parser_duration (str dc)); [discriminate|].
  destruct (peek_until is_dash_or_space cs p) as [sc ?].
  destruct (Nat.eqb (length sc) 0); [intros [= <-]; reflexivity|].
  destruct (parse_time (str sc)); [|intros [= <-]; reflexivity|intros [= <-]; reflexivity].
  destruct (negb (peek cs (skip_while is_space cs (p + length sc)) =? ch_minus)%N); [intros [= <-]; reflexivity|].
  destruct (peek cs (skip_while is_space cs (S (skip_while is_space cs (p + length sc)))) =? ch_q)%N.
  - destruct (peek_until is_space_or_tab cs _) as [rep ?]. destruct (forallb _ rep); [discriminate|intros [= <-]; reflexivity].
  - destruct (peek_until is_space_or_tab cs _) as [ec ?].
    destruct (Nat.eqb (length ec) 0); [intros [= <-]; reflexivity|].
    destruct (parse_time (str ec)); [|intros [= <-]; reflexivity|intros [= <-]; reflexivity].
    destruct (new_range _ _ _); [discriminate|intros [= <-]; reflexivity|intros [= <-]; reflexivity].
Qed.

(* ================= line 0: not a headline ================= *)

Lemma bad_date_at dtxt rest others :
  text_ok (dtxt ++ rest) = true ->
  forallb (fun t => negb (blank_text t)) ((dtxt ++ rest) :: others) = true ->
  match dtxt with c :: _ => is_space_or_tab c = false | [] => False end ->
  forallb (fun c => negb (is_space_or_tab c)) dtxt = true ->
  match rest with c :: _ => is_space_or_tab c = true | [] => True end ->
  (forall d, parse_date (utf8_encode dtxt) <> Ok d) ->
  sig_fails_at ((dtxt ++ rest) :: others) 0.
Proof.
  intros Tok Nb Hd0 Hd Hr Hp b head sig tail Hb Hh Ht M.
  destruct (sig_significant b head sig tail _ _ Hb Hh Ht M Nb) as (hl & rs & -> & Mh & Mr & Sg).
  apply (record_errs_at b hl rs _ _ _ Sg). apply headline_err_at. rewrite Mh, (decode_encode _ Tok).
  unfold parse_headline.
  destruct dtxt as [|c0 r0]; [contradiction|].
  rewrite (peek_at_cons ((c0 :: r0) ++ rest) 0 [] c0 (r0 ++ rest) eq_refl eq_refl), Hd0.
  rewrite (peek_until_at is_space_or_tab ((c0 :: r0) ++ rest) 0 [] (c0 :: r0) rest eq_refl eq_refl Hd Hr).
  cbv iota beta. unfold str. rewrite Nat.add_0_r.
  destruct (parse_date (utf8_encode (c0 :: r0))) as [d| |]; [exfalso; exact (Hp d eq_refl)| |]; cbn [headline_errs]; apply first_err_single.
Qed.

(* a block whose first line is indented (a line torn off its record by a blank line) *)
Lemma indented_first_at c t0 others : text_ok (c :: t0) = true -> is_space_or_tab c = true ->
  forallb (fun t => negb (blank_text t)) ((c :: t0) :: others) = true ->
  sig_fails_at ((c :: t0) :: others) 0.
Proof.
  intros Tok Hc Nb b head sig tail Hb Hh Ht M.
  destruct (sig_significant b head sig tail _ _ Hb Hh Ht M Nb) as (hl & rs & -> & Mh & Mr & Sg).
  apply (record_errs_at b hl rs _ _ _ Sg). apply headline_err_at. rewrite Mh, (decode_encode _ Tok).
  unfold parse_headline. change (peek (c :: t0) 0) with c. rewrite Hc. cbn [headline_errs]. rewrite Nat.add_0_r. apply first_err_single.
Qed.

(* ================= (a) text after the headline ================= *)

Section HeadlineText.
  Variables (ln : nat) (r : s_record) (c : N) (x : text).
  Hypothesis Wd : wf_date (sr_date r) = true.
  Hypothesis Ws : match sr_should r with Some (_, d) => wf_dur d = true | None => True end.
  Hypothesis Wt : blank_text (sr_trail r) = true.
  Hypothesis Hc : is_space_or_tab c = false.
  (* without a should-total the text is separated from the date by a blank and does not open a parenthesis *)
  Hypothesis Hsep : match sr_should r with Some _ => True | None => sr_trail r <> [] /\ (c =? ch_lpar)%N = false end.

  Lemma parse_headline_text :
    exists d s e, parse_headline ln (headline_text r ++ c :: x) = HeadRec d s [e] /\ pe_line e = ln.
  Proof.
    pose proof (render_date_chars _ Wd) as Dc.
    assert (Dnb : forallb (fun c => negb (is_space_or_tab c)) (render_date (sr_date r)) = true).
    { revert Dc. apply forallb_impl. intros c0. unfold date_char, is_digit, is_space_or_tab. lia. }
    assert (Das : ascii (render_date (sr_date r)) = true).
    { revert Dc. apply forallb_impl. intros c0. unfold date_char, is_digit. lia. }
    assert (Dhead : exists c0 r0, render_date (sr_date r) = c0 :: r0 /\ is_space_or_tab c0 = false).
    { unfold render_date, four_digits. cbn [app]. eexists; eexists; split; [reflexivity|].
      unfold wf_date in Wd. assert (0 <= sd_year (sr_date r) / 1000 <= 9) by (Z.div_mod_to_equations; lia).
      unfold is_space_or_tab, dchar. lia. }
    pose proof (parse_render_date _ Wd) as Pd.
    remember (render_date (sr_date r)) as rd eqn:Erd.
    remember (sr_trail r) as trail eqn:Etr.
    unfold headline_text. rewrite <- Erd, <- Etr.
    destruct (sr_should r) as [[extra d]|] eqn:Esh.
    - pose proof Ws as Wdur. unfold wf_dur in Wdur. apply andb_true_iff in Wdur as [Sh _].
      pose proof (render_dur_dur_chars d Sh) as Uc.
      pose proof (render_dur_ascii d Sh) as Uas.
      pose proof (render_dur_nonempty d Sh) as Une.
      pose proof (parse_render_dur d Ws) as Pu.
      remember (render_dur d) as ru eqn:Eru.
      assert (Uhead : forall y, match ru ++ y with c1 :: _ => is_space_or_tab c1 = false | [] => True end).
      { intros y. destruct ru as [|c1 t]; [congruence|].
        cbn [app forallb] in *. apply andb_true_iff in Uc as [H _]. unfold dur_char, is_digit in H. unfold is_space_or_tab. lia. }
      assert (U41 : forallb not_rpar (ru ++ [33%N]) = true).
      { rewrite forallb_app. apply andb_true_iff; split; [|reflexivity].
        revert Uc. apply forallb_impl. intros c1. unfold dur_char, is_digit, not_rpar, ch_rpar. lia. }
      assert (U33 : forallb not_excl ru = true).
      { revert Uc. apply forallb_impl. intros c1. unfold dur_char, is_digit, not_excl, ch_excl. lia. }
      remember (repeat 32%N (S extra)) as sp eqn:Esp.
      assert (Hsp : forallb is_space_or_tab sp = true) by (subst sp; apply ascii_repeat_space_blank).
      assert (Hsp0 : exists s', sp = 32%N :: s') by (subst sp; eexists; reflexivity).
      unfold spaces. rewrite <- Esp. clear Esp Erd Etr Eru.
      remember ((rd ++ (sp ++ [40%N] ++ ru ++ [33; 41]%N) ++ trail) ++ c :: x) as cs eqn:Ecs.
      unfold parse_headline. cbv zeta.
      destruct Dhead as (c0 & r0 & Erd & Hc0).
      rewrite (peek_at_cons cs 0 [] c0 (r0 ++ (sp ++ [40%N] ++ ru ++ [33; 41]%N) ++ trail ++ c :: x) ltac:(rewrite Ecs, Erd; app_eq) eq_refl).
      rewrite Hc0. destruct Hsp0 as [s' Es'].
      rewrite (peek_until_at_cons is_space_or_tab cs 0 [] rd 32%N (s' ++ [40%N] ++ ru ++ [33; 41]%N ++ trail ++ c :: x)
                 ltac:(rewrite Ecs, Es'; app_eq) eq_refl Dnb eq_refl).
      cbv iota beta. unfold str at 1. rewrite (utf8_encode_ascii _ Das), Pd.
      rewrite (skip_while_all_at is_space_or_tab cs (length rd) rd sp (40%N :: ru ++ [33; 41]%N ++ trail ++ c :: x)
                 ltac:(rewrite Ecs; app_eq) eq_refl Hsp eq_refl).
      rewrite (peek_at_cons cs (length rd + length sp) (rd ++ sp) 40%N (ru ++ [33; 41]%N ++ trail ++ c :: x)
                 ltac:(rewrite Ecs; app_eq) ltac:(len_eq')).
      change (40 =? ch_lpar)%N with true. cbv iota.
      rewrite (skip_while_stay is_space_or_tab cs (S (length rd + length sp)) (rd ++ sp ++ [40%N]) (ru ++ [33; 41]%N ++ trail ++ c :: x)
                 ltac:(rewrite Ecs; app_eq) ltac:(len_eq') (Uhead _)).
      rewrite (peek_until_at_cons (fun c => (c =? ch_rpar)%N) cs (S (length rd + length sp)) (rd ++ sp ++ [40%N]) (ru ++ [33%N]) 41%N (trail ++ c :: x)
                 ltac:(rewrite Ecs; app_eq) ltac:(len_eq') U41 eq_refl).
      cbv iota beta. change (negb true) with false. cbv iota.
      replace (Nat.eqb (length (ru ++ [33%N])) 0) with false by (rewrite app_length; cbn [length]; symmetry; apply Nat.eqb_neq; clear; lia).
      cbv iota.
      rewrite (peek_until_at_cons (fun c => (c =? ch_excl)%N) cs (S (length rd + length sp)) (rd ++ sp ++ [40%N]) ru 33%N (41%N :: trail ++ c :: x)
                 ltac:(rewrite Ecs; app_eq) ltac:(len_eq') U33 eq_refl).
      cbv iota beta. change (negb true) with false. cbv iota.
      unfold parser_duration, str. rewrite (utf8_encode_ascii _ Uas), Pu.
      rewrite (skip_while_stay is_space_or_tab cs (S (length rd + length sp) + length ru + 1) (rd ++ sp ++ [40%N] ++ ru ++ [33%N]) (41%N :: trail ++ c :: x)
                 ltac:(rewrite Ecs; app_eq) ltac:(len_eq') eq_refl).
      rewrite (peek_at_cons cs (S (length rd + length sp) + length ru + 1) (rd ++ sp ++ [40%N] ++ ru ++ [33%N]) 41%N (trail ++ c :: x)
                 ltac:(rewrite Ecs; app_eq) ltac:(len_eq')).
      change (41 =? ch_rpar)%N with true. change (negb true) with false. cbv iota.
      rewrite (skip_while_all_at is_space_or_tab cs (S (S (length rd + length sp) + length ru + 1)) (rd ++ sp ++ [40%N] ++ ru ++ [33; 41]%N) trail (c :: x)
                 ltac:(rewrite Ecs; app_eq) ltac:(len_eq') Wt Hc).
      replace (Z.of_nat (S (S (length rd + length sp) + length ru + 1) + length trail) <? zlen cs) with true.
      + eexists; eexists; eexists; split; reflexivity.
      + symmetry. apply Z.ltb_lt. unfold zlen. rewrite Ecs. apply Nat2Z.inj_lt. len_eq'.
    - destruct Hsep as [Hne Hpar]. clear Etr.
      assert (Thead : exists b0 t0, trail = b0 :: t0 /\ is_space_or_tab b0 = true).
      { destruct trail as [|b0 t0]; [congruence|]. cbn [blank_text forallb] in Wt. apply andb_true_iff in Wt as [H _]. eexists; eexists; split; [reflexivity|exact H]. }
      remember ((rd ++ [] ++ trail) ++ c :: x) as cs eqn:Ecs. cbn [app] in Ecs.
      unfold parse_headline. cbv zeta.
      destruct Dhead as (c0 & r0 & Erd' & Hc0).
      rewrite (peek_at_cons cs 0 [] c0 (r0 ++ trail ++ c :: x) ltac:(rewrite Ecs, Erd'; app_eq) eq_refl).
      rewrite Hc0. destruct Thead as (b0 & t0 & Etrail & Hb0).
      rewrite (peek_until_at_cons is_space_or_tab cs 0 [] rd b0 (t0 ++ c :: x) ltac:(rewrite Ecs, Etrail; app_eq) eq_refl Dnb Hb0).
      cbv iota beta. unfold str at 1. rewrite (utf8_encode_ascii _ Das), Pd.
      rewrite (skip_while_all_at is_space_or_tab cs (length rd) rd trail (c :: x) ltac:(rewrite Ecs; app_eq) eq_refl Wt Hc).
      rewrite (peek_at_cons cs (length rd + length trail) (rd ++ trail) c x ltac:(rewrite Ecs; app_eq) ltac:(len_eq')).
      rewrite Hpar. cbv iota.
      rewrite (skip_while_stay is_space_or_tab cs (length rd + length trail) (rd ++ trail) (c :: x) ltac:(rewrite Ecs; app_eq) ltac:(len_eq') Hc).
      replace (Z.of_nat (length rd + length trail) <? zlen cs) with true.
      + eexists; eexists; eexists; split; reflexivity.
      + symmetry. apply Z.ltb_lt. unfold zlen. rewrite Ecs. apply Nat2Z.inj_lt. len_eq'.
  Qed.
End HeadlineText.

Lemma headline_text_at r c x others : wf_record r = true -> is_space_or_tab c = false -> text_ok (c :: x) = true ->
  match sr_should r with Some _ => True | None => sr_trail r <> [] /\ (c =? ch_lpar)%N = false end ->
  forallb (fun t => negb (blank_text t)) ((headline_text r ++ c :: x) :: others) = true ->
  sig_fails_at ((headline_text r ++ c :: x) :: others) 0.
Proof.
  intros W Hc Tx Hsep Nb b head sig tail Hb Hh Ht M.
  destruct (wf_record_inv r W) as (Wd & Ws & Wt & _).
  destruct (sig_significant b head sig tail _ _ Hb Hh Ht M Nb) as (hl & rs & -> & Mh & Mr & Sg).
  apply (record_errs_at b hl rs _ _ _ Sg). apply headline_err_at.
  rewrite Mh, decode_encode by (rewrite text_ok_app, (headline_text_ok r W), Tx; reflexivity).
  destruct (parse_headline_text (length head) r c x Wd Ws Wt Hc Hsep) as (d & s & e & -> & He).
  cbn [headline_errs]. rewrite Nat.add_0_r, <- He. apply first_err_single.
Qed.

(* ================= a line of the summary section that starts with a blank character ================= *)

(* s1: the (good) summary lines before it. Covers a replaced summary line, and a first indented line whose indentation
   is no style at all (one space, a Zs character other than space) *)
Lemma blank_start_at r s1 t others : wf_record r = true -> forallb summary_line_ok s1 = true ->
  text_ok t = true ->
  match t with c :: _ => blank_char c = true | [] => False end ->
  find_indentation (utf8_encode t) = None ->
  forallb (fun t => negb (blank_text t)) (headline_text r :: s1 ++ t :: others) = true ->
  sig_fails_at (headline_text r :: s1 ++ t :: others) (S (length s1)).
Proof.
  intros W H11 Tok Hc Hfi Nb b head sig tail Hb Hh Ht M.
  destruct (sig_significant b head sig tail _ _ Hb Hh Ht M Nb) as (hl & rs & -> & Mh & Mr & Sg).
  destruct (wf_record_inv r W) as (W' & H3 & H2 & _).
  rewrite map_app in Mr. apply map_eq_app in Mr as (ls_s & ls_b & -> & Ms & Mb).
  cbn [map] in Mb. apply map_eq_cons in Mb as (lb & ls_x & -> & Mlb & Mx).
  apply (record_errs_at b hl _ _ _ _ Sg). apply summary_err_at.
  rewrite Mh, (decode_encode _ (headline_text_ok r W)), (parse_headline_spec (length head) r W' H3 H2). cbn [headline_errs].
  rewrite (parse_summary_lines_spec s1 H11 ls_s (S (length head)) (lb :: ls_x) [] Ms).
  rewrite Mlb, Hfi. cbn [parse_summary_lines]. rewrite Mlb, Hfi, (decode_encode _ Tok).
  destruct t as [|c t']; [contradiction|]. rewrite <- blank_char_is_zs, Hc.
  match goal with |- first_err_at (snd (fst (fst (fst (parse_summary_lines _ _ _ ([] ++ [?e])))))) _ =>
    apply (first_err_extends ([] ++ [e])); [apply parse_summary_lines_extends|] end.
  cbn [app]. replace (length head + S (length s1))%nat with (S (length head) + length s1)%nat by lia. apply first_err_single.
Qed.

(* ================= the first indented line: an indentation style followed by a further blank ================= *)

Lemma first_indent_at r st t others : wf_record r = true -> text_ok t = true ->
  find_indentation (utf8_encode t) = Some st -> is_space_or_tab (peek t (length st)) = true ->
  forallb (fun t => negb (blank_text t)) (headline_text r :: sr_summary r ++ t :: others) = true ->
  sig_fails_at (headline_text r :: sr_summary r ++ t :: others) (S (length (sr_summary r))).
Proof.
  intros W Tok Hfi Hbl Nb b head sig tail Hb Hh Ht M.
  destruct (sig_significant b head sig tail _ _ Hb Hh Ht M Nb) as (hl & rs & -> & Mh & Mr & Sg).
  destruct (wf_record_inv r W) as (W' & H3 & H2 & H1 & _).
  rewrite map_app in Mr. apply map_eq_app in Mr as (ls_s & ls_b & -> & Ms & Mb).
  cbn [map] in Mb. apply map_eq_cons in Mb as (lb & ls_x & -> & Mlb & Mx).
  apply (record_errs_at b hl _ _ _ _ Sg). unfold record_errs.
  rewrite Mh, (decode_encode _ (headline_text_ok r W)), (parse_headline_spec (length head) r W' H3 H2). cbn [headline_errs].
  rewrite (parse_summary_lines_spec (sr_summary r) H1 ls_s (S (length head)) (lb :: ls_x) [] Ms).
  rewrite Mlb, Hfi. cbn [length]. rewrite parse_entries_step. cbv zeta. rewrite Mlb, (decode_encode _ Tok), Hbl, orb_true_r.
  cbn [snd app]. replace (length head + S (length (sr_summary r)))%nat with (S (length head) + length (sr_summary r))%nat by lia.
  apply first_err_single.
Qed.

(* ================= a fault on an entry line ================= *)

(* whatever follows (lines with the texts [others]), parsing the line t after the entries acc reports its first error
   on that line *)
Definition line_errs_at (ind : text) (acc : list entry) (t : text) (others : list text) : Prop :=
  forall k ln l rest, l_text l = utf8_encode t -> map l_text rest = map utf8_encode others ->
  first_err_at (snd (parse_entries (S k) ind ln (l :: rest) acc [])) ln.

Lemma entry_line_at r es1 t others : wf_record r = true -> forallb wf_entry es1 = true -> (count_open es1 <= 1)%nat ->
  let ind := indent_text (sr_indent r) in
  has_prefix (ind ++ ind) (utf8_encode t) = false ->                (* not a continuation line of the entry before *)
  (es1 = [] -> find_indentation (utf8_encode t) = Some ind) ->      (* as first indented line it shows the record's style *)
  line_errs_at ind (map denote_entry es1) t others ->
  forallb (fun t => negb (blank_text t))
    (headline_text r :: sr_summary r ++ flat_map (entry_texts ind) es1 ++ t :: others) = true ->
  sig_fails_at (headline_text r :: sr_summary r ++ flat_map (entry_texts ind) es1 ++ t :: others)
               (S (length (sr_summary r) + length (flat_map (entry_texts ind) es1))).
Proof.
  intros W H01 Ho1 ind Hnd Hfirst Herr Nb b head sig tail Hb Hh Ht M.
  destruct (sig_significant b head sig tail _ _ Hb Hh Ht M Nb) as (hl & rs & -> & Mh & Mr & Sg).
  destruct (wf_record_inv r W) as (W' & H3 & H2 & H1 & _).
  rewrite map_app in Mr. apply map_eq_app in Mr as (ls_s & ls_e & -> & Ms & Me).
  rewrite map_app in Me. apply map_eq_app in Me as (ls_g & ls_b & -> & Mg & Mb).
  cbn [map] in Mb. apply map_eq_cons in Mb as (lb & ls_x & -> & Mlb & Mx).
  assert (Rb : no_double_prefix ind (lb :: ls_x)) by (unfold no_double_prefix; rewrite Mlb; exact Hnd).
  assert (Hind : find_indentation (l_text (hd lb ls_g)) = Some ind).
  { destruct ls_g as [|lg ls_g'].
    - cbn [hd]. rewrite Mlb. apply Hfirst. destruct es1 as [|e1 es1']; [reflexivity|discriminate].
    - destruct es1 as [|e1 es1']; [discriminate|]. cbn [flat_map entry_texts app map] in Mg. injection Mg as Mlg _.
      cbn [forallb] in H01. apply andb_true_iff in H01 as [We1 _].
      destruct (entry_line_bytes (sr_indent r) e1 We1) as (c1 & x1 & Eb1 & Hc1).
      cbn [hd]. rewrite Mlg.
      change (find_indentation (utf8_encode (indent_text (sr_indent r) ++ render_value (se_value e1) ++ first_tail e1))
              = Some (indent_text (sr_indent r))).
      rewrite Eb1. apply find_indentation_entry. exact Hc1. }
  apply (record_errs_at b hl _ _ _ _ Sg). unfold record_errs.
  rewrite Mh, (decode_encode _ (headline_text_ok r W)), (parse_headline_spec (length head) r W' H3 H2). cbn [headline_errs].
  rewrite (parse_summary_lines_spec (sr_summary r) H1 ls_s (S (length head)) (ls_g ++ lb :: ls_x) [] Ms).
  assert (Ecase : exists l0 rest0, ls_g ++ lb :: ls_x = l0 :: rest0 /\ l0 = hd lb ls_g) by (destruct ls_g; eexists; eexists; split; reflexivity).
  destruct Ecase as (l0 & rest0 & E0 & El0). rewrite E0. cbv iota beta. rewrite El0, Hind. rewrite <- El0, <- E0.
  destruct (parse_entries_prefix (sr_indent r) es1 H01 (length (ls_g ++ lb :: ls_x)) (S (length head) + length (sr_summary r))
              ls_g (lb :: ls_x) [] [] Mg Rb) as (fuel' & Hf' & P).
  - rewrite app_length. lia.
  - cbn [has_open_entry existsb]. lia.
  - unfold ind at 1. rewrite P. fold ind. destruct fuel' as [|k']; [cbn [length] in Hf'; lia|].
    assert (Lg : length ls_g = length (flat_map (entry_texts ind) es1)) by (rewrite <- (map_length l_text), Mg, map_length; reflexivity).
    replace (length head + S (length (sr_summary r) + length (flat_map (entry_texts ind) es1)))%nat
      with (S (length head) + length (sr_summary r) + length ls_g)%nat by lia.
    apply (Herr k' _ lb ls_x Mlb Mx).
Qed.

(* ---- instances of line_errs_at ---- *)

Lemma indent_errs_at ind acc t others : text_ok t = true ->
  has_prefix ind (utf8_encode t) = false \/ is_space_or_tab (peek t (length ind)) = true ->
  line_errs_at ind acc t others.
Proof.
  intros Tok H k ln l rest Ml _. rewrite parse_entries_step. cbv zeta. rewrite Ml, (decode_encode _ Tok).
  replace (negb (has_prefix ind (utf8_encode t)) || is_space_or_tab (peek t (length ind))) with true
    by (destruct H as [-> | ->]; [reflexivity|symmetry; apply orb_true_r]).
  cbn [snd app]. apply first_err_single.
Qed.

Lemma everr_errs_at ind acc t others : text_ok t = true ->
  (forall ln, exists e, parse_entry_value ln t (length ind) = EvErr e) ->
  line_errs_at ind acc t others.
Proof.
  intros Tok H k ln l rest Ml _. rewrite parse_entries_step. cbv zeta. rewrite Ml, (decode_encode _ Tok).
  destruct (negb (has_prefix ind (utf8_encode t)) || is_space_or_tab (peek t (length ind))).
  - cbn [snd app]. apply first_err_single.
  - destruct (H ln) as [e He]. rewrite He.
    apply (first_err_extends ([] ++ [e])); [apply parse_entries_extends|].
    cbn [app]. rewrite <- (parse_entry_value_err_line _ _ _ _ He). apply first_err_single.
Qed.

Lemma second_open_at i a sp1 sp2 extra tail acc more es2 : wf_time a = true -> tail_ok tail -> text_ok tail = true ->
  has_open_entry acc = true ->
  forallb (fun t => text_ok t && negb (all_blank t)) more = true -> forallb wf_entry es2 = true ->
  let ind := indent_text i in
  line_errs_at ind acc (ind ++ render_value (SOpen a sp1 sp2 extra) ++ tail)
    (map (fun x => ind ++ ind ++ x) more ++ flat_map (entry_texts ind) es2).
Proof.
  intros Wa T Tt Hop Wm W2 ind k ln l rest Ml Mr.
  destruct (entry_value_line_shape i (SOpen a sp1 sp2 extra) tail Wa Tt) as (Tok & _ & Hp & Hk).
  rewrite map_app in Mr. apply map_eq_app in Mr as (ls_m & ls_r & -> & Mm & Mr). rewrite map_map in Mm.
  rewrite parse_entries_step. cbv zeta. fold ind in Tok, Hp, Hk. rewrite Ml, (decode_encode _ Tok), Hp, Hk. cbn [negb orb].
  rewrite (parse_entry_value_spec ln ind (SOpen a sp1 sp2 extra) tail Wa T). cbn [denote_value ev_of]. cbv iota beta.
  rewrite (parse_more_spec i more Wm ls_m (S ln) ls_r _ Mm (no_double_prefix_entries i es2 ls_r W2 Mr)).
  cbv iota beta. rewrite Hop.
  match goal with |- first_err_at (snd (parse_entries _ _ _ _ _ ([] ++ [?e]))) _ =>
    apply (first_err_extends ([] ++ [e])); [apply parse_entries_extends|] end.
  cbn [app]. apply first_err_single.
Qed.

(* ================= (c), (d): value texts on which parse_entry_value reports an error ================= *)

(* a start time that is time-shaped but no time of the specification *)
Lemma ev_bad_start ln pre s rest : time_shape s = true -> forallb plain_char s = true ->
  (forall t, parse_time s <> Ok t) ->
  match rest with c :: _ => is_dash_or_space c = true | [] => True end ->
  exists e, parse_entry_value ln (pre ++ s ++ rest) (length pre) = EvErr e.
Proof.
  intros Sh Pl Hp Hr. pose proof (plain_ascii _ Pl) as As.
  unfold parse_entry_value.
  assert (D : exists x b, peek_until is_space_or_tab (pre ++ s ++ rest) (length pre) = (s ++ x, b)).
  { unfold peek_until. rewrite skipn_pre. rewrite until_pass by (apply plain_not_space_or_tab; exact Pl).
    eexists; eexists; reflexivity. }
  destruct D as (x & b & D). rewrite D. cbv iota beta.
  rewrite (parser_duration_time_prefix _ x Sh As).
  rewrite (peek_until_at is_dash_or_space _ (length pre) pre s rest eq_refl eq_refl (plain_not_dash_or_space _ Pl) Hr).
  cbv iota beta.
  assert (Ne : Nat.eqb (length s) 0 = false) by (destruct s; [discriminate|reflexivity]).
  rewrite Ne. cbv iota. unfold str. rewrite (utf8_encode_ascii _ As).
  destruct (parse_time s) as [t| |]; [exfalso; exact (Hp t eq_refl)|eexists; reflexivity|eexists; reflexivity].
Qed.

(* a valid start time, blanks, and then no dash *)
Lemma ev_no_dash ln pre a sp1 rest : wf_time a = true ->
  match rest with c :: _ => is_space c = false /\ (c =? ch_minus)%N = false | [] => True end ->
  (sp1 = 0%nat -> rest = []) ->
  exists e, parse_entry_value ln (pre ++ render_time a ++ spaces sp1 ++ rest) (length pre) = EvErr e.
Proof.
  intros Wa Hr H0.
  pose proof (render_time_plain a Wa) as Pl. pose proof (render_time_shape a Wa) as Sh.
  pose proof (render_time_ascii a Wa) as As.
  set (cs := pre ++ render_time a ++ spaces sp1 ++ rest).
  unfold parse_entry_value.
  assert (D : exists x b, peek_until is_space_or_tab cs (length pre) = (render_time a ++ x, b)).
  { unfold peek_until, cs. rewrite skipn_pre. rewrite until_pass by (apply plain_not_space_or_tab; exact Pl).
    eexists; eexists; reflexivity. }
  destruct D as (x & b & D). rewrite D. cbv iota beta.
  rewrite (parser_duration_time_prefix _ x Sh As).
  assert (Hstop : match spaces sp1 ++ rest with c :: _ => is_dash_or_space c = true | [] => True end).
  { destruct sp1; [rewrite (H0 eq_refl); exact I|reflexivity]. }
  rewrite (peek_until_at is_dash_or_space cs (length pre) pre (render_time a) (spaces sp1 ++ rest)
             eq_refl eq_refl (plain_not_dash_or_space _ Pl) Hstop).
  cbv iota beta.
  assert (Ne : Nat.eqb (length (render_time a)) 0 = false).
  { destruct (render_time a); [exfalso; exact (time_shape_nonempty _ Sh eq_refl)|reflexivity]. }
  rewrite Ne. cbv iota. unfold str at 1. rewrite (utf8_encode_ascii _ As), (parse_render_time a Wa).
  assert (Hr1 : match rest with c :: _ => is_space c = false | [] => True end) by (destruct rest; [exact I|apply Hr]).
  rewrite (skip_while_at is_space cs (length pre + length (render_time a))%nat (pre ++ render_time a) 32%N sp1 rest
             ltac:(unfold cs, spaces; app_eq) ltac:(len_eq) eq_refl Hr1).
  rewrite (peek_at cs (length pre + length (render_time a) + sp1)%nat (pre ++ render_time a ++ spaces sp1) rest
             ltac:(unfold cs; app_eq) ltac:(unfold spaces; len_eq)).
  destruct rest as [|c r0].
  - change (rune_error =? ch_minus)%N with false. cbn [negb]. eexists; reflexivity.
  - destruct Hr as [_ Hm]. rewrite Hm. cbn [negb]. eexists; reflexivity.
Qed.

(* a valid start time and the dash, then something that is neither a time nor a placeholder (nothing at all included) *)
Lemma ev_bad_end ln pre a sp1 sp2 s' tail : wf_time a = true ->
  forallb (fun c => negb (is_space_or_tab c)) s' = true ->
  match tail with c :: _ => is_space_or_tab c = true | [] => True end ->
  match s' ++ tail with c :: _ => is_space c = false /\ (c =? ch_q)%N = false | [] => True end ->
  (forall t, parse_time (utf8_encode s') <> Ok t) ->
  exists e, parse_entry_value ln (pre ++ render_time a ++ spaces sp1 ++ [45%N] ++ spaces sp2 ++ s' ++ tail) (length pre) = EvErr e.
Proof.
  intros Wa Hs Ht Hh Hp.
  rewrite entry_value_range_start; [|exact Wa|destruct (s' ++ tail); [exact I|apply Hh]].
  cbv zeta.
  set (cs := pre ++ render_time a ++ spaces sp1 ++ [45%N] ++ spaces sp2 ++ s' ++ tail).
  set (p3 := (length pre + length (render_time a) + sp1 + 1 + sp2)%nat).
  rewrite (peek_at cs p3 (pre ++ render_time a ++ spaces sp1 ++ [45%N] ++ spaces sp2) (s' ++ tail)
             ltac:(unfold cs; app_eq) ltac:(unfold p3, spaces; len_eq)).
  assert (Hq : (match s' ++ tail with c :: _ => c | [] => rune_error end =? ch_q)%N = false).
  { destruct (s' ++ tail); [reflexivity|apply Hh]. }
  rewrite Hq.
  rewrite (peek_until_at is_space_or_tab cs p3 (pre ++ render_time a ++ spaces sp1 ++ [45%N] ++ spaces sp2) s' tail
             ltac:(unfold cs; app_eq) ltac:(unfold p3, spaces; len_eq) Hs Ht).
  cbv iota beta.
  destruct (Nat.eqb (length s') 0); [eexists; reflexivity|].
  unfold str. destruct (parse_time (utf8_encode s')) as [t| |]; [exfalso; exact (Hp t eq_refl)|eexists; reflexivity|eexists; reflexivity].
Qed.

(* a placeholder followed by anything but further `?` up to the next blank: `?>`, `?x`, `??>` *)
Lemma ev_bad_placeholder ln pre a sp1 sp2 rep tail : wf_time a = true ->
  forallb (fun c => negb (is_space_or_tab c)) rep = true ->
  match tail with c :: _ => is_space_or_tab c = true | [] => True end ->
  forallb (fun c => (c =? ch_q)%N) rep = false ->
  exists e, parse_entry_value ln (pre ++ render_time a ++ spaces sp1 ++ [45%N] ++ spaces sp2 ++ 63%N :: rep ++ tail) (length pre) = EvErr e.
Proof.
  intros Wa Hs Ht Hq.
  rewrite entry_value_range_start; [|exact Wa|reflexivity].
  cbv zeta.
  set (cs := pre ++ render_time a ++ spaces sp1 ++ [45%N] ++ spaces sp2 ++ 63%N :: rep ++ tail).
  set (p3 := (length pre + length (render_time a) + sp1 + 1 + sp2)%nat).
  rewrite (peek_at cs p3 (pre ++ render_time a ++ spaces sp1 ++ [45%N] ++ spaces sp2) (63%N :: rep ++ tail)
             ltac:(unfold cs; app_eq) ltac:(unfold p3, spaces; len_eq)).
  change (63 =? ch_q)%N with true. cbv iota.
  rewrite (peek_until_at is_space_or_tab cs (S p3) (pre ++ render_time a ++ spaces sp1 ++ [45%N] ++ spaces sp2 ++ [63%N]) rep tail
             ltac:(unfold cs; app_eq) ltac:(unfold p3, spaces; len_eq) Hs Ht).
  cbv iota beta. rewrite Hq. eexists; reflexivity.
Qed.

(* ---- every time-shaped literal `<?D{1,2}:DD(am|pm)?>?` that is not a time of the specification is refused:
       hour > 24, minute > 59, 24:01, 24:00>, 13:00pm, 0:30am ... (180,000 literals, bounds = time_fields_in_shape) ---- *)

Definition bad_time_check (t : s_time) : bool :=
  wf_time t ||
  (match parse_time (render_time t) with Ok _ => false | _ => true end
   && time_shape (render_time t) && forallb plain_char (render_time t) && text_ok (render_time t)).

Lemma bad_time_sweep_true :
  range_forallb (fun s => range_forallb (fun h => range_forallb (fun m =>
    forallb (fun p => forallb (fun c =>
      bad_time_check {| st_shift := s; st_hh := h; st_pad := p; st_mm := m; st_clock := c |}) [C24; CAm; CPm]) [true; false])
    0 100) 0 100) (-1) 3 = true.
Proof. vm_cast_no_check (eq_refl true). Qed.

Lemma bad_time_facts t : time_fields_in_shape t = true -> wf_time t = false ->
  (forall x, parse_time (render_time t) <> Ok x) /\ time_shape (render_time t) = true
  /\ forallb plain_char (render_time t) = true /\ text_ok (render_time t) = true.
Proof.
  intros F W. unfold time_fields_in_shape in F.
  pose proof bad_time_sweep_true as S.
  apply range_forallb_sound with (z := st_shift t) in S; [|lia].
  apply range_forallb_sound with (z := st_hh t) in S; [|lia].
  apply range_forallb_sound with (z := st_mm t) in S; [|lia].
  rewrite forallb_forall in S. specialize (S (st_pad t) ltac:(destruct (st_pad t); cbn; auto)).
  rewrite forallb_forall in S. specialize (S (st_clock t) ltac:(destruct (st_clock t); cbn; auto)).
  assert (E : {| st_shift := st_shift t; st_hh := st_hh t; st_pad := st_pad t; st_mm := st_mm t; st_clock := st_clock t |} = t) by (destruct t; reflexivity).
  rewrite E in S. unfold bad_time_check in S. rewrite W in S. cbn [orb] in S.
  repeat (apply andb_true_iff in S as [S ?]).
  repeat split; try assumption.
  intros x Hx. rewrite Hx in S. discriminate.
Qed.

(* ---- `1h60m`: both parts present, sixty minutes or more ---- *)

Lemma match_time_digits_h ds y : ds <> [] -> forallb is_digit ds = true -> match_time (ds ++ 104%N :: y) = None.
Proof.
  intros Hne Hd. destruct ds as [|d1 ds]; [congruence|]. cbn [forallb] in Hd. apply andb_true_iff in Hd as [D1 Hd].
  unfold match_time. cbn [app].
  replace (d1 =? ch_lt)%N with false by (unfold is_digit, ch_lt in *; lia).
  destruct ds as [|d2 ds]; cbn [app].
  - rewrite D1. reflexivity.
  - cbn [forallb] in Hd. apply andb_true_iff in Hd as [D2 Hd]. rewrite D1, D2.
    replace (d2 =? ch_colon)%N with false by (unfold is_digit, ch_colon in *; lia).
    destruct ds as [|d3 ds]; cbn [app]; [reflexivity|].
    cbn [forallb] in Hd. apply andb_true_iff in Hd as [D3 _].
    replace (d3 =? ch_colon)%N with false by (unfold is_digit, ch_colon in *; lia). reflexivity.
Qed.

Lemma ev_dur60 ln pre d tail : dur_minutes_overflow d = true -> tail_ok tail ->
  exists e, parse_entry_value ln (pre ++ render_dur d ++ tail) (length pre) = EvErr e.
Proof.
  unfold dur_minutes_overflow. destruct (du_h d) as [hs|] eqn:Eh; [|discriminate]. destruct (du_m d) as [ms|] eqn:Em; [|discriminate].
  intros H T. apply andb_true_iff in H as [H H0]. apply andb_true_iff in H as [H H1]. apply andb_true_iff in H as [Hoh Hom].
  destruct (integer_ok_inv _ Hoh) as [Nh Dh]. destruct (integer_ok_inv _ Hom) as [Nm Dm].
  (* the text has no blank, is ASCII, and is a duration literal with too many minutes *)
  assert (Ch : forallb (fun c => negb (is_space_or_tab c) && (c <? 128)%N) (render_dur d) = true).
  { unfold render_dur. rewrite Eh, Em, !forallb_app, (digits_not_blank _ Dh), (digits_not_blank _ Dm). destruct (du_sign d); reflexivity. }
  rewrite forallb_and in Ch. apply andb_true_iff in Ch as [Nb As].
  assert (Pd : parser_duration (str (render_dur d)) = None).
  { unfold parser_duration, str. fold (ascii (render_dur d)) in As. rewrite (utf8_encode_ascii _ As).
    assert (M : match_duration (render_dur d) = Some {| dm_sign := sign_char (du_sign d); dm_h := hs; dm_m := ms |}).
    { unfold render_dur. rewrite Eh, Em.
      assert (B : forall sg, md_body sg ((hs ++ [104%N]) ++ (ms ++ [109%N])) = Some {| dm_sign := sg; dm_h := hs; dm_m := ms |}).
      { intros sg. rewrite <- app_assoc. apply md_body_hm; assumption. }
      destruct hs as [|h0 hs']; [congruence|]. cbn [forallb] in Dh. apply andb_true_iff in Dh as [Dh0 Dh].
      destruct (du_sign d); cbn [app sign_char].
      + rewrite match_duration_unsigned by (apply digit_not_sign; exact Dh0). apply B.
      + rewrite match_duration_signed by reflexivity. apply B.
      + rewrite match_duration_signed by reflexivity. apply B. }
    unfold parse_duration. rewrite M. cbn [dm_h dm_m dm_sign].
    rewrite !integer_value_digits_val in *.
    assert (Vh : 0 <= digits_val hs) by (apply digits_val_nonneg; exact Dh).
    destruct hs as [|h0 hs']; [congruence|]. destruct ms as [|m0 ms']; [congruence|].
    unfold atoi_digits. unfold max_int64.
    destruct (digits_val (h0 :: hs') <=? 9223372036854775807) eqn:E1; [|lia].
    destruct (digits_val (m0 :: ms') <=? 9223372036854775807) eqn:E2; [|lia].
    destruct (true && (60 <=? digits_val (m0 :: ms'))) eqn:E3; [reflexivity|lia]. }
  unfold parse_entry_value.
  rewrite (peek_until_at is_space_or_tab _ _ pre (render_dur d) tail eq_refl eq_refl Nb (tail_stops tail T)).
  cbv iota beta. rewrite Pd.
  (* the start-time candidate: empty after a minus sign, otherwise the whole literal, which is no time *)
  unfold render_dur. rewrite Eh, Em.
  destruct (du_sign d) eqn:Es.
  - cbn [app].
    assert (Nd : forallb (fun c => negb (is_dash_or_space c)) ((hs ++ [104%N]) ++ ms ++ [109%N]) = true).
    { rewrite !forallb_app. cbn [forallb].
      assert (Dg : forall ds, forallb is_digit ds = true -> forallb (fun c => negb (is_dash_or_space c)) ds = true).
      { intros ds. apply forallb_impl. intros c. unfold is_digit, is_dash_or_space, ch_minus. lia. }
      rewrite (Dg _ Dh), (Dg _ Dm). reflexivity. }
    assert (Hts : match tail with c :: _ => is_dash_or_space c = true | [] => True end) by (destruct tail; [exact I|cbn in T; subst; reflexivity]).
    rewrite (peek_until_at is_dash_or_space _ _ pre _ tail eq_refl eq_refl Nd Hts).
    cbv iota beta.
    replace (Nat.eqb (length ((hs ++ [104%N]) ++ ms ++ [109%N])) 0) with false by (rewrite !app_length; cbn [length]; symmetry; apply Nat.eqb_neq; lia).
    cbv iota. unfold str, parse_time.
    rewrite utf8_encode_ascii.
    + rewrite <- app_assoc. cbn [app]. rewrite (match_time_digits_h hs _ Nh Dh). eexists; reflexivity.
    + unfold ascii. rewrite !forallb_app. cbn [forallb].
      assert (Dg : forall ds, forallb is_digit ds = true -> forallb (fun c => (c <? 128)%N) ds = true).
      { intros ds. apply forallb_impl. intros c. unfold is_digit. lia. }
      rewrite (Dg _ Dh), (Dg _ Dm). reflexivity.
  - cbn [app].
    assert (Nd : forallb (fun c => negb (is_dash_or_space c)) (43%N :: (hs ++ [104%N]) ++ ms ++ [109%N]) = true).
    { cbn [forallb]. rewrite !forallb_app. cbn [forallb].
      assert (Dg : forall ds, forallb is_digit ds = true -> forallb (fun c => negb (is_dash_or_space c)) ds = true).
      { intros ds. apply forallb_impl. intros c. unfold is_digit, is_dash_or_space, ch_minus. lia. }
      rewrite (Dg _ Dh), (Dg _ Dm). reflexivity. }
    assert (Hts : match tail with c :: _ => is_dash_or_space c = true | [] => True end) by (destruct tail; [exact I|cbn in T; subst; reflexivity]).
    change (pre ++ 43%N :: ((hs ++ [104%N]) ++ ms ++ [109%N]) ++ tail) with (pre ++ (43%N :: (hs ++ [104%N]) ++ ms ++ [109%N]) ++ tail).
    rewrite (peek_until_at is_dash_or_space _ _ pre _ tail eq_refl eq_refl Nd Hts).
    cbv iota beta. cbn [length Nat.eqb]. cbv iota.
    unfold str, parse_time, utf8_encode. cbn [flat_map]. change (encode_rune 43) with [43%N]. cbn [app].
    unfold match_time. change (43 =? ch_lt)%N with false. cbv iota.
    destruct (flat_map encode_rune ((hs ++ [104%N]) ++ ms ++ [109%N])) as [|c1 r1]; [eexists; reflexivity|].
    change (is_digit 43) with false. cbv iota. eexists; reflexivity.
  - cbn [app].
    rewrite (peek_until_at is_dash_or_space (pre ++ 45%N :: ((hs ++ [104%N]) ++ ms ++ [109%N]) ++ tail) _ pre [] (45%N :: ((hs ++ [104%N]) ++ ms ++ [109%N]) ++ tail) eq_refl eq_refl eq_refl eq_refl).
    cbv iota beta. cbn [length Nat.eqb]. cbv iota. eexists; reflexivity.
Qed.
