(* Suite "period" (C15): requests evaluated by the model for the correspondence check.
     cal-date <y> <m> <d>      every calendar observable of one date (see [show_cal])
     cal-basic <y> <m> <d>     the observables of cal-date that cannot panic (used for the dates whose cal-date line
                               carries a known finding, so that the rest of the line is still compared)
     cal-plus <y> <m> <d> <n>  Date.PlusDays(n)
     period-pattern <hex>      period.NewPeriodFromPatternString *)
From Klog Require Import Base.Prelude Model.Calendar Model.Show Model.Period.
Open Scope Z_scope.

Definition show_cd (c : cdate) : bytes :=
  dec (c_year c) ++ [45%N] ++ dec (c_month c) ++ [45%N] ++ dec (c_day c).

Definition show_tok {A} (f : A -> bytes) (x : outcome A) : bytes :=
  match x with Ok a => f a | Err _ => b!"err" | Crash _ => b!"crash" end.

Definition show_period (p : period) : bytes := show_cd (fst p) ++ [47%N] ++ show_cd (snd p).

Definition kinds : list kind := [KWeek; KMonth; KQuarter; KYear].
Definition plus_list : list Z := [1; -1; 7; -7; -25; -80].

(* ok <weekday> <iso year> <iso week> <quarter> <PlusDays 1 -1 7 -7 -25 -80>
      <Period() of week month quarter year> <Previous().Period() of the same> <Hash() of day week month quarter year> *)
Definition show_cal (c : cdate) : bytes :=
  words ([b!"ok"; dec (weekday c); dec (fst (iso_week c)); dec (snd (iso_week c)); dec (quarter c)]
         ++ map (fun n => show_tok show_cd (plus_days c n)) plus_list
         ++ map (fun k => show_tok show_period (period_of k c)) kinds
         ++ map (fun k => show_tok show_period (previous_period k c)) kinds
         ++ [show_tok dec (day_hash c)]
         ++ map (fun k => show_tok dec (hash_of k c)) kinds).

(* ok <weekday> <iso year> <iso week> <quarter> <Hash() of day week month quarter year> *)
Definition show_cal_basic (c : cdate) : bytes :=
  words ([b!"ok"; dec (weekday c); dec (fst (iso_week c)); dec (snd (iso_week c)); dec (quarter c)]
         ++ [show_tok dec (day_hash c)]
         ++ map (fun k => show_tok dec (hash_of k c)) kinds).

Definition suite_period (cmd : bytes) (args : list bytes) : option bytes :=
  if bytes_eqb cmd b!"cal-date" then
    match args with
    | [y; m; d] =>
      Some (match new_date (parse_int y) (parse_int m) (parse_int d) with
            | Some c => show_cal c
            | None => b!"err"
            end)
    | _ => None
    end
  else if bytes_eqb cmd b!"cal-basic" then
    match args with
    | [y; m; d] =>
      Some (match new_date (parse_int y) (parse_int m) (parse_int d) with
            | Some c => show_cal_basic c
            | None => b!"err"
            end)
    | _ => None
    end
  else if bytes_eqb cmd b!"cal-plus" then
    match args with
    | [y; m; d; n] =>
      Some (match new_date (parse_int y) (parse_int m) (parse_int d) with
            | Some c => words [b!"ok"; show_tok show_cd (plus_days c (parse_int n))]
            | None => b!"err"
            end)
    | _ => None
    end
  else if bytes_eqb cmd b!"period-pattern" then
    match args with
    | [s] => Some (match period_from_pattern (arg_bytes s) with
                   | Ok p => words [b!"ok"; show_period p]
                   | Err _ => b!"err"
                   | Crash _ => b!"crash"
                   end)
    | _ => None
    end
  else None.
