(* SpecDoc — layer L3 of C01: the document level. The lines of a rendered document are read back exactly, its blocks are
   the records' line groups, and every block parses to the denoted record: the top theorem [parse_conforming]. *)
From Klog Require Import Base.Prelude Base.Utf8 Model.Calendar Model.Values Model.Record Model.Lines Model.Parser
  Proofs.TagsUtf8 Spec.Spec Proofs.SpecValues Proofs.SpecEntry Proofs.SpecRecord.
From Coq Require Import ZifyBool.
Open Scope Z_scope.

(* ================= lines of a text ================= *)

Definition no_lf (s : bytes) : bool := forallb (fun c => negb (c =? 10)%N) s.

(* a line as [render] writes it: no LF in the text; LF (not after a CR) or CRLF; the last line may lack its newline *)
Definition line_ok (is_last : bool) (l : line) : bool :=
  no_lf (l_text l) &&
  match l_ending l with
  | [e] => (e =? 10)%N && negb (ends_in_cr (l_text l))
  | [e1; e2] => (e1 =? 13)%N && (e2 =? 10)%N
  | [] => is_last && negb (Nat.eqb (length (l_text l)) 0)
  | _ => false
  end.

Fixpoint lines_ok (ls : list line) : bool :=
  match ls with
  | [] => true
  | [l] => line_ok true l
  | l :: r => line_ok false l && lines_ok r
  end.

Lemma raw_lines_acc_line u rest : no_lf u = true -> forall cur,
  raw_lines_acc (u ++ 10%N :: rest) cur = (rev cur ++ u ++ [10%N]) :: raw_lines_acc rest [].
Proof.
  intros Hu. induction u as [|c u IH]; intros cur; cbn [app raw_lines_acc].
  - rewrite N.eqb_refl. cbn [rev]. reflexivity.
  - cbn [no_lf forallb] in Hu. apply andb_true_iff in Hu as [Hc Hu]. apply negb_true_iff in Hc. rewrite Hc.
    rewrite (IH Hu). cbn [rev]. rewrite <- app_assoc. reflexivity.
Qed.

Lemma raw_lines_acc_last u : no_lf u = true -> forall cur, rev cur ++ u <> [] ->
  raw_lines_acc u cur = [rev cur ++ u].
Proof.
  intros Hu. induction u as [|c u IH]; intros cur Hne; cbn [raw_lines_acc].
  - rewrite app_nil_r in *. destruct cur; [cbn [rev] in Hne; congruence|reflexivity].
  - cbn [no_lf forallb] in Hu. apply andb_true_iff in Hu as [Hc Hu]. apply negb_true_iff in Hc. rewrite Hc.
    rewrite (IH Hu); cbn [rev]; rewrite <- app_assoc; [reflexivity|exact Hne].
Qed.

Lemma new_line_crlf t : new_line (t ++ [13; 10]%N) = {| l_text := t; l_ending := [13; 10]%N |}.
Proof. unfold new_line. rewrite rev_app_distr. cbn [rev app]. rewrite rev_involutive. reflexivity. Qed.

Lemma new_line_lf t : ends_in_cr t = false -> new_line (t ++ [10%N]) = {| l_text := t; l_ending := [10%N] |}.
Proof.
  unfold new_line, ends_in_cr. intros H. rewrite rev_app_distr. cbn [rev app].
  destruct (rev t) as [|c r] eqn:E.
  - rewrite <- (rev_involutive t), E. reflexivity.
  - assert (c <> 13%N) by (intros ->; discriminate).
    rewrite <- (rev_involutive t), E.
    destruct c as [|p]; [reflexivity|]. do 4 (destruct p as [p|p|]; try reflexivity). congruence.
Qed.

Lemma new_line_none t : no_lf t = true -> new_line t = {| l_text := t; l_ending := [] |}.
Proof.
  unfold new_line. intros H. destruct (rev t) as [|c r] eqn:E; [reflexivity|].
  assert (In c t) by (apply in_rev; rewrite E; left; reflexivity).
  unfold no_lf in H. rewrite forallb_forall in H. specialize (H c H0). apply negb_true_iff in H. apply N.eqb_neq in H.
  destruct c as [|p]; [reflexivity|]. do 4 (destruct p as [p|p|]; try reflexivity). congruence.
Qed.

Lemma line_eta l : {| l_text := l_text l; l_ending := l_ending l |} = l.
Proof. destruct l; reflexivity. Qed.

(* a line with its newline, followed by anything *)
Lemma raw_lines_cons l rest : line_ok false l = true ->
  raw_lines_acc (original l ++ rest) [] = original l :: raw_lines_acc rest [] /\ new_line (original l) = l.
Proof.
  unfold line_ok, original. intros H. apply andb_true_iff in H as [Hn He].
  destruct (l_ending l) as [|e1 [|e2 [|e3 r]]] eqn:E; try discriminate.
  - apply andb_true_iff in He as [He Hc]. apply N.eqb_eq in He. subst e1. apply negb_true_iff in Hc.
    split.
    + rewrite <- app_assoc. cbn [app]. rewrite (raw_lines_acc_line _ rest Hn []). reflexivity.
    + rewrite (new_line_lf _ Hc), <- E. apply line_eta.
  - apply andb_true_iff in He as [He1 He2]. apply N.eqb_eq in He1, He2. subst e1 e2.
    split.
    + rewrite <- app_assoc. cbn [app]. change (l_text l ++ 13%N :: 10%N :: rest) with (l_text l ++ [13%N] ++ 10%N :: rest).
      rewrite app_assoc. rewrite (raw_lines_acc_line (l_text l ++ [13%N]) rest).
      * cbn [rev app]. rewrite <- app_assoc. reflexivity.
      * unfold no_lf in *. rewrite forallb_app, Hn. reflexivity.
    + rewrite new_line_crlf, <- E. apply line_eta.
Qed.

(* A: the lines of a rendered text are the lines that were written *)
Lemma lines_of_text_of_lines ls : lines_ok ls = true -> lines_of (text_of_lines ls) = ls.
Proof.
  unfold lines_of, raw_lines, text_of_lines. induction ls as [|l ls IH]; intros H; [reflexivity|].
  cbn [flat_map]. destruct ls as [|l2 ls'].
  - cbn [flat_map lines_ok] in *. rewrite app_nil_r.
    destruct (line_ok false l) eqn:Em.
    + destruct (raw_lines_cons l [] Em) as [R N]. rewrite app_nil_r in R. rewrite R. cbn [raw_lines_acc map]. rewrite N. reflexivity.
    + unfold line_ok in *. apply andb_true_iff in H as [Hn He]. rewrite Hn in Em. cbn [andb] in Em.
      destruct (l_ending l) as [|e1 [|e2 [|e3 r]]] eqn:E; try congruence.
      cbn [andb] in He. apply negb_true_iff in He. apply Nat.eqb_neq in He.
      unfold original. rewrite E, app_nil_r.
      rewrite (raw_lines_acc_last _ Hn []) by (cbn [rev app]; destruct (l_text l); [cbn in He; congruence|discriminate]).
      cbn [rev app map]. rewrite (new_line_none _ Hn), <- E. f_equal. apply line_eta.
  - change (lines_ok (l :: l2 :: ls')) with (line_ok false l && lines_ok (l2 :: ls')) in H.
    apply andb_true_iff in H as [Hl Hr].
    destruct (raw_lines_cons l (flat_map original (l2 :: ls')) Hl) as [R N]. rewrite R. cbn [map]. rewrite N.
    f_equal. apply IH. exact Hr.
Qed.

(* ================= blocks ================= *)

(* a group: the lines of one record and the blank lines after it *)
Definition group := (list line * list line)%type.
Definition group_lines (g : group) : list line := fst g ++ snd g.

Fixpoint expect_blocks (p : nat) (head : list line) (gs : list group) : list block :=
  match gs with
  | [] => []
  | g :: rest =>
    {| b_preceding := p; b_lines := head ++ fst g ++ snd g |}
    :: expect_blocks (p + length (head ++ fst g ++ snd g)) [] rest
  end.

Definition group_ok (is_last : bool) (g : group) : bool :=
  negb (Nat.eqb (length (fst g)) 0) && forallb (fun l => negb (is_blank l)) (fst g)
  && forallb is_blank (snd g) && (is_last || negb (Nat.eqb (length (snd g)) 0)).

Fixpoint groups_ok (gs : list group) : bool :=
  match gs with
  | [] => true
  | [g] => group_ok true g
  | g :: rest => group_ok false g && groups_ok rest
  end.

Lemma groups_ok_cons g gs : groups_ok (g :: gs) = true ->
  group_ok (match gs with [] => true | _ => false end) g = true /\ groups_ok gs = true.
Proof. destruct gs as [|g2 gs]; cbn [groups_ok]; [intros H; split; [exact H|reflexivity]|]. intros H. apply andb_true_iff in H. exact H. Qed.

Lemma groups_head_not_blank gs : groups_ok gs = true ->
  match flat_map group_lines gs with l :: _ => is_blank l = false | [] => True end.
Proof.
  destruct gs as [|g gs]; [trivial|]. intros H. apply groups_ok_cons in H as [H _].
  unfold group_ok in H. repeat (apply andb_true_iff in H as [H ?]).
  cbn [flat_map]. unfold group_lines at 1. destruct (fst g) as [|l r]; [discriminate|].
  cbn [forallb] in H1. apply andb_true_iff in H1 as [H1 _]. apply negb_true_iff in H1. exact H1.
Qed.

Lemma parse_block_group head g rest : forallb is_blank head = true -> group_ok (match rest with [] => true | _ => false end) g = true ->
  match rest with l :: _ => is_blank l = false | [] => True end ->
  parse_block (head ++ fst g ++ snd g ++ rest) = (Some (head ++ fst g ++ snd g), rest).
Proof.
  intros Hh Hg Hr. unfold group_ok in Hg. repeat (apply andb_true_iff in Hg as [Hg ?]).
  unfold parse_block.
  assert (S0 : match fst g ++ snd g ++ rest with l :: _ => is_blank l = false | [] => True end).
  { destruct (fst g) as [|l r]; [discriminate|]. cbn [forallb] in H1. apply andb_true_iff in H1 as [H1 _]. apply negb_true_iff in H1. exact H1. }
  rewrite (take_blank_app head _ Hh S0).
  assert (B0 : match snd g ++ rest with l :: _ => is_blank l = true | [] => True end).
  { destruct (snd g) as [|l r] eqn:E.
    - cbn [app]. destruct rest as [|l r]; [trivial|]. cbn in H. discriminate.
    - cbn [forallb] in H0. apply andb_true_iff in H0 as [H0 _]. exact H0. }
  rewrite (take_significant_app (fst g) _ H1 B0).
  destruct (fst g) as [|l r] eqn:E; [discriminate|].
  rewrite (take_blank_app (snd g) rest H0 Hr). rewrite <- E. reflexivity.
Qed.

Lemma parse_block_blank head : forallb is_blank head = true -> parse_block head = (None, []).
Proof.
  intros H. unfold parse_block. rewrite <- (app_nil_r head) at 1. rewrite (take_blank_app head [] H I). reflexivity.
Qed.

Lemma flat_map_group_length gs : (length gs <= length (flat_map group_lines gs) \/ groups_ok gs = false)%nat.
Proof.
  induction gs as [|g gs IH]; [left; cbn; lia|].
  destruct (groups_ok (g :: gs)) eqn:E; [|right; reflexivity]. left.
  apply groups_ok_cons in E as [Hg Hgs]. destruct IH as [IH|IH]; [|congruence].
  cbn [flat_map length]. rewrite app_length. unfold group_lines at 1. rewrite app_length.
  unfold group_ok in Hg. repeat (apply andb_true_iff in Hg as [Hg ?]). apply negb_true_iff in Hg. apply Nat.eqb_neq in Hg. lia.
Qed.

(* B: the blocks of the lines of a document *)
Lemma blocks_fuel_groups gs : groups_ok gs = true -> forall fuel p head, forallb is_blank head = true ->
  (length (head ++ flat_map group_lines gs) <= fuel)%nat ->
  blocks_fuel fuel p (head ++ flat_map group_lines gs) = expect_blocks p head gs.
Proof.
  induction gs as [|g gs IH]; intros Hg fuel p head Hh Hf.
  - cbn [flat_map expect_blocks]. rewrite app_nil_r. destruct fuel; [reflexivity|]. cbn [blocks_fuel].
    rewrite (parse_block_blank head Hh). reflexivity.
  - destruct (groups_ok_cons g gs Hg) as [Hg1 Hgs].
    cbn [flat_map expect_blocks]. unfold group_lines at 1.
    destruct fuel as [|k].
    { exfalso. rewrite !app_length in Hf. unfold group_ok in Hg1. repeat (apply andb_true_iff in Hg1 as [Hg1 ?]).
      apply negb_true_iff in Hg1. apply Nat.eqb_neq in Hg1. lia. }
    cbn [blocks_fuel]. rewrite <- !app_assoc.
    rewrite (parse_block_group head g (flat_map group_lines gs) Hh).
    + f_equal. rewrite <- (app_nil_l (flat_map group_lines gs)). apply (IH Hgs k _ [] eq_refl).
      cbn [app]. rewrite !app_length in Hf. rewrite <- !app_assoc, !app_length in Hf.
      unfold group_ok in Hg1. repeat (apply andb_true_iff in Hg1 as [Hg1 ?]).
      apply negb_true_iff in Hg1. apply Nat.eqb_neq in Hg1. lia.
    + destruct gs as [|g2 gs']; [exact Hg1|].
      cbn [flat_map]. unfold group_lines at 1.
      destruct (groups_ok_cons g2 gs' Hgs) as [Hg2 _]. unfold group_ok in Hg2. repeat (apply andb_true_iff in Hg2 as [Hg2 ?]).
      destruct (fst g2) as [|l r]; [discriminate|]. exact Hg1.
    + apply groups_head_not_blank. exact Hgs.
Qed.
