package main

import (
	"os"
	"path/filepath"
	"strconv"
	"strings"
	gotime "time"

	"github.com/jotaen/klog/klog/parser"
)

func decLines(s string) []string {
	parts := strings.Split(s, ",")
	out := make([]string, len(parts))
	for i, p := range parts {
		out[i] = argBytes(p)
	}
	return out
}

// cliText joins summary lines the way a user passes them on the command line; a leading dash is escaped
func cliText(lines []string) string {
	t := strings.Join(lines, "\n")
	if strings.HasPrefix(t, "-") {
		t = "\\" + t
	}
	return t
}

func dateSelArgs(s string) []string {
	switch s {
	case "d":
		return nil
	case "t":
		return []string{"--today"}
	case "y":
		return []string{"--yesterday"}
	case "m":
		return []string{"--tomorrow"}
	}
	return []string{"--date", argBytes(s)}
}

func atArgs(a1, a2, a3 string) []string {
	args := dateSelArgs(a1)
	if a2 != "_" {
		args = append(args, "--time", argBytes(a2))
	}
	if a3 != "_" {
		args = append(args, "--round", a3+"m")
	}
	return args
}

func sumArgs(a4, a5, a6 string) []string {
	var args []string
	if a4 != "_" {
		args = append(args, "--summary="+strings.Join(decLines(a4), "\n"))
	}
	if a5 == "1" {
		args = append(args, "--resume")
	}
	if a6 != "0" {
		args = append(args, "--resume-nth="+a6)
	}
	return args
}

func init() {
	register("cmd-hist", func(a []string) string {
		// VERIF_REPEAT=n: run the history n times from scratch; the outputs must be byte-identical
		n, _ := strconv.Atoi(os.Getenv("VERIF_REPEAT"))
		first := runHistory(a)
		for i := 1; i < n; i++ {
			if again := runHistory(a); again != first {
				return "nondeterministic " + first
			}
		}
		return first
	})
}

func runHistory(a []string) string {
	{
		var cfg []string
		if a[0] != "_" {
			cfg = append(cfg, "default_rounding = "+a[0]+"m")
		}
		if a[1] != "_" {
			cfg = append(cfg, "default_should_total = "+a[1]+"m!")
		}
		if a[2] != "_" {
			cfg = append(cfg, "date_format = "+map[string]string{"1": "YYYY-MM-DD", "0": "YYYY/MM/DD"}[a[2]])
		}
		if a[3] != "_" {
			cfg = append(cfg, "time_convention = "+map[string]string{"1": "24h", "0": "12h"}[a[3]])
		}
		dir := scratchDir()
		defer os.RemoveAll(dir)
		f := filepath.Join(dir, "target.klg")
		writeFile(f, argBytes(a[4]))
		steps := a[5:]
		var out []string
		for len(steps) >= 12 {
			s := steps[:12]
			steps = steps[12:]
			y, _ := strconv.Atoi(s[0])
			mo, _ := strconv.Atoi(s[1])
			d, _ := strconv.Atoi(s[2])
			h, _ := strconv.Atoi(s[3])
			mi, _ := strconv.Atoi(s[4])
			now := gotime.Date(y, gotime.Month(mo), d, h, mi, 20, 0, gotime.Local)
			e := &cliEnv{Home: dir, Config: strings.Join(cfg, "\n"), Clock: []gotime.Time{now}, Sticky: true}
			var args []string
			switch s[5] {
			case "track":
				args = append([]string{"track"}, dateSelArgs(s[6])...)
				args = append(args, cliText(decLines(s[7])))
			case "start", "switch":
				args = append([]string{s[5]}, atArgs(s[6], s[7], s[8])...)
				args = append(args, sumArgs(s[9], s[10], s[11])...)
			case "stop":
				args = append([]string{"stop"}, atArgs(s[6], s[7], s[8])...)
				if s[9] != "_" {
					args = append(args, "--summary="+strings.Join(decLines(s[9]), "\n"))
				}
			case "create":
				args = append([]string{"create"}, dateSelArgs(s[6])...)
				if s[7] != "_" {
					args = append(args, "--should="+s[7]+"m!")
				}
				if s[8] != "_" {
					args = append(args, "--summary="+strings.Join(decLines(s[8]), "\n"))
				}
			case "pause":
				args = []string{"pause"}
				if s[6] != "_" {
					args = append(args, "--summary="+strings.Join(decLines(s[6]), "\n"))
				}
				if s[7] == "1" {
					args = append(args, "--no-tags")
				}
				if s[8] == "1" {
					args = append(args, "--extend")
				}
				// clock readings: today, start of the pause, then one per tick (seconds relative to the start)
				e.Clock = []gotime.Time{now, now}
				if s[9] != "_" {
					for _, t := range strings.Split(s[9], ",") {
						sec, _ := strconv.Atoi(t)
						e.Clock = append(e.Clock, now.Add(gotime.Duration(sec)*gotime.Second))
					}
				}
				e.Sticky = false
			default:
				return "?bad-command"
			}
			if os.Getenv("VERIF_WARN") == "1" {
				// with the warnings klog computes after the file has been written
				args = append(args, f)
			} else {
				args = append(args, "--no-warn", f)
			}
			code, _, _ := runSafely(e, args...)
			status := "ok:"
			if code == -1 {
				status = "crash:"
			} else if code != 0 {
				status = "fail:"
			}
			after := readFile(f)
			prs, _, perrs := parser.NewSerialParser().Parse(after)
			valid := ":v:"
			if perrs != nil {
				valid = ":i:"
			}
			out = append(out, status+hx(after)+valid+hx(showParse(prs, perrs)))
		}
		return strings.Join(out, " ")
	}
}
