#!/usr/bin/env python3
"""seedverify.py <out-dir with patch.diff demo_test.go notes.md> — confirm a seeded change in a scratch worktree:
   applies cleanly, builds, the unedited test suite passes with it, the demonstration fails with it and passes without it."""
import sys, os, subprocess, shutil, tempfile, re, json
d = os.path.abspath(sys.argv[1])
env = dict(os.environ, GOFLAGS="-mod=mod", GOPROXY="off")
base = tempfile.mkdtemp(prefix="seedverify-", dir="/tmp"); wt = os.path.join(base, "repo")
def run(cmd, **kw):
    return subprocess.run(cmd, stdout=subprocess.PIPE, stderr=subprocess.STDOUT, text=True, errors="replace", env=env, **kw)
subprocess.run(["git", "-C", "/repo", "worktree", "add", "-q", "--detach", wt, "HEAD"], check=True)
res = {}
try:
    demo = open(os.path.join(d, "demo_test.go")).read()
    m = re.search(r"//\s*path:\s*(\S+)", demo)
    path = m.group(1) if m else None
    res["demo_path"] = path
    tgt = os.path.join(wt, path)
    pkg = "./" + os.path.dirname(path) + "/"
    test = re.search(r"func (Test\w+)\(", demo).group(1)
    # without the change
    shutil.copy(os.path.join(d, "demo_test.go"), tgt)
    r = run(["go", "test", "-vet=off", "-count=1", "-run", "^" + test + "$", pkg], cwd=wt)
    res["demo_passes_without"] = r.returncode == 0
    os.remove(tgt)
    # with the change
    r = run(["git", "apply", "--whitespace=nowarn", os.path.join(d, "patch.diff")], cwd=wt)
    res["applies"] = r.returncode == 0
    r = run(["go", "build", "./..."], cwd=wt); res["builds"] = r.returncode == 0
    r = run(["go", "test", "-vet=off", "-count=1", "./..."], cwd=wt)
    res["suite_passes_with"] = r.returncode == 0 and "FAIL" not in r.stdout
    shutil.copy(os.path.join(d, "demo_test.go"), tgt)
    r = run(["go", "test", "-vet=off", "-count=1", "-run", "^" + test + "$", pkg], cwd=wt)
    res["demo_fails_with"] = r.returncode != 0
    res["ok"] = all(res[k] for k in ("demo_passes_without", "applies", "builds", "suite_passes_with", "demo_fails_with"))
finally:
    subprocess.run(["git", "-C", "/repo", "worktree", "remove", "--force", wt])
    shutil.rmtree(base, ignore_errors=True)
print(json.dumps(res))
