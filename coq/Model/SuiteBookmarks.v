(* Suite "bookmarks" (C19) and the JSON codec requests shared with C20: requests evaluated by the model
   for the correspondence check.

   json-str <hex>            Go string -> literal written by the encoder -> decoded again
   json-parse <hex>          JSON text -> token stream (or err)
   json-print <hex>          JSON text -> parsed -> Encoder output, compact and indented (or err)
   bm-path <hex>             filepath.Clean / IsAbs / Dir / Base and the hypotheses about Abs
   bm-tojson <n> <p> ...     collection built by Set(NewBookmark(n, p)) -> ToJson
   bm-fromjson <hex>         NewBookmarksCollectionFromJson
   bm-history <T> <target>*T <op>*   a history of klog command lines on a scratch configuration folder
     target  <relpathhex>:<v|i|m>      file below the working directory: valid klog file / invalid / missing;
                                        the i-th target (from 0) holds one record of 3^i minutes
     op      s:<pathhex>:<a|r>:<f|n>:<0|1>:<namehex>   bookmarks set [--force] PATH [NAME] (a = absolute path)
             u:<namehex>  c  l  i:<p|d|f>:<namehex>     unset / clear --yes / list / info
             r(:<n|a><hex>)*                            klog total ARGS (n = as is, a = made absolute)
   The scratch directory is written /S; the working directory is /S/w. *)
From Klog Require Import Base.Prelude Base.Utf8 Model.Show Model.Json Model.Bookmarks.
Open Scope N_scope.

Definition hx (s : bytes) : bytes := match s with [] => [45] | _ => hex_of_bytes s end.

(* ---------- JSON ---------- *)

Definition show_bytes_outcome (x : outcome bytes) : bytes :=
  match x with
  | Ok d => b!"ok " ++ hx d
  | Err _ => b!"err"
  | Crash _ => b!"crash"
  end.

Fixpoint json_tokens (v : json) : list bytes :=
  match v with
  | JNull => [b!"null"]
  | JBool true => [b!"true"]
  | JBool false => [b!"false"]
  | JNum z => [110 :: dec z]
  | JRaw l => [110 :: l]
  | JStr s => [115 :: hx s]
  | JArr l => [[91]] ++ flat_map json_tokens l ++ [[93]]
  | JObj l => [[123]] ++ flat_map (fun kx => (115 :: hx (fst kx)) :: json_tokens (snd kx)) l ++ [[125]]
  end.

(* ---------- paths ---------- *)

Definition cwd : bytes := b!"/S/w".
Definition the_abs : bytes -> bytes := unix_abs cwd.

(* ---------- histories ---------- *)

Record target := { tg_path : bytes; tg_status : fstatus; tg_minutes : N }.

Fixpoint parse_targets (toks : list bytes) (i : nat) : list target :=
  match toks with
  | [] => []
  | t :: r =>
    match split_on 58 t [] with
    | [p; st] =>
      {| tg_path := the_abs (arg_bytes p);
         tg_status := (if bytes_eqb st b!"v" then FValid else if bytes_eqb st b!"i" then FInvalid else FMissing);
         tg_minutes := 3 ^ N.of_nat i |} :: parse_targets r (S i)
    | _ => parse_targets r (S i)
    end
  end.

Fixpoint find_target (ts : list target) (p : bytes) : option target :=
  match ts with
  | [] => None
  | t :: r => if bytes_eqb (tg_path t) p then Some t else find_target r p
  end.

Definition the_fstat (ts : list target) (p : bytes) : fstatus :=
  match find_target ts p with Some t => tg_status t | None => FMissing end.

Definition argv_path (mode rel : bytes) : bytes :=
  kong_arg (if bytes_eqb mode b!"a" then cwd ++ [47] ++ rel else rel).

Definition parse_resolve_arg (t : bytes) : bytes :=
  match t with
  | k :: h => argv_path [k] (arg_bytes h)
  | [] => []
  end.

Definition parse_op (t : bytes) : option op :=
  match split_on 58 t [] with
  | [[115]; p; mode; force; _; name] =>
    Some (OpSet (argv_path mode (arg_bytes p)) (kong_arg (arg_bytes name)) (bytes_eqb force b!"f"))
  | [[117]; name] => Some (OpUnset (kong_arg (arg_bytes name)))
  | [[99]] => Some OpClear
  | [[108]] => Some OpList
  | [[105]; k; name] =>
    Some (OpInfo (kong_arg (arg_bytes name))
                 (if bytes_eqb k b!"d" then IDir else if bytes_eqb k b!"f" then IFile else IPath))
  | [114] :: args => Some (OpResolve (map parse_resolve_arg args))
  | _ => None
  end.

Fixpoint parse_ops (toks : list bytes) : list op :=
  match toks with
  | [] => []
  | t :: r => match parse_op t with Some o => o :: parse_ops r | None => parse_ops r end
  end.

(* the database file as an independent reader sees it: name=path pairs ordered by name *)
Definition db_view (file : bytes) : bytes :=
  match file with
  | [] => [45]
  | _ =>
    match parse_json file with
    | Ok (JArr l) =>
      match decode_entries l with
      | Some es =>
        let pairs := flat_map (fun e => match re_name e, re_path e with
                                         | Some n, Some p => [(n, p)]
                                         | _, _ => [(b!"?", b!"?")]
                                         end) es in
        match pairs with
        | [] => [45]
        | _ => join [44] (map (fun np => hx (fst np) ++ [61] ++ hx (snd np)) (all pairs))
        end
      | None => [33]
      end
    | _ => [33]
    end
  end.

Definition total_minutes (ts : list target) (stdout : bytes) : N :=
  (* stdout of the model's resolve = the resolved files, each followed by NUL *)
  fold_left (fun acc p => match find_target ts p with Some t => acc + tg_minutes t | None => acc end)
            (filter (fun l => negb (bytes_eqb l [])) (split_on 0 stdout [])) 0.

Definition show_step (ts : list target) (o : op) (sr : bytes * reply) : bytes :=
  let view := db_view (fst sr) in
  match snd sr with
  | ROk out =>
    match o with
    | OpResolve _ => b!"0:" ++ dec (Z.of_N (total_minutes ts out)) ++ [58] ++ view
    | _ => b!"0:" ++ hx out ++ [58] ++ view
    end
  | RFail (EOther n) => dec (Z.of_N n) ++ b!":-:" ++ view
  | RFail _ => b!"?:-:" ++ view
  | RPanic => b!"crash:-:" ++ view
  end.

Definition run_bm_history (args : list bytes) : bytes :=
  match args with
  | nt :: rest =>
    let n := Z.to_nat (parse_int nt) in
    let ts := parse_targets (firstn n rest) 0 in
    let ops := parse_ops (skipn n rest) in
    let tr := run_history the_abs (the_fstat ts) unix_dir unix_base ops [] in
    words (map (fun x => show_step ts (fst x) (snd x)) (combine ops tr))
  | [] => b!"?"
  end.

Fixpoint build_coll (args : list bytes) (c : coll) : coll :=
  match args with
  | n :: p :: r => build_coll r (set (new_name (arg_bytes n)) (arg_bytes p) c)
  | _ => c
  end.

Definition show_coll (c : coll) : bytes :=
  match c with
  | [] => [45]
  | _ => join [44] (map (fun np => hx (fst np) ++ [61] ++ hx (snd np)) (all c))
  end.

Definition suite_bookmarks (cmd : bytes) (args : list bytes) : option bytes :=
  if bytes_eqb cmd b!"json-str" then
    match args with
    | [s] => let e := encode_string (arg_bytes s) in
             Some (words [hx e; show_bytes_outcome (decode_string e)])
    | _ => None
    end
  else if bytes_eqb cmd b!"json-parse" then
    match args with
    | [s] => Some (match parse_json (arg_bytes s) with
                   | Ok v => words (b!"ok" :: json_tokens v)
                   | Err _ => b!"err"
                   | Crash _ => b!"crash"
                   end)
    | _ => None
    end
  else if bytes_eqb cmd b!"json-print" then
    match args with
    | [s] => Some (match parse_json (arg_bytes s) with
                   | Ok v => words [b!"ok"; hx (encoder_output false v); hx (encoder_output true v)]
                   | Err _ => b!"err"
                   | Crash _ => b!"crash"
                   end)
    | _ => None
    end
  else if bytes_eqb cmd b!"bm-path" then
    match args with
    | [s] => let p := arg_bytes s in
             let a := the_abs p in
             Some (words [hx (unix_clean p); show_bool (is_abs p); hx (unix_dir p); hx (unix_base p);
                          hx a; show_bool (is_abs a); show_bool (bytes_eqb (the_abs a) a);
                          show_bool (negb (valid_utf8b p) || valid_utf8b a)])
    | _ => None
    end
  else if bytes_eqb cmd b!"bm-tojson" then
    Some (hx (to_json (build_coll args [])))
  else if bytes_eqb cmd b!"bm-fromjson" then
    match args with
    | [s] => Some (match from_json the_abs (arg_bytes s) with
                   | Ok c => b!"ok " ++ show_coll c
                   | Err _ => b!"err"
                   | Crash _ => b!"crash"
                   end)
    | _ => None
    end
  else if bytes_eqb cmd b!"bm-history" then Some (run_bm_history args)
  else None.
