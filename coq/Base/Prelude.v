(* Prelude: outcomes (Go panics are explicit), byte strings, decimal printing/parsing.
   Definitions only, plus the handful of basic lemmas every other file needs. *)
From Coq Require Export List ZArith NArith Bool Lia Ascii String.
Export ListNotations.
Open Scope Z_scope.
Notation length := List.length (only parsing).

(* ---------- outcomes ---------- *)

(* error codes: a small enum shared by model and harness *)
Inductive error :=
| EMalformedTime | EInvalidTime | EMalformedDuration | EUnrepresentableDuration
| EMalformedDate | EUnrepresentableDate | EIllegalRange | EImpossibleOperation
| EOther (code : N).

Inductive crash :=
| CIntegerOverflow | CAtoiRange | CIndexOutOfRange | CNilDeref | CUnrepresentableDate
| COutOfFuel | CNegativeRepeat | CExplicitPanic.

Inductive outcome (A : Type) :=
| Ok (a : A)
| Err (e : error)
| Crash (c : crash).
Arguments Ok {A} a.
Arguments Err {A} e.
Arguments Crash {A} c.

Definition bind {A B} (x : outcome A) (f : A -> outcome B) : outcome B :=
  match x with Ok a => f a | Err e => Err e | Crash c => Crash c end.
Notation "'let*' x ':=' e 'in' k" := (bind e (fun x => k))
  (at level 200, x pattern, e at level 100, k at level 200, right associativity).

Definition is_ok {A} (x : outcome A) : bool := match x with Ok _ => true | _ => false end.
Definition is_crash {A} (x : outcome A) : bool := match x with Crash _ => true | _ => false end.

(* ---------- byte strings ---------- *)

Definition bytes := list N.

Fixpoint bytes_of_string (s : string) : bytes :=
  match s with
  | EmptyString => []
  | String a r => N_of_ascii a :: bytes_of_string r
  end.
Notation "'b!' s" := (bytes_of_string s%string) (at level 0, s at level 0).

Fixpoint bytes_eqb (a b : bytes) : bool :=
  match a, b with
  | [], [] => true
  | x :: a', y :: b' => N.eqb x y && bytes_eqb a' b'
  | _, _ => false
  end.

Lemma bytes_eqb_eq a b : bytes_eqb a b = true <-> a = b.
Proof.
  revert b; induction a as [|x a IH]; intros [|y b]; simpl; split; intro H; try congruence; try reflexivity.
  - apply andb_true_iff in H as [H1 H2]. apply N.eqb_eq in H1. apply IH in H2. congruence.
  - inversion H; subst. rewrite N.eqb_refl. simpl. apply IH. reflexivity.
Qed.

Fixpoint has_prefix (p s : bytes) : bool :=
  match p, s with
  | [], _ => true
  | x :: p', y :: s' => N.eqb x y && has_prefix p' s'
  | _ :: _, [] => false
  end.

Lemma has_prefix_spec p s : has_prefix p s = true <-> exists r, s = p ++ r.
Proof.
  revert s; induction p as [|x p IH]; intros s; simpl.
  - split; [intros _; exists s; reflexivity | reflexivity].
  - destruct s as [|y s]; [split; [discriminate | intros [r Hr]; discriminate]|].
    rewrite andb_true_iff, N.eqb_eq, IH. split.
    + intros [-> [r ->]]. exists r. reflexivity.
    + intros [r Hr]. inversion Hr; subst. split; [reflexivity | exists r; reflexivity].
Qed.

Fixpoint repeat_bytes (s : bytes) (n : nat) : bytes :=
  match n with O => [] | S k => s ++ repeat_bytes s k end.

(* ---------- digits ---------- *)

Definition is_digit (c : N) : bool := (48 <=? c)%N && (c <=? 57)%N.
Definition digit_val (c : N) : Z := Z.of_N c - 48.

(* value of a digit string (no validation), most significant first *)
Definition digits_val (ds : bytes) : Z :=
  fold_left (fun acc c => acc * 10 + digit_val c) ds 0.

Definition digit_char (d : Z) : N := Z.to_N (d + 48).

(* decimal rendering of a non-negative integer, fuel = number of digits bound *)
Fixpoint dec_fuel (fuel : nat) (z : Z) (acc : bytes) : bytes :=
  match fuel with
  | O => acc
  | S k => let acc' := digit_char (z mod 10) :: acc in
           if z <? 10 then acc' else dec_fuel k (z / 10) acc'
  end.

(* enough fuel for any number: one digit per bit *)
Definition dec_nonneg (z : Z) : bytes := dec_fuel (S (Z.to_nat (Z.log2 z))) z [].

Definition dec (z : Z) : bytes :=
  if z <? 0 then 45%N :: dec_nonneg (- z) else dec_nonneg z.

(* zero-padded to at least w digits (Go's %0wd for non-negative values) *)
Definition pad_left (w : nat) (s : bytes) : bytes :=
  repeat 48%N (w - length s) ++ s.

Definition all_digits (s : bytes) : bool := forallb is_digit s.

(* int64 range as Go's int on amd64 *)
Definition max_int64 : Z := 9223372036854775807.
Definition min_int64 : Z := -9223372036854775808.
Definition in_int64 (z : Z) : bool := (min_int64 <=? z) && (z <=? max_int64).

(* strconv.Atoi on an all-digit non-empty string: error iff out of int64 range *)
Definition atoi_digits (ds : bytes) : option Z :=
  let v := digits_val ds in if v <=? max_int64 then Some v else None.

(* safemath: operands and results within [-(2^63-1), 2^63-1] *)
Definition sm_min : Z := - max_int64.
Definition sm_ok (z : Z) : bool := (sm_min <=? z) && (z <=? max_int64).
Definition add64 (a b : Z) : option Z :=
  if sm_ok a && sm_ok b && sm_ok (a + b) then Some (a + b) else None.
Definition mul64 (a b : Z) : option Z :=
  if sm_ok a && sm_ok b && ((b =? 0) || (Z.abs a <=? max_int64 / Z.abs b)) then Some (a * b) else None.

(* Go's truncated division / remainder *)
Definition go_div (a b : Z) : Z := Z.quot a b.
Definition go_mod (a b : Z) : Z := Z.rem a b.

(* ---------- list helpers ---------- *)

Fixpoint span {A} (p : A -> bool) (l : list A) : list A * list A :=
  match l with
  | [] => ([], [])
  | x :: r => if p x then let '(a, b) := span p r in (x :: a, b) else ([], l)
  end.

Lemma span_app {A} (p : A -> bool) l : fst (span p l) ++ snd (span p l) = l.
Proof.
  induction l as [|x r IH]; simpl; [reflexivity|].
  destruct (p x); [|reflexivity]. destruct (span p r); simpl in *. congruence.
Qed.

Fixpoint join (sep : bytes) (l : list bytes) : bytes :=
  match l with
  | [] => []
  | [x] => x
  | x :: r => x ++ sep ++ join sep r
  end.

Definition hex_digit (n : N) : N := if (n <? 10)%N then (n + 48)%N else (n + 87)%N.
(* the empty string is printed as "-" so that every field of a result line is a non-empty token *)
Definition hex_of_bytes (s : bytes) : bytes :=
  match s with
  | [] => [45%N]
  | _ => flat_map (fun c => [hex_digit (c / 16)%N; hex_digit (c mod 16)%N]) s
  end.
Definition hex_val (c : N) : N :=
  if is_digit c then (c - 48)%N else if (97 <=? c)%N then (c - 87)%N else (c - 55)%N.
Fixpoint bytes_of_hex (s : bytes) : bytes :=
  match s with
  | a :: b :: r => (hex_val a * 16 + hex_val b)%N :: bytes_of_hex r
  | _ => []
  end.
