module verifharness

go 1.24

require github.com/jotaen/klog v0.0.0

require (
	cloud.google.com/go v0.118.2 // indirect
	github.com/alecthomas/kong v1.8.0 // indirect
	github.com/hashicorp/errwrap v1.1.0 // indirect
	github.com/hashicorp/go-multierror v1.1.1 // indirect
	github.com/jotaen/genie v0.0.1 // indirect
	github.com/jotaen/kong-completion v0.0.6 // indirect
	github.com/jotaen/safemath v0.0.1 // indirect
	github.com/kballard/go-shellquote v0.0.0-20180428030007-95032a82bc51 // indirect
	github.com/posener/complete v1.2.3 // indirect
	github.com/riywo/loginshell v0.0.0-20200815045211-7d26008be1ab // indirect
)

replace github.com/jotaen/klog => /repo
