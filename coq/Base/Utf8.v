(* Utf8: Go's UTF-8 decoding and encoding (unicode/utf8, `for range s`, []rune(s), string([]rune)).
   An invalid byte decodes to U+FFFD with width 1. Definitions only. *)
From Klog Require Import Base.Prelude.
Open Scope N_scope.

Definition rune_error : N := 65533. (* U+FFFD *)

Definition is_cont (b : N) : bool := (128 <=? b) && (b <=? 191).
Definition in_range (lo hi b : N) : bool := (lo <=? b) && (b <=? hi).

(* utf8.DecodeRuneInString: (rune, width); width 0 only for the empty string *)
Definition decode_rune (s : bytes) : N * nat :=
  match s with
  | [] => (rune_error, 0%nat)
  | b0 :: r =>
    if b0 <? 128 then (b0, 1%nat)
    else if b0 <? 194 then (rune_error, 1%nat)                     (* 80..C1: continuation or overlong lead *)
    else if b0 <? 224 then                                          (* C2..DF: 2 bytes *)
      match r with
      | b1 :: _ => if is_cont b1 then ((b0 - 192) * 64 + (b1 - 128), 2%nat) else (rune_error, 1%nat)
      | _ => (rune_error, 1%nat)
      end
    else if b0 <? 240 then                                          (* E0..EF: 3 bytes *)
      match r with
      | b1 :: b2 :: _ =>
        let lo := if b0 =? 224 then 160 else 128 in
        let hi := if b0 =? 237 then 159 else 191 in
        if in_range lo hi b1 && is_cont b2
        then ((b0 - 224) * 4096 + (b1 - 128) * 64 + (b2 - 128), 3%nat) else (rune_error, 1%nat)
      | _ => (rune_error, 1%nat)
      end
    else if b0 <? 245 then                                          (* F0..F4: 4 bytes *)
      match r with
      | b1 :: b2 :: b3 :: _ =>
        let lo := if b0 =? 240 then 144 else 128 in
        let hi := if b0 =? 244 then 143 else 191 in
        if in_range lo hi b1 && is_cont b2 && is_cont b3
        then ((b0 - 240) * 262144 + (b1 - 128) * 4096 + (b2 - 128) * 64 + (b3 - 128), 4%nat)
        else (rune_error, 1%nat)
      | _ => (rune_error, 1%nat)
      end
    else (rune_error, 1%nat)
  end.

(* []rune(s) with the width of every rune; fuel = length s *)
Fixpoint decode_fuel (fuel : nat) (s : bytes) : list (N * nat) :=
  match fuel with
  | O => []
  | S k =>
    match s with
    | [] => []
    | _ => let '(r, w) := decode_rune s in (r, w) :: decode_fuel k (skipn w s)
    end
  end.

Definition decode_widths (s : bytes) : list (N * nat) := decode_fuel (length s) s.
Definition utf8_decode (s : bytes) : list N := map fst (decode_widths s).

(* string(rune) *)
Definition encode_rune (r : N) : bytes :=
  if r <? 128 then [r]
  else if r <? 2048 then [192 + r / 64; 128 + r mod 64]
  else if ((55296 <=? r) && (r <=? 57343)) || (1114111 <? r) then [239; 191; 189]
  else if r <? 65536 then [224 + r / 4096; 128 + (r / 64) mod 64; 128 + r mod 64]
  else [240 + r / 262144; 128 + (r / 4096) mod 64; 128 + (r / 64) mod 64; 128 + r mod 64].

Definition utf8_encode (rs : list N) : bytes := flat_map encode_rune rs.

(* utf8.RuneStart *)
Definition rune_start (b : N) : bool := negb (is_cont b).

(* the text ends in a byte that decodes as an error of width 1 (an invalid or truncated sequence) *)
Definition ends_in_invalid (s : bytes) : bool :=
  match rev (decode_widths s) with
  | (r, w) :: _ => (r =? rune_error) && Nat.eqb w 1
  | [] => false
  end.

Definition bytes_ok (s : bytes) : Prop := Forall (fun b => b < 256) s.
