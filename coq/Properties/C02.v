(* C02 — total, should-total and diff follow the specification's evaluation rules.
   Property theorems only; each is closed by [exact <lemma>] and followed by Print Assumptions.
   Model: Model/Eval.v (service.Total / ShouldTotalSum / Diff / CloseOpenRanges), all additions through
   safemath as in the Go code; definitions used in the statements (spec_minutes, no_overflow, close_rel, ...) are
   in Proofs/Eval.v.
   Not here: total_of_text (composition with the parser, C01). *)
From Klog Require Import Base.Prelude Model.Calendar Model.Values Model.Record Model.Eval Proofs.Values Proofs.Eval.
From Coq Require Import Permutation.
Open Scope Z_scope.

(* 0. a shifted time is an offset from midnight of the record's day: `<` = previous day, `>` = next day *)
Theorem C02_offset_spec : forall t : time,
  time_offset t = 1440 * shift_of t + 60 * t_hour t + t_min t.
Proof. exact offset_spec. Qed.
Print Assumptions C02_offset_spec.

(* 1. what one entry counts: the signed duration; for a range end - start as offsets; 0 for an open range *)
Theorem C02_spec_minutes : forall e : entry,
  entry_minutes e =
  match e_value e with
  | VDuration d => d_mins d
  | VRange r => (1440 * shift_of (r_end r) + 60 * t_hour (r_end r) + t_min (r_end r))
              - (1440 * shift_of (r_start r) + 60 * t_hour (r_start r) + t_min (r_start r))
  | VOpen _ => 0
  end.
Proof. exact entry_minutes_spec. Qed.
Print Assumptions C02_spec_minutes.

(* 2. the total is the sum of all entries of all records — exactly when every summand and every partial sum
      (in the order the Go code adds them) stays within safemath's range [-(2^63-1), 2^63-1]; otherwise the Go
      code panics with "Integer overflow" (known finding K1). Nothing else can happen. *)
Theorem C02_total_spec : forall rs : list record,
  (sums_fit 0 (map spec_minutes (all_entries rs)) /\
     total rs = Ok (zsum (map spec_minutes (all_entries rs)))) \/
  (~ sums_fit 0 (map spec_minutes (all_entries rs)) /\ total rs = Crash CIntegerOverflow).
Proof. exact total_dichotomy. Qed.
Print Assumptions C02_total_spec.

(* the guard in closed form: every summand fits and every prefix sum fits *)
Theorem C02_no_overflow_closed : forall rs : list record,
  no_overflow rs <->
  (Forall fits (map spec_minutes (all_entries rs)) /\
   forall k : nat, fits (zsum (firstn k (map spec_minutes (all_entries rs))))).
Proof. exact no_overflow_closed. Qed.
Print Assumptions C02_no_overflow_closed.

Theorem C02_total_crash_iff : forall rs : list record,
  (exists c, total rs = Crash c) <-> ~ no_overflow rs.
Proof. exact total_crash_iff. Qed.
Print Assumptions C02_total_crash_iff.

(* the unguarded statement "total = sum" is false of the code: two entries of 9223372036854775807m, each of which
   is representable, make service.Total panic (K1) *)
Theorem C02_total_overflow_refuted :
  exists rs, Forall fits (map spec_minutes (all_entries rs)) /\
             total rs <> Ok (spec_total rs) /\ exists c, total rs = Crash c.
Proof. exact total_overflow_refuted. Qed.
Print Assumptions C02_total_overflow_refuted.

(* 3. corollaries under the guard *)

(* additivity over concatenation of record lists *)
Theorem C02_total_app : forall a b : list record, no_overflow (a ++ b) ->
  total (a ++ b) = Ok (spec_total a + spec_total b) /\ total a = Ok (spec_total a).
Proof. exact total_app. Qed.
Print Assumptions C02_total_app.

Theorem C02_total_additive : forall a b : list record, abs_fit (a ++ b) ->
  exists ta tb, total a = Ok ta /\ total b = Ok tb /\ total (a ++ b) = Ok (ta + tb).
Proof. exact total_additive. Qed.
Print Assumptions C02_total_additive.

(* invariance under permutation of the records (order-independent guard: the absolute values sum to <= 2^63-1) *)
Theorem C02_total_perm : forall a b : list record, Permutation a b ->
  zsum (map Z.abs (map spec_minutes (all_entries a))) <= 9223372036854775807 ->
  total b = total a /\ total a = Ok (spec_total a).
Proof. exact total_perm. Qed.
Print Assumptions C02_total_perm.

(* overlapping ranges count fully: two ranges in one record count with their full lengths whatever their position *)
Theorem C02_overlapping_ranges_count_fully : forall d sh sm (r1 r2 : range) s1 s2,
  valid_time (r_start r1) -> valid_time (r_end r1) -> valid_time (r_start r2) -> valid_time (r_end r2) ->
  total [{| rec_date := d; rec_should := sh; rec_summary := sm;
            rec_entries := [{| e_value := VRange r1; e_summary := s1 |}; {| e_value := VRange r2; e_summary := s2 |}] |}]
  = Ok ((spec_offset (r_end r1) - spec_offset (r_start r1)) + (spec_offset (r_end r2) - spec_offset (r_start r2))).
Proof. exact overlapping_ranges_count_fully. Qed.
Print Assumptions C02_overlapping_ranges_count_fully.

(* records that share a date stay separate: both count; and the total never looks at dates at all *)
Theorem C02_same_date_separate : forall r1 r2 : record, rec_date r1 = rec_date r2 -> no_overflow [r1; r2] ->
  total [r1; r2] = Ok (spec_total [r1] + spec_total [r2]).
Proof. exact same_date_separate. Qed.
Print Assumptions C02_same_date_separate.

Theorem C02_total_ignores_dates : forall a b : list record,
  map rec_entries a = map rec_entries b -> total a = total b.
Proof. exact total_ignores_dates. Qed.
Print Assumptions C02_total_ignores_dates.

(* the should-total is the sum of the records' should-totals (0 where none is set), same guard, same panic *)
Theorem C02_should_total_spec : forall rs : list record,
  (sums_fit 0 (map should_minutes rs) /\ should_total_sum rs = Ok (zsum (map should_minutes rs))) \/
  (~ sums_fit 0 (map should_minutes rs) /\ should_total_sum rs = Crash CIntegerOverflow).
Proof. exact should_total_spec. Qed.
Print Assumptions C02_should_total_spec.

Theorem C02_should_total_perm : forall a b : list record, Permutation a b ->
  abs_sum (map should_minutes a) <= 9223372036854775807 ->
  should_total_sum b = should_total_sum a /\ should_total_sum a = Ok (spec_should a).
Proof. exact should_total_perm. Qed.
Print Assumptions C02_should_total_perm.

(* the diff is total minus should-total *)
Theorem C02_diff_spec : forall sh t : Z,
  (fits t /\ fits sh /\ fits (t - sh) -> diff sh t = Ok (t - sh)) /\
  (~ (fits t /\ fits sh /\ fits (t - sh)) -> diff sh t = Crash CIntegerOverflow).
Proof. exact diff_spec. Qed.
Print Assumptions C02_diff_spec.

Theorem C02_total_should_diff : forall rs : list record,
  no_overflow rs -> should_no_overflow rs -> fits (spec_total rs - spec_should rs) ->
  exists t sh, total rs = Ok t /\ should_total_sum rs = Ok sh /\ diff sh t = Ok (t - sh) /\
               t = spec_total rs /\ sh = spec_should rs.
Proof. exact total_should_diff. Qed.
Print Assumptions C02_total_should_diff.

(* 4. --now: closing open ranges at the instant (today, h:m). [close_rel] says: a record without an open range is
      unchanged; otherwise its FIRST open range (start s) becomes the range s - h:m when the record is dated today,
      s - h:m> (offset 60h+m+1440) when it is dated the day before, provided s is not after that end.
      The call succeeds with exactly those records, or fails with "uncloseable" exactly when some record with an
      open range is dated neither today nor the day before or starts after the end; it never panics
      (given a clock reading 0:00..23:59 and today > 0000-01-01). *)
Theorem C02_close_open_ranges_spec : forall today before h m rs,
  valid_clock h m -> plus_days today (-1) = Ok before ->
  (forall rs', close_open_ranges today h m rs = Ok rs' <-> Forall2 (close_rel today before h m) rs rs') /\
  ((exists e, close_open_ranges today h m rs = Err e) <-> Exists (uncloseable today before h m) rs) /\
  (forall e, close_open_ranges today h m rs = Err e -> e = EUncloseable) /\
  (forall c, close_open_ranges today h m rs <> Crash c).
Proof. exact close_open_ranges_spec. Qed.
Print Assumptions C02_close_open_ranges_spec.

(* in particular a record without an open range comes back unchanged *)
Theorem C02_close_rel_unchanged : forall today before h m r r',
  close_rel today before h m r r' -> no_open (rec_entries r) -> r' = r.
Proof. exact close_rel_unchanged. Qed.
Print Assumptions C02_close_rel_unchanged.

(* the hypothesis that today has a day before is needed: with the clock at 0000-01-01, Date.PlusDays(-1) panics in
   CloseOpenRanges whatever the records are (klog's dates are 0000-01-01 .. 9999-12-31) *)
Theorem C02_close_first_day_refuted :
  exists today h m rs, valid_clock h m /\ exists c, close_open_ranges today h m rs = Crash c.
Proof. exact close_first_day_refuted. Qed.
Print Assumptions C02_close_first_day_refuted.

(* the total after closing = the total before + for every record with an open range (end - offset of its start) *)
Theorem C02_total_now_spec : forall today before h m rs rs',
  valid_clock h m -> plus_days today (-1) = Ok before ->
  close_open_ranges today h m rs = Ok rs' -> no_overflow rs' ->
  total rs' = Ok (spec_total rs + zsum (map (closing_gain today h m) rs)) /\
  (forall t, total rs = Ok t -> total rs' = Ok (t + zsum (map (closing_gain today h m) rs))).
Proof. exact total_now_spec. Qed.
Print Assumptions C02_total_now_spec.

(* with at most one open range per record (what the parser guarantees) no open range is left: every open range is
   evaluated as closed at the instant *)
Theorem C02_close_leaves_no_open : forall today before h m rs rs',
  Forall2 (close_rel today before h m) rs rs' -> Forall at_most_one_open rs ->
  Forall (fun r' => no_open (rec_entries r')) rs'.
Proof. exact close_leaves_no_open. Qed.
Print Assumptions C02_close_leaves_no_open.

(* ---- non-vacuity ---- *)
(* ex_records: 2020-01-01 (should 8h) with 30m and 8:00-?; 2019-12-31 with 23:00-? and -15m; 2019-12-31 (should -1h)
   with 45m. Guards hold; total 60, should 420, diff -360. Closed at 2020-01-01 9:30: gains 90 and 630, total 780.
   Closed at 7:59 the first record is uncloseable. *)
Example C02_nonvacuous :
  no_overflow ex_records /\ abs_fit ex_records /\ should_no_overflow ex_records /\
  Forall at_most_one_open ex_records /\
  total ex_records = Ok 60 /\ should_total_sum ex_records = Ok 420 /\ diff 420 60 = Ok (-360) /\
  plus_days ex_today (-1) = Ok ex_before /\ valid_clock 9 30 /\
  (exists rs', close_open_ranges ex_today 9 30 ex_records = Ok rs' /\ no_overflow rs' /\ total rs' = Ok 780) /\
  map (closing_gain ex_today 9 30) ex_records = [90; 630; 0] /\
  close_open_ranges ex_today 7 59 ex_records = Err EUncloseable.
Proof.
  split; [apply abs_fit_no_overflow; vm_compute; discriminate|].
  split; [vm_compute; discriminate|].
  split; [apply abs_sums_fit; vm_compute; discriminate|].
  split.
  { repeat constructor; intros pre e o post H; destruct (first_open_inv _ _ _ _ _ H) as (Heq & Hpre & He).
    - destruct pre as [|x [|y pre]]; cbn in Heq; try discriminate.
      + injection Heq as <- _. discriminate He.
      + injection Heq as _ _ <-. constructor.
      + injection Heq as _ _ Heq. destruct pre; discriminate.
    - destruct pre as [|x pre]; cbn in Heq.
      + injection Heq as _ <-. repeat constructor.
      + injection Heq as <- Heq. inversion Hpre as [|? ? Hx _]. discriminate Hx.
    - destruct pre as [|x [|y pre]]; cbn in Heq; try discriminate.
      injection Heq as <- _. discriminate He. }
  split; [vm_compute; reflexivity|]. split; [vm_compute; reflexivity|]. split; [vm_compute; reflexivity|].
  split; [vm_compute; reflexivity|]. split; [unfold valid_clock; lia|].
  split; [eexists; split; [vm_compute; reflexivity|split; [apply abs_fit_no_overflow; vm_compute; discriminate|vm_compute; reflexivity]]|].
  split; vm_compute; reflexivity.
Qed.
