(* Tags: klog's tag recognition, tag sets and per-tag totals
   (klog/tag.go, klog/summary.go Tags(), klog/service/tags.go, klog/service/query.go isSubsetOf).
   Definitions only.

   Text is bytes; Go's regexp engine, strings.ToLower and `range` see it as runes decoded with
   utf8.DecodeRuneInString (an invalid byte is U+FFFD of width 1). A *symbol* is a decoded rune together
   with the bytes it was decoded from, so that sub-matches can be cut out of the original string exactly
   as Go does (byte offsets), including invalid bytes inside quoted values.

   The regular expression
       HashTagPattern = # NAME+ ( = ( D [^D]* D | ' [^']* ' | NAME* ) )?    with NAME = [\p{L}\d_-], D = the double quote
   is re-implemented as a hand-written matcher with Go's leftmost-first semantics; it is generic in the
   symbol type [A] (with [code : A -> N] giving the rune) and in [is_letter], the meaning of \p{L}. *)
From Klog Require Import Base.Prelude Base.Utf8 Model.Calendar Model.Values Model.Record Gen.UnicodeTables.
Open Scope N_scope.

(* ---------- table lookups (the generated tables are sorted, see harness/gentables) ---------- *)

Fixpoint in_ranges (l : list (N * N)) (r : N) : bool :=
  match l with
  | [] => false
  | (lo, hi) :: t => if r <? lo then false else if r <=? hi then true else in_ranges t r
  end.

Fixpoint lower_lookup (l : list (N * N * N * N)) (r : N) : N :=
  match l with
  | [] => r
  | (lo, hi, step, tgt) :: t =>
    if r <? lo then r
    else if (r <=? hi) && ((r - lo) mod step =? 0) then tgt + (r - lo)
    else lower_lookup t r
  end.

(* unicode.Is(unicode.L, r) / \p{L}, and unicode.ToLower(r), of the Go toolchain that builds klog *)
Definition go_is_letter (r : N) : bool := in_ranges unicode_L r.
Definition go_to_lower (r : N) : N := lower_lookup unicode_lower r.

Definition ch_hash : N := 35.  Definition ch_eq : N := 61.
Definition ch_dq : N := 34.    Definition ch_sq : N := 39.
Definition ch_us : N := 95.    Definition ch_dash : N := 45.
Definition ch_nl : N := 10.

(* ================= the matcher, generic in the symbol type ================= *)

Section Scanner.
  Variable is_letter : N -> bool.
  Variable A : Type.
  Variable code : A -> N.

  (* [\p{L}\d_-] ; \d is ASCII-only in Go's regexp *)
  Definition name_code (c : N) : bool := is_letter c || is_digit c || (c =? ch_us) || (c =? ch_dash).
  Definition name_char (a : A) : bool := name_code (code a).

  (* one match of HashTagPattern: group 0 (everything), group 1 (name), group 3 (value with its quotes) *)
  Record rmatch := { m_all : list A; m_name : list A; m_val : list A }.

  (* [^q]* q : the symbols before the first symbol with code q, that symbol, and what follows it *)
  Fixpoint until_quote (q : N) (s : list A) : option (list A * A * list A) :=
    match s with
    | [] => None
    | c :: r =>
      if code c =? q then Some ([], c, r)
      else match until_quote q r with
           | Some (body, cl, rest) => Some (c :: body, cl, rest)
           | None => None
           end
    end.

  (* the optional group ( = ( D [^D]* D | ' [^']* ' | NAME* ) )? at [after]:
     (group 2, group 3, remaining input). Leftmost-first: the group is entered whenever '=' follows;
     the quoted alternatives are tried first; the last alternative always succeeds (possibly empty). *)
  Definition match_value (after : list A) : list A * list A * list A :=
    match after with
    | e :: r =>
      if code e =? ch_eq then
        let unquoted := let '(run, rest) := span name_char r in (e :: run, run, rest) in
        match r with
        | q :: r' =>
          if (code q =? ch_dq) || (code q =? ch_sq) then
            match until_quote (code q) r' with
            | Some (body, cl, rest) => (e :: q :: body ++ [cl], q :: body ++ [cl], rest)
            | None => unquoted
            end
          else unquoted
        | [] => unquoted
        end
      else ([], [], after)
    | [] => ([], [], [])
    end.

  (* the pattern anchored at the head of s *)
  Definition match_at (s : list A) : option (rmatch * list A) :=
    match s with
    | h :: r =>
      if code h =? ch_hash then
        let '(name, after) := span name_char r in
        match name with
        | [] => None
        | _ => let '(g2, g3, rest) := match_value after in
               Some ({| m_all := h :: name ++ g2; m_name := name; m_val := g3 |}, rest)
        end
      else None
    | [] => None
    end.

  (* FindStringSubmatch: the leftmost match *)
  Fixpoint find_first (s : list A) : option rmatch :=
    match s with
    | [] => None
    | _ :: r => match match_at s with
                | Some (m, _) => Some m
                | None => find_first r
                end
    end.

  (* FindAllStringSubmatch(s, -1): successive leftmost matches, each search resuming where the previous
     match ended (matches are never empty). Fuel = length of the input. *)
  Fixpoint find_all_fuel (fuel : nat) (s : list A) : list rmatch :=
    match fuel with
    | O => []
    | S k =>
      match s with
      | [] => []
      | _ :: r => match match_at s with
                  | Some (m, rest) => m :: find_all_fuel k rest
                  | None => find_all_fuel k r
                  end
      end
    end.
  Definition find_all (s : list A) : list rmatch := find_all_fuel (length s) s.

  (* strings.Trim(v, q) seen on symbols: drop every leading and trailing symbol with code q *)
  Fixpoint drop_code (q : N) (s : list A) : list A :=
    match s with
    | c :: r => if code c =? q then drop_code q r else s
    | [] => []
    end.
  Definition trim_code (q : N) (s : list A) : list A := rev (drop_code q (rev (drop_code q s))).

  (* the value of a match as NewTagFromString computes it from group 3 *)
  Definition value_syms (v : list A) : list A :=
    match v with
    | c :: _ => if code c =? ch_dq then trim_code ch_dq v
                else if code c =? ch_sq then trim_code ch_sq v
                else v
    | [] => []
    end.

  (* what a match denotes: (tag name as written, tag value) *)
  Definition match_view (m : rmatch) : list A * list A := (m_name m, value_syms (m_val m)).
End Scanner.

Arguments m_all {A} _.
Arguments m_name {A} _.
Arguments m_val {A} _.

(* ================= symbols of a byte string ================= *)

Definition sym := (N * bytes)%type.

Fixpoint syms_fuel (fuel : nat) (s : bytes) : list sym :=
  match fuel with
  | O => []
  | S k =>
    match s with
    | [] => []
    | _ => let '(r, w) := decode_rune s in (r, firstn w s) :: syms_fuel k (skipn w s)
    end
  end.
Definition decode_syms (s : bytes) : list sym := syms_fuel (length s) s.
Definition raw (l : list sym) : bytes := flat_map snd l.

(* ================= tags ================= *)

Record tag := { t_name : bytes; t_value : bytes }.

Definition tag_eqb (a b : tag) : bool := bytes_eqb (t_name a) (t_name b) && bytes_eqb (t_value a) (t_value b).

Definition has_byte (c : N) (s : bytes) : bool := existsb (N.eqb c) s.

(* strings.Trim(s, string(q)) for a single ASCII byte q: a byte string is a list of symbols that are their own code *)
Definition trim_byte (q : N) (s : bytes) : bytes := trim_code N (fun c => c) q s.

(* the closure `value` in NewTagFromString, on group 3 *)
Definition tag_value (v : bytes) : bytes :=
  match v with
  | c :: _ => if c =? ch_dq then trim_byte ch_dq v
              else if c =? ch_sq then trim_byte ch_sq v
              else v
  | [] => []
  end.

Record tagset := { ts_lookup : list tag;     (* the keys of the Go map, in order of first insertion *)
                   ts_original : list tag }.

Record stat := { st_tag : tag; st_total : Z; st_count : Z }.

(* Go string comparison a < b: bytewise lexicographic *)
Fixpoint bytes_ltb (a b : bytes) : bool :=
  match a, b with
  | _, [] => false
  | [], _ :: _ => true
  | x :: a', y :: b' => if x <? y then true else if y <? x then false else bytes_ltb a' b'
  end.

Fixpoint insert_by {X} (lt : X -> X -> bool) (x : X) (l : list X) : list X :=
  match l with
  | [] => [x]
  | y :: r => if lt y x then y :: insert_by lt x r else x :: l
  end.
Definition sort_by {X} (lt : X -> X -> bool) (l : list X) : list X := fold_right (insert_by lt) [] l.

(* keyForSort *)
Definition tag_key (t : tag) : bytes := t_name t ++ [ch_eq] ++ t_value t.
Definition tag_ltb (a b : tag) : bool := bytes_ltb (tag_key a) (tag_key b).
Definition stat_ltb (a b : stat) : bool := tag_ltb (st_tag a) (st_tag b).

Fixpoint fold_o {X Y} (f : Y -> X -> outcome Y) (l : list X) (acc : Y) : outcome Y :=
  match l with
  | [] => Ok acc
  | x :: r => let* acc' := f acc x in fold_o f r acc'
  end.

Section Tags.
  Variable is_letter : N -> bool.
  Variable to_lower : N -> N.

  Notation s_name_char := (name_char is_letter sym fst).
  Notation s_find_all := (find_all is_letter sym fst).
  Notation s_find_first := (find_first is_letter sym fst).

  (* strings.ToLower: per-rune mapping, re-encoded (invalid bytes come out as U+FFFD) *)
  Definition str_to_lower (s : bytes) : bytes := utf8_encode (map to_lower (utf8_decode s)).

  Definition mk_tag (name value : bytes) : tag := {| t_name := str_to_lower name; t_value := value |}.

  (* NewTagOrPanic *)
  Definition new_tag_or_panic (name value : bytes) : outcome tag :=
    if has_byte ch_dq value && has_byte ch_sq value then Crash CExplicitPanic
    else Ok (mk_tag name value).

  (* NewTagFromString; Ok None is the error INVALID_TAG *)
  Definition new_tag_from_string (s : bytes) : outcome (option tag) :=
    let s' := match s with
              | c :: _ => if c =? ch_hash then s else ch_hash :: s
              | [] => [ch_hash]
              end in
    match s_find_first (decode_syms s') with
    | None => Ok None
    | Some m =>
      let name := raw (m_name m) in
      let value := tag_value (raw (m_val m)) in
      if Nat.eqb (length (raw (m_all m))) (length s') then
        let* t := new_tag_or_panic name value in Ok (Some t)
      else Ok None
    end.

  (* unquotedValuePattern ^[\p{L}\d_-]+$ *)
  Definition unquoted_ok (v : bytes) : bool :=
    match decode_syms v with
    | [] => false
    | l => forallb s_name_char l
    end.

  (* Tag.ToString *)
  Definition tag_to_string (t : tag) : bytes :=
    ch_hash :: t_name t ++
    match t_value t with
    | [] => []
    | v => let q := if unquoted_ok v then [] else if has_byte ch_dq v then [ch_sq] else [ch_dq] in
           ch_eq :: q ++ v ++ q
    end.

  (* ---- TagSet ---- *)

  Definition ts_empty : tagset := {| ts_lookup := []; ts_original := [] |}.

  Definition set_add (t : tag) (l : list tag) : list tag := if existsb (tag_eqb t) l then l else l ++ [t].

  (* NewTagOrPanic(tag.Name(), empty string): never panics *)
  Definition bare (t : tag) : tag := mk_tag (t_name t) [].

  (* TagSet.Put *)
  Definition ts_put (ts : tagset) (t : tag) : tagset :=
    {| ts_lookup := set_add (bare t) (set_add t (ts_lookup ts));
       ts_original := ts_original ts ++ [t] |}.

  (* TagSet.Contains *)
  Definition ts_contains (ts : tagset) (t : tag) : bool := existsb (tag_eqb t) (ts_lookup ts).

  (* TagSet.ToStrings *)
  Definition ts_to_strings (ts : tagset) : list bytes := map tag_to_string (ts_original ts).

  (* Merge: `for t := range ts.lookup { result.Put(t) }` iterates a Go map. [merge_lists] takes the
     iteration sequences explicitly; [ts_merge] uses the order of first insertion. That nothing klog observes
     of a merged set depends on the choice is Proofs/Tags.v merge_lists_perm. *)
  Definition merge_lists (ls : list (list tag)) : tagset :=
    fold_left (fun acc l => fold_left ts_put l acc) ls ts_empty.
  Definition ts_merge (tss : list tagset) : tagset := merge_lists (map ts_lookup tss).

  (* isSubsetOf (service/query.go) *)
  Definition is_subset_of (queried : list tag) (all : tagset) : bool := forallb (ts_contains all) queried.

  (* ---- Summary.Tags() ---- *)

  (* `tag, _ := NewTagFromString(m[0]); tags.Put(tag)`: on an error the zero Tag would be put *)
  Definition put_match (ts : tagset) (m : rmatch sym) : outcome tagset :=
    let* o := new_tag_from_string (raw (m_all m)) in
    Ok (ts_put ts (match o with Some t => t | None => {| t_name := []; t_value := [] |} end)).

  Definition line_tags_o (ts : tagset) (line : bytes) : outcome tagset :=
    fold_o put_match (s_find_all (decode_syms line)) ts.

  Definition summary_tags_o (lines : list bytes) : outcome tagset := fold_o line_tags_o lines ts_empty.

  (* the same without the detour through NewTagFromString's second regexp run and its panic
     (Proofs/Tags.v summary_tags_o_eq: summary_tags_o lines = Ok (summary_tags lines)) *)
  Definition tag_of_match (m : rmatch sym) : tag :=
    mk_tag (raw (m_name m)) (raw (value_syms sym fst (m_val m))).
  Definition line_tags (line : bytes) : list tag := map tag_of_match (s_find_all (decode_syms line)).
  Definition found_tags (lines : list bytes) : list tag := flat_map line_tags lines.
  Definition summary_tags (lines : list bytes) : tagset := fold_left ts_put (found_tags lines) ts_empty.

  (* ---- AggregateTotalsByTags ---- *)

  (* totalByTag.put: the nested maps name -> value -> stats are one dictionary keyed by the tag *)
  Fixpoint stats_put (tbt : list stat) (t : tag) (d : Z) : outcome (list stat) :=
    match tbt with
    | [] => let* v := dur_plus 0 d in Ok [{| st_tag := t; st_total := v; st_count := 1 |}]
    | s :: r =>
      if tag_eqb (st_tag s) t then
        let* v := dur_plus (st_total s) d in
        Ok ({| st_tag := st_tag s; st_total := v; st_count := (st_count s + 1)%Z |} :: r)
      else let* r' := stats_put r t d in Ok (s :: r')
    end.

  (* the loop body for one entry; [alreadyCounted] is never written in the Go code, the map keys are
     distinct by construction *)
  Definition entry_put (r : record) (acc : list stat) (e : entry) : outcome (list stat) :=
    let* rt := summary_tags_o (rec_summary r) in
    let* et := summary_tags_o (e_summary e) in
    let all := ts_merge [rt; et] in
    fold_o (fun a t => stats_put a t (entry_minutes e)) (ts_lookup all) acc.

  Definition record_put (acc : list stat) (r : record) : outcome (list stat) :=
    fold_o (entry_put r) (rec_entries r) acc.

  (* AggregateTotalsByTags: sort.Slice by keyForSort (the keys are distinct, Proofs/Tags.v) *)
  Definition aggregate_o (rs : list record) : outcome (list stat) :=
    let* tbt := fold_o record_put rs [] in
    Ok (sort_by stat_ltb tbt).
End Tags.

(* ================= instances at the Go toolchain's tables ================= *)

Definition go_summary_tags_o := summary_tags_o go_is_letter go_to_lower.
Definition go_new_tag_from_string := new_tag_from_string go_is_letter go_to_lower.
Definition go_tag_to_string := tag_to_string go_is_letter.
Definition go_aggregate_o := aggregate_o go_is_letter go_to_lower.
