(* C06 — no file content can crash klog: parsing is total.
   Property theorems only; each is closed by [exact <lemma>] and followed by Print Assumptions.
   The model is the parser after the fixes F1, F2, F3, F9, F10 (see Model/Lines.v, Model/Parser.v); every
   panic site of the Go code is an explicit [Crash] of the model, so "never Crash" is "no reachable panic".
   render_errors_total is C10_renderings_total (Properties/C10.v). evaluate_total is proved for the commands
   listed at C06_evaluate_total_partial, C06_json_total (klog json) and C06_now_no_crash (the --now variants). *)
From Klog Require Import Base.Prelude Base.Utf8 Model.Record Model.Lines Model.Parser Proofs.Lines Proofs.Parser.
From Klog Require Import Model.Calendar Model.Eval Model.Tags Model.Report Proofs.Eval Proofs.Report Proofs.ParserEval.
From Klog Require Import Model.JsonView Proofs.JsonView Proofs.ParserEvalNow.
From Coq Require Import Lia.
Open Scope nat_scope.

(* lines[0] of a block always exists: parse() does not panic on any block the splitter produces *)
Theorem C06_parse_record_no_crash : forall (ls : list line) (b : block),
  In b (blocks_of_lines ls) -> forall c, parse_record b <> Crash c.
Proof. exact parse_record_no_crash. Qed.
Print Assumptions C06_parse_record_no_crash.

(* for EVERY byte string the parser returns either records, one block per record (all blocks of the text),
   and no errors — or no records and at least one error *)
Theorem C06_parse_text_total : forall s : bytes,
  (exists rs bs, parse_text s = Ok (Parsed rs bs) /\ length rs = length bs /\ bs = blocks_of s) \/
  (exists es, parse_text s = Ok (Failed es) /\ es <> []).
Proof. exact parse_text_total. Qed.
Print Assumptions C06_parse_text_total.

(* in particular: never a panic, never a bare error *)
Theorem C06_parse_text_never_crashes : forall s : bytes,
  (forall c, parse_text s <> Crash c) /\ (forall e, parse_text s <> Err e).
Proof. exact parse_text_never_crashes. Qed.
Print Assumptions C06_parse_text_never_crashes.

(* what is returned: the i-th record is what parse() makes of the i-th block of the text; the errors are those
   of the faulty blocks, in block order, with the block's line offset added *)
Theorem C06_parse_text_blockwise : forall s : bytes,
  (forall rs bs, parse_text s = Ok (Parsed rs bs) ->
     bs = blocks_of s /\ Forall2 (fun r b => parse_record b = Ok (inl r)) rs bs) /\
  (forall es, parse_text s = Ok (Failed es) ->
     es = flat_map (fun b => match parse_record b with Ok (inr errs) => map (Parser.report b) errs | _ => [] end)
                   (blocks_of s)).
Proof. exact parse_text_blockwise. Qed.
Print Assumptions C06_parse_text_blockwise.

(* ---- evaluation of what the parser returned ---- *)

(* the three evaluation functions return exactly under their int64 guards (Proofs/Eval.v: every summand and every
   partial sum, in the order of the file, within +-(2^63-1)); otherwise they panic with "integer overflow" *)
Theorem C06_evaluate_guards_exact : forall rs : list record,
  ((exists t, total rs = Ok t) <-> no_overflow rs) /\
  ((exists sh, should_total_sum rs = Ok sh) <-> should_no_overflow rs) /\
  (forall sh t, (exists d, diff sh t = Ok d) <-> (fits t /\ fits sh /\ fits (t - sh)%Z)).
Proof. exact evaluate_guards_exact. Qed.
Print Assumptions C06_evaluate_guards_exact.

(* for every text the parser accepts, no modelled read-only command panics as long as
   gsize rs = (sum of |minutes| over all entries) + (sum of |should-total| over all records) fits an int64.
   Covered (model, Go): service.Total / ShouldTotalSum / Diff (Model/Eval.v); `klog total --diff`, `klog report
   --aggregate day|week|month|quarter|year [--fill] [--diff]`, `klog print --with-totals`, `klog today`
   (Model/Report.v; `today` needs 1439 minutes of head room for the end-time forecast); `klog tags`
   (Model/Tags.v go_aggregate_o). `klog print` (Model/Serialiser.v print_records : list record -> bytes) has no
   panic site at all: it is a total function by construction, there is nothing to prove.
   `klog json` is C06_json_total and the --now variants of total / report / today are C06_now_no_crash, below.
   PARTIAL — not covered: filters and --period arguments (C13/C15), the terminal layout of the tables,
   --now on 0000-01-01 (the Go code panics there: C02_close_first_day_refuted). *)
Theorem C06_evaluate_total_partial : forall (s : bytes) (rs : list record) (bs : list block),
  parse_text s = Ok (Parsed rs bs) -> (gsize rs <= max_int64)%Z ->
  (total rs = Ok (spec_total rs) /\ should_total_sum rs = Ok (spec_should rs) /\
   diff (spec_should rs) (spec_total rs) = Ok (spec_total rs - spec_should rs)%Z) /\
  (forall today h m, exists v, total_cmd false today h m rs = Ok v) /\
  (forall a fill df today h m, exists v, report_cmd a fill df false today h m rs = Ok v) /\
  (exists v, with_totals rs = Ok v) /\
  (exists v, go_aggregate_o rs = Ok v) /\
  (forall today yesterday h m, valid_clock h m -> plus_days today (-1) = Ok yesterday ->
     (gsize rs + 1439 <= max_int64)%Z -> exists v, today_cmd false today h m rs = Ok v).
Proof. exact evaluate_total. Qed.
Print Assumptions C06_evaluate_total_partial.

(* K1: without the guard it is false — the parser accepts
   "2020-01-01\n    9223372036854775807m\n    9223372036854775807m" (each entry fits an int64) and
   service.Total, hence `klog total`, panics with an integer overflow *)
Theorem C06_evaluate_total_refuted :
  exists s rs bs, parse_text s = Ok (Parsed rs bs) /\
    Forall fits (map spec_minutes (all_entries rs)) /\
    total rs = Crash CIntegerOverflow /\
    (forall today h m, total_cmd false today h m rs = Crash CIntegerOverflow).
Proof. exact evaluate_total_refuted. Qed.
Print Assumptions C06_evaluate_total_refuted.

(* non-vacuity of the guard: example_text parses to records of 60 minutes in total, gsize = 60 *)
Example C06_evaluate_nonvacuous :
  exists rs bs, parse_text example_text = Ok (Parsed rs bs) /\ gsize rs = 60%Z /\ total rs = Ok 60%Z.
Proof. eexists _, _. split; [vm_compute; reflexivity|]. split; vm_compute; reflexivity. Qed.

(* ---- klog json ---- *)

(* `klog json [--pretty] file` (Model/JsonView.v to_json; C20 says what the document is): for every text the parser
   accepts, under the same guard, every record fits (record_fits is the exact condition under which the totals of a
   record do not overflow: C20_overflow_guard) and the command prints its document. The records need not even come
   from the parser. A file with syntax errors (second half) needs no guard: the document of its errors is printed. *)
Theorem C06_json_total : forall (s : bytes) (file : bytes) (pretty : bool),
  (forall rs bs, parse_text s = Ok (Parsed rs bs) -> (gsize rs <= max_int64)%Z ->
     forallb record_fits rs = true /\
     to_json file (Parsed rs bs) pretty = Ok (print_doc pretty (document [(file, Parsed rs bs)])) /\
     exists out, to_json file (Parsed rs bs) pretty = Ok out) /\
  (forall es, parse_text s = Ok (Failed es) ->
     to_json file (Failed es) pretty = Ok (print_doc pretty (document [(file, Failed es)])) /\
     exists out, to_json file (Failed es) pretty = Ok out).
Proof. exact evaluate_json_both. Qed.
Print Assumptions C06_json_total.

(* several files: the guard on all records together *)
Theorem C06_json_inputs_total : forall inputs pretty, (gsize (all_records inputs) <= max_int64)%Z ->
  to_json_inputs inputs pretty = Ok (print_doc pretty (document inputs)).
Proof. exact to_json_inputs_guard. Qed.
Print Assumptions C06_json_inputs_total.

(* non-vacuity: now_text (two records, one closed range, two open ranges, a should-total) and example_faulty *)
Example C06_json_nonvacuous :
  (exists rs bs out, parse_text now_text = Ok (Parsed rs bs) /\ gsize rs = 555%Z /\
     to_json (b!"a.klg") (Parsed rs bs) true = Ok out /\ length out = 1379) /\
  (exists es out, parse_text example_faulty = Ok (Failed es) /\ to_json (b!"a.klg") (Failed es) false = Ok out /\
     length out = 1132).
Proof.
  split.
  - eexists _, _, _. split; [vm_compute; reflexivity|]. split; [vm_compute; reflexivity|].
    split; [vm_compute; reflexivity|]. vm_compute; reflexivity.
  - eexists _, _. split; [vm_compute; reflexivity|]. split; [vm_compute; reflexivity|]. vm_compute; reflexivity.
Qed.

(* ---- the --now variants ---- *)

(* `klog total --now`, `klog report --now`, `klog today --now` at the instant (today, h:m), for every text the parser
   accepts. Hypotheses: a valid clock reading; today has a day before it (on 0000-01-01 the Go code panics:
   C02_close_first_day_refuted); the guard with head room — closing an open range makes it a range of at most
   2879 - (-1440) = 4319 minutes, and only the first open range of a record is closed (the parser allows at most one),
   so 4319 minutes for every record that holds an open range
   (open_records rs = number of such records <= length rs; Proofs/ParserEvalNow.v now_guard_of_length).
   Then: CloseOpenRanges returns the closed records or the ordinary error EUncloseable (an open range that is not of
   today or yesterday, or starts after the instant), never a panic; in the first case the size of the closed records is
   known exactly and the three views return (today with the 1439 minutes of head room of its end-time forecast);
   in the second case the three views end with that error. Nothing is left open for total / report / today;
   --now combined with filters is not covered (as without --now). *)
Theorem C06_now_no_crash : forall (s : bytes) (rs : list record) (bs : list block) (today y : cdate) (h m : Z),
  parse_text s = Ok (Parsed rs bs) -> valid_clock h m -> plus_days today (-1) = Ok y ->
  (gsize rs + 4319 * open_records rs <= max_int64)%Z ->
  ((exists rs', close_open_ranges today h m rs = Ok rs') \/ close_open_ranges today h m rs = Err EUncloseable) /\
  (forall c, close_open_ranges today h m rs <> Crash c) /\
  (forall rs', close_open_ranges today h m rs = Ok rs' ->
     gsize rs' = (gsize rs + zsum (map (closing_gain today h m) rs))%Z /\
     (gsize rs' <= gsize rs + 4319 * open_records rs)%Z /\
     total_cmd true today h m rs =
       Ok (spec_total rs', spec_should rs', (spec_total rs' - spec_should rs')%Z, Z.of_nat (length rs')) /\
     (forall a fill df, exists v, report_cmd a fill df true today h m rs = Ok v) /\
     ((gsize rs + 4319 * open_records rs + 1439 <= max_int64)%Z -> exists v, today_cmd true today h m rs = Ok v)) /\
  (forall e, close_open_ranges today h m rs = Err e ->
     e = EUncloseable /\ Exists (uncloseable today y h m) rs /\
     total_cmd true today h m rs = Err e /\
     (forall a fill df, report_cmd a fill df true today h m rs = Err e) /\
     today_cmd true today h m rs = Err e).
Proof. exact evaluate_now_no_crash. Qed.
Print Assumptions C06_now_no_crash.

(* the guard stated with the number of records implies the guard above *)
Theorem C06_now_guard_of_length : forall (rs : list record) (k : Z),
  (gsize rs + 4320 * Z.of_nat (length rs) + k <= max_int64)%Z ->
  (gsize rs + 4319 * open_records rs + k <= max_int64)%Z.
Proof. exact now_guard_of_length. Qed.
Print Assumptions C06_now_guard_of_length.

(* non-vacuity: now_text is
     2019-12-31 / 22:15 - ?    and    2020-01-01 (8h!) / 6:00 - 7:00 / 8:00 - ? work / -15m ;
   at 2020-01-01 9:30 both open ranges are closed (675 and 90 minutes): the total goes from 45 to 810 minutes and the
   size from 555 to 1320; at 7:30 the range 8:00 - ? cannot be closed, nor can an open range of 2019-12-30 at any time
   of 2020-01-01 *)
Example C06_now_nonvacuous :
  exists rs bs y, parse_text now_text = Ok (Parsed rs bs) /\ valid_clock 9 30 /\ plus_days now_today (-1) = Ok y /\
    gsize rs = 555%Z /\ open_records rs = 2%Z /\ Z.of_nat (length rs) = 2%Z /\
    (exists rs', close_open_ranges now_today 9 30 rs = Ok rs' /\ gsize rs' = 1320%Z) /\
    total_cmd false now_today 9 30 rs = Ok (45, 480, -435, 2)%Z /\
    total_cmd true now_today 9 30 rs = Ok (810, 480, 330, 2)%Z /\
    (exists v, today_cmd true now_today 9 30 rs = Ok v /\ tv_all v = (810, 480, 330)%Z /\ tv_had_open v = true) /\
    close_open_ranges now_today 7 30 rs = Err EUncloseable /\
    total_cmd true now_today 7 30 rs = Err EUncloseable.
Proof.
  eexists _, _, _. split; [vm_compute; reflexivity|]. split; [unfold valid_clock; lia|].
  split; [vm_compute; reflexivity|]. split; [vm_compute; reflexivity|]. split; [vm_compute; reflexivity|].
  split; [vm_compute; reflexivity|]. split; [eexists; split; vm_compute; reflexivity|].
  split; [vm_compute; reflexivity|]. split; [vm_compute; reflexivity|].
  split; [eexists; split; [vm_compute; reflexivity|split; vm_compute; reflexivity]|].
  split; vm_compute; reflexivity.
Qed.

Example C06_now_stale_nonvacuous :
  exists rs bs, parse_text now_text_stale = Ok (Parsed rs bs) /\ open_records rs = 1%Z /\
    forall h m, valid_clock h m -> close_open_ranges now_today h m rs = Err EUncloseable.
Proof.
  eexists _, _. split; [vm_compute; reflexivity|]. split; [vm_compute; reflexivity|].
  intros h m Hv. unfold close_open_ranges. change (plus_days now_today (-1)) with (Ok {| c_year := 2019; c_month := 12; c_day := 31 |}).
  rewrite (new_time_clock _ _ Hv). reflexivity.
Qed.

(* non-vacuity: both alternatives occur — example_text (invalid UTF-8, CRLF, lone CR, no final newline)
   parses to 2 records with 2 blocks, example_faulty to 5 errors *)
Example C06_nonvacuous :
  (exists rs bs, parse_text example_text = Ok (Parsed rs bs) /\ length rs = 2 /\ length bs = 2) /\
  (exists es, parse_text example_faulty = Ok (Failed es) /\ length es = 5).
Proof. split; [eexists _, _|eexists]; vm_compute; repeat split. Qed.
