"""C01 — the parser accepts exactly spec-conforming files and extracts the denoted data."""
import sys, os
sys.path.insert(0, os.path.dirname(os.path.dirname(os.path.abspath(__file__))))
from check import Suite
import specgen
from props.parsing import *

EXPECT = {}
FAULT = {}

def gen_conforming(tier, rng):
    n = 6000 if tier == "quick" else 500000
    out = []
    for d in docs(rng, n):
        r = req_parse(d.render())
        EXPECT[r] = d.expect()
        out.append(r)
    return out

def gen_small_scope(tier, rng):
    """documents of <= 2 records x <= 2 entries, many of them (small-scope coverage of the grammar)"""
    n = 5000 if tier == "quick" else 100000
    out = []
    for d in docs(rng, n, max_records=2, max_entries=2):
        r = req_parse(d.render())
        EXPECT[r] = d.expect()
        out.append(r)
    return out

def oracle_conforming(req, out):
    want = EXPECT.get(req)
    if want is None:
        return None
    if out.split(" ")[0] != "ok":
        return "a conforming text was not accepted: " + out[:120]
    if out != want:
        return "records differ from what the text denotes: got %s, want %s" % (out[:200], want[:200])
    return None

def gen_faulted(tier, rng):
    n = 6000 if tier == "quick" else 500000
    out = []
    for d in docs(rng, n):
        k = rng.choice([1, 1, 1, 2])
        f = specgen.inject_fault(d, rng)
        if f is None:
            continue
        r = req_parse(f[0])
        FAULT[r] = (f[1], f[2])
        out.append(r)
    return out

def oracle_faulted(req, out):
    if req not in FAULT:
        return None
    f = out.split(" ")
    if f[0] != "errors" or int(f[1]) < 1:
        return "a text with a %s fault on line %d was not rejected: %s" % (FAULT[req][1], FAULT[req][0], out[:120])
    return None

K3_TEXTS = [b"2020-01-01\n\xc2\xa0\n2020-01-02\n", b"2020-01-01\n    1h\n\xe3\x80\x80\n\n2020-01-02\n", b"\xc2\xa0\n2020-01-01\n"]

def gen_k3(tier, rng):
    for t in K3_TEXTS:
        EXPECT[req_parse(t)] = "ok-any"
    return [req_parse(t) for t in K3_TEXTS]

def oracle_k3(req, out):
    return None if out.startswith("ok") else "a line of Zs characters between records is a blank line by the specification's glossary, but the text is rejected"

def k3_zs_blank_line(req, out):
    """known finding K3: a line holding only Zs characters (not space) is treated as text, not as a blank line"""
    b = unhx(req.split(" ")[1])
    zs = ["\u00a0", "\u1680", "\u2000", "\u2001", "\u2002", "\u2003", "\u2004", "\u2005", "\u2006", "\u2007", "\u2008", "\u2009", "\u200a", "\u202f", "\u205f", "\u3000"]
    try:
        t = b.decode("utf-8")
    except UnicodeDecodeError:
        return False
    for line in t.split("\n"):
        line = line.rstrip("\r")
        if line and all(c in zs or c in " \t" for c in line) and any(c in zs for c in line):
            return out.startswith("errors")
    return False

def suites():
    return [
        Suite("conforming", gen_conforming, oracle=oracle_conforming,
              rule="documents drawn from the specification grammar (0-5 records, 0-6 entries, all value spellings, 4 indentation styles, LF/CRLF/mixed, blank-line spacing, Unicode summaries); non-trivial = accepted with >= 1 record",
              nontrivial=lambda r, o: o.startswith("ok") and not o.startswith("ok 0")),
        Suite("small-scope", gen_small_scope, oracle=oracle_conforming,
              rule="documents of <= 2 records x <= 2 entries", nontrivial=lambda r, o: o.startswith("ok") and not o.startswith("ok 0")),
        Suite("faulted", gen_faulted, oracle=oracle_faulted,
              rule="one MUST-violating edit (12 fault kinds) injected at a random record/line; non-trivial = rejected",
              nontrivial=lambda r, o: o.startswith("errors")),
        Suite("zs-blank-lines", gen_k3, oracle=oracle_k3, rule="Zs-only separator lines (known finding K3)",
              nontrivial=lambda r, o: True),
    ]
