(* Extraction of the executable model. ExtrOcamlBasic only: bool, option, list, prod, unit, sumbool
   map to OCaml's; N, Z, positive, nat stay Coq's inductive types. *)
From Coq Require Import Extraction ExtrOcamlBasic.
From Klog Require Import Model.Dispatch.
Extraction "model.ml" dispatch.
