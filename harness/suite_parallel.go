package main

import (
	"math/rand"
	"strconv"
	"strings"
	"sync"
	gotime "time"

	"github.com/jotaen/klog/klog"
	"github.com/jotaen/klog/klog/parser"
	"github.com/jotaen/klog/klog/parser/engine"
	"github.com/jotaen/klog/klog/parser/txt"
)

func showFull(rs []klog.Record, bs []txt.Block, errs []txt.Error) string {
	b := "-"
	if errs == nil {
		b = showBlocks(bs)
	}
	return showParse(rs, errs) + " | " + b
}

func errorMessages(errs []txt.Error) string {
	out := ""
	for _, e := range errs {
		out += e.Code() + "|" + e.Title() + "|" + e.Details() + "|" + e.Message() + "\n"
	}
	return out
}

// forceArrivalOrder makes the workers of the parallel parser deliver their results in the order
// given by rank (rank[i] = position of batch i), using the add-only hook before the send.
func forceArrivalOrder(rank []int) func() {
	var mu sync.Mutex
	cond := sync.NewCond(&mu)
	turn := 0
	engine.VerifBeforeSend = func(batchIndex int, n int) {
		if n != len(rank) {
			return
		}
		mu.Lock()
		for turn != rank[batchIndex] {
			cond.Wait()
		}
		turn++
		mu.Unlock()
		cond.Broadcast()
		// let the worker whose turn it was reach the channel first
		gotime.Sleep(20 * gotime.Microsecond * gotime.Duration(rank[batchIndex]))
	}
	return func() { engine.VerifBeforeSend = nil }
}

func init() {
	register("par", func(a []string) string {
		n, _ := strconv.Atoi(a[0])
		seed, _ := strconv.ParseInt(a[1], 10, 64)
		text := argBytes(a[2])
		rank := rand.New(rand.NewSource(seed)).Perm(n)
		if n <= 8 {
			defer forceArrivalOrder(rank)()
		}
		prs, pbs, perrs := parser.NewParallelParser(n).Parse(text)
		p := showFull(prs, pbs, perrs)
		srs, sbs, serrs := parser.NewSerialParser().Parse(text)
		q := showFull(srs, sbs, serrs)
		// the messages of the errors must be the same too (they are not part of the printed line,
		// which is compared with the model)
		if p == q && errorMessages(perrs) == errorMessages(serrs) {
			return "same " + p
		}
		return "differs " + p
	})
	register("chunks", func(a []string) string {
		n, _ := strconv.Atoi(a[0])
		cs := engine.VerifSplitIntoChunks(argBytes(a[1]), n)
		out := make([]string, len(cs))
		for i, c := range cs {
			out[i] = hx(c)
		}
		return strings.Join(out, " ")
	})
}
