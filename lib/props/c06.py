"""C06 — no file content can crash klog: parsing and evaluation are total."""
import sys, os
sys.path.insert(0, os.path.dirname(os.path.dirname(os.path.abspath(__file__))))
from check import Suite
from props.parsing import *

def gen_bytes(tier, rng):
    if tier == "quick":
        return [req_parse(b) for b in byte_stream(tier, rng, 6000, 3000, 3)]
    return [req_parse(b) for b in byte_stream(tier, rng, 400000, 200000, 4)]

def oracle_parse(req, out):
    return parse_shape(out)

EDGE_DATES = ["0000-01-01", "0000-01-02", "9999-12-30", "9999-12-31", "2020-02-29", "1999-12-31"]
EDGE_ENTRIES = ["23:00 - 0:30>", "0:30> - ?", "<23:00 - 1:00", "<23:00 - ?", "0:00> - 23:59>", "<0:00 - <0:00", "<24:00 - 24:00", "12:00am> - ?",
                "8:00 - 9:00", "-1m", "5124095576030431h", "24:00 - ?", "8:00 - 7:59>", "<8:00-8:00>"]

def edge_docs(clock_dates):
    """the first and the last days of the calendar (and the days around the harness' clock) with every kind of shifted
       time: whatever looks at the neighbouring day of a record (warnings, --now, periods, --fill) meets its limits here"""
    out = []
    for d in EDGE_DATES + clock_dates:
        for e in EDGE_ENTRIES:
            out.append(("%s\n    %s\n" % (d, e)).encode())
            out.append(("%s (8h!)\n    1h\n    %s text\n\n%s\n    2h\n" % (d, e, d)).encode())
    return out

def gen_eval(tier, rng):
    n = 250 if tier == "quick" else 20000
    out = ["eval-all " + b.hex() for b in edge_docs(["2020-06-14", "2020-06-15", "2020-06-16"])]
    for b in byte_stream(tier, rng, n, n // 4, 2):
        if len(b) < 5000:
            out.append("eval-all " + (b.hex() if b else "-"))
    return out

def oracle_eval(req, out):
    if out.startswith("ok"):
        return None
    return "a read-only command crashed or failed unexpectedly: " + out[:200]

def k1_total_overflow(req, out):
    """known finding K1: the sum of entry durations leaves int64 -> 'Integer overflow' panic (Duration.Plus) in evaluation.
    Narrow: the recorded panic message must be that one, and the durations of the file must really add up beyond int64."""
    if not req.startswith("eval-all ") or not out.startswith("crash "):
        return False
    import re
    f = out.split(" ")
    try:
        msg = bytes.fromhex(f[2]).decode("utf-8", "replace") if len(f) > 2 else ""
    except ValueError:
        msg = ""
    if "Integer overflow" not in msg:
        return False
    b = unhx(req.split(" ")[1])
    total = 0
    for m in re.finditer(rb"(?:(\d+)h)?(?:(\d+)m)?", b):
        h, mi = m.group(1), m.group(2)
        if h or mi:
            total += int(h or 0) * 60 + int(mi or 0)
    return total > 2**63 - 1

def suites():
    return [
        Suite("bytes", gen_bytes, oracle=oracle_parse,
              rule="all strings of <= k tokens over a 32-token alphabet of klog fragments (k=3 quick) + mutated conforming/faulted documents (byte flips, truncation at every offset, splices) + raw random bytes + very long inputs; non-trivial = distinct input that yields errors or records",
              nontrivial=lambda r, o: o.startswith("ok") or o.startswith("errors"), exhaustive=lambda t: False),
        Suite("evaluate", gen_eval, oracle=oracle_eval, model=False,
              rule="every read-only command (print, print --with-totals, total, report x5, tags, today, json) and both error renderings run on whatever the parser returned; non-trivial = all commands completed",
              nontrivial=lambda r, o: o.startswith("ok")),
    ]
