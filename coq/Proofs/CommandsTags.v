(* CommandsTags: the tags `klog pause` takes over from the open range are well-formed text — for summary lines that are
   the encoding of line texts (as every line of a specification-conforming file is), the strings Tag.ToString yields
   for the tags the scanner finds, joined by spaces, are again the encoding of a line text that does not end in a
   carriage return. This discharges the [tags_ok] requirement of the pause refinement. *)
From Klog Require Import Base.Prelude Base.Utf8 Model.Calendar Model.Values Model.Record Model.Lines Model.Parser
  Gen.UnicodeTables Model.Tags Model.Reconcile Model.Commands Proofs.TagsUtf8 Proofs.Tags Spec.Spec Proofs.SpecEntry Proofs.SpecRecord Proofs.Print
  Proofs.Reconcile Proofs.CommandsSpec Proofs.CommandsRefine Proofs.CommandsStop Proofs.CommandsPause.
From Coq Require Import ZifyBool.
Open Scope N_scope.

(* ---------------------------------------------------------------- runes that make up a line text *)

Definition line_rune (r : N) : Prop := is_scalar r = true /\ r <> 10.

Lemma text_ok_runes t : text_ok t = true <-> Forall line_rune t.
Proof.
  unfold text_ok. rewrite forallb_forall, Forall_forall. split; intros H r Hr; specialize (H r Hr).
  - apply andb_true_iff in H as [H1 H2]. rewrite scalar_is_scalar in H1. split; [exact H1|]. apply negb_true_iff, N.eqb_neq in H2. exact H2.
  - destruct H as [H1 H2]. rewrite scalar_is_scalar, H1. apply N.eqb_neq in H2. rewrite H2. reflexivity.
Qed.

(* a symbol as it is cut out of the encoding of a line text *)
Definition good_sym (x : sym) : Prop := snd x = encode_rune (fst x) /\ line_rune (fst x).

Lemma decode_syms_encode t : Forall (fun r => is_scalar r = true) t -> decode_syms (utf8_encode t) = map (fun r => (r, encode_rune r)) t.
Proof.
  induction 1 as [|r rs Hr _ IH]; [reflexivity|].
  unfold utf8_encode. cbn [flat_map]. fold (utf8_encode rs).
  pose proof (decode_encode_rune r (utf8_encode rs) Hr) as Hd.
  destruct (encode_rune r) as [|b t] eqn:Ee; [exfalso; exact (encode_rune_nonempty r Ee)|].
  change ((b :: t) ++ utf8_encode rs) with (b :: t ++ utf8_encode rs) in *.
  rewrite decode_syms_cons, Hd. cbn [fst snd map]. f_equal.
  - f_equal. change (b :: t ++ utf8_encode rs) with ((b :: t) ++ utf8_encode rs).
    rewrite firstn_app, firstn_all, Nat.sub_diag, firstn_O, app_nil_r. symmetry. exact Ee.
  - change (b :: t ++ utf8_encode rs) with ((b :: t) ++ utf8_encode rs).
    rewrite skipn_app, skipn_all, Nat.sub_diag. cbn [skipn app]. exact IH.
Qed.

Lemma good_syms_of_text t : text_ok t = true -> Forall good_sym (decode_syms (utf8_encode t)).
Proof.
  intros H. apply text_ok_runes in H. rewrite decode_syms_encode by (eapply Forall_impl; [|exact H]; intros r [Hr _]; exact Hr).
  apply Forall_forall. intros x Hx. apply in_map_iff in Hx as (r & <- & Hr). rewrite Forall_forall in H. split; [reflexivity|exact (H r Hr)].
Qed.

Lemma raw_good l : Forall good_sym l -> raw l = utf8_encode (map fst l) /\ Forall line_rune (map fst l).
Proof.
  induction 1 as [|x l [Hx Hr] _ [IH1 IH2]]; [split; [reflexivity|constructor]|].
  split; [|constructor; assumption]. rewrite raw_cons, Hx, IH1. reflexivity.
Qed.

(* ---------------------------------------------------------------- the matcher only cuts the input *)

Section Cut.
  Variable is_letter : N -> bool.
  Notation nchar := (name_char is_letter sym fst).

  Lemma span_incl (p : sym -> bool) l a b : span p l = (a, b) -> incl a l /\ incl b l /\ forallb p a = true.
  Proof.
    intros H. destruct (span_spec p l a b H) as (-> & Ha & _). split; [apply incl_appl, incl_refl|]. split; [apply incl_appr, incl_refl|exact Ha].
  Qed.

  Lemma until_quote_incl q s body cl rest : until_quote sym fst q s = Some (body, cl, rest) -> s = body ++ cl :: rest.
  Proof.
    revert body cl rest. induction s as [|c r IH]; intros body cl rest H; [discriminate|]. cbn [until_quote] in H.
    destruct (fst c =? q); [injection H as <- <- <-; reflexivity|].
    destruct (until_quote sym fst q r) as [[[b0 c0] r0]|]; [|discriminate]. injection H as <- <- <-.
    rewrite (IH _ _ _ eq_refl). reflexivity.
  Qed.

  Lemma match_value_incl after g2 g3 rest : match_value is_letter sym fst after = (g2, g3, rest) -> incl g3 after /\ incl rest after.
  Proof.
    unfold match_value. destruct after as [|e r]; [intros [= <- <- <-]; split; apply incl_refl|].
    destruct (fst e =? ch_eq); [|intros [= <- <- <-]; split; [intros x []|apply incl_refl]].
    assert (U : forall g2 g3 rest, (let '(run, rest0) := span nchar r in (e :: run, run, rest0)) = (g2, g3, rest) -> incl g3 (e :: r) /\ incl rest (e :: r)).
    { intros a b c H. destruct (span nchar r) as [run rest0] eqn:Es. injection H as <- <- <-.
      destruct (span_incl _ _ _ _ Es) as (I1 & I2 & _). split; apply incl_tl; assumption. }
    destruct r as [|q r']; [exact (U _ _ _)|].
    destruct ((fst q =? ch_dq) || (fst q =? ch_sq)); [|exact (U _ _ _)].
    destruct (until_quote sym fst (fst q) r') as [[[body cl] rest0]|] eqn:Eu; [|exact (U _ _ _)].
    intros [= <- <- <-]. rewrite (until_quote_incl _ _ _ _ _ Eu). split.
    - apply incl_tl. intros x Hx. destruct Hx as [<-|Hx]; [left; reflexivity|right].
      apply in_app_or in Hx as [Hx|[<-|[]]]; apply in_or_app; [left; exact Hx|right; left; reflexivity].
    - do 2 apply incl_tl. apply incl_appr, incl_tl, incl_refl.
  Qed.

  Lemma match_at_incl s m rest : match_at is_letter sym fst s = Some (m, rest) ->
    incl (m_name m) s /\ incl (m_val m) s /\ incl rest s /\ m_name m <> [] /\ forallb nchar (m_name m) = true /\ (length rest < length s)%nat.
  Proof.
    unfold match_at. destruct s as [|h r]; [discriminate|]. destruct (fst h =? ch_hash); [|discriminate].
    destruct (span nchar r) as [name after] eqn:Es. destruct (span_spec _ _ _ _ Es) as (Er & Hn & _).
    destruct name as [|n0 name']; [discriminate|].
    destruct (match_value is_letter sym fst after) as [[g2 g3] rest0] eqn:Ev. intros [= <- <-]. cbn [m_name m_val].
    destruct (match_value_incl _ _ _ _ Ev) as [I3 I4].
    assert (Ia : incl after r) by (rewrite Er; apply incl_appr, incl_refl).
    split; [apply incl_tl; rewrite Er; apply incl_appl, incl_refl|].
    split; [apply incl_tl; exact (incl_tran I3 Ia)|]. split; [apply incl_tl; exact (incl_tran I4 Ia)|].
    split; [discriminate|]. split; [exact Hn|].
    assert (Hl : (length rest0 <= length after)%nat).
    { clear - Ev. unfold match_value in Ev. destruct after as [|e r]; [injection Ev as _ _ <-; cbn; lia|].
      destruct (fst e =? ch_eq); [|injection Ev as _ _ <-; lia].
      assert (U : forall g2 g3 rest, (let '(run, rest1) := span nchar r in (e :: run, run, rest1)) = (g2, g3, rest) -> (length rest <= length (e :: r))%nat).
      { intros a b c H. destruct (span nchar r) as [run rest1] eqn:Es. injection H as <- <- <-.
        destruct (span_spec _ _ _ _ Es) as (-> & _). cbn [List.length]. rewrite app_length. lia. }
      destruct r as [|q r']; [exact (U _ _ _ Ev)|].
      destruct ((fst q =? ch_dq) || (fst q =? ch_sq)); [|exact (U _ _ _ Ev)].
      destruct (until_quote sym fst (fst q) r') as [[[body cl] rest1]|] eqn:Eu; [|exact (U _ _ _ Ev)].
      injection Ev as _ _ <-. rewrite (until_quote_incl _ _ _ _ _ Eu). cbn [List.length]. rewrite app_length. cbn [List.length]. lia. }
    rewrite Er. cbn [List.length]. rewrite app_length. lia.
  Qed.

  Lemma find_all_fuel_incl fuel : forall s m, In m (find_all_fuel is_letter sym fst fuel s) ->
    incl (m_name m) s /\ incl (m_val m) s /\ m_name m <> [] /\ forallb nchar (m_name m) = true.
  Proof.
    induction fuel as [|k IH]; intros s m H; [destruct H|]. cbn [find_all_fuel] in H. destruct s as [|c r]; [destruct H|].
    destruct (match_at is_letter sym fst (c :: r)) as [[m0 rest]|] eqn:Em.
    - destruct (match_at_incl _ _ _ Em) as (I1 & I2 & I3 & Hne & Hn & _). destruct H as [<-|H]; [auto|].
      destruct (IH _ _ H) as (J1 & J2 & J3 & J4). split; [exact (incl_tran J1 I3)|]. split; [exact (incl_tran J2 I3)|]. auto.
    - destruct (IH _ _ H) as (J1 & J2 & J3 & J4). split; [apply incl_tl; exact J1|]. split; [apply incl_tl; exact J2|]. auto.
  Qed.

  Lemma drop_code_incl q (s : list sym) : incl (drop_code sym fst q s) s.
  Proof. induction s as [|c r IH]; [apply incl_refl|]. cbn [drop_code]. destruct (fst c =? q); [apply incl_tl; exact IH|apply incl_refl]. Qed.

  Lemma trim_code_incl q (s : list sym) : incl (trim_code sym fst q s) s.
  Proof.
    unfold trim_code. intros x Hx. apply in_rev in Hx. apply drop_code_incl in Hx. apply in_rev in Hx. apply drop_code_incl in Hx. exact Hx.
  Qed.

  Lemma value_syms_incl (v : list sym) : incl (value_syms sym fst v) v.
  Proof.
    unfold value_syms. destruct v as [|c r]; [apply incl_refl|].
    destruct (fst c =? ch_dq); [apply trim_code_incl|]. destruct (fst c =? ch_sq); [apply trim_code_incl|apply incl_refl].
  Qed.
End Cut.

Lemma Forall_incl {A} (P : A -> Prop) a l : incl a l -> Forall P l -> Forall P a.
Proof. intros I H. apply Forall_forall. intros x Hx. rewrite Forall_forall in H. exact (H x (I x Hx)). Qed.

(* ---------------------------------------------------------------- lower-casing keeps line runes, and no name ends in CR *)

Lemma go_lower_avoids r : go_to_lower r = 10 \/ go_to_lower r = 13 -> go_to_lower r = r.
Proof.
  intros H. destruct (N.eq_dec (go_to_lower r) r) as [E|E]; [exact E|]. exfalso.
  assert (Hc : negb (go_to_lower r =? 10) && negb (go_to_lower r =? 13) = true).
  { apply (lower_table_forall (fun r => negb (go_to_lower r =? 10) && negb (go_to_lower r =? 13)) unicode_lower go_steps_ok); [|exact E].
    vm_compute. reflexivity. }
  destruct H as [H|H]; rewrite H in Hc; discriminate.
Qed.

Lemma name_code_not_ctl c : name_code go_is_letter c = true -> c <> 10 /\ c <> 13.
Proof.
  intros H. split; intros ->; vm_compute in H; discriminate.
Qed.

Lemma lower_name_rune r : name_code go_is_letter r = true -> is_scalar r = true -> line_rune (go_to_lower r) /\ go_to_lower r <> 13.
Proof.
  intros Hn Hs. destruct (name_code_not_ctl r Hn) as [H10 H13]. split; [split; [apply go_lower_scalar; exact Hs|]|].
  - intros E. rewrite (go_lower_avoids r (or_introl E)) in E. contradiction.
  - intros E. rewrite (go_lower_avoids r (or_intror E)) in E. contradiction.
Qed.

(* ---------------------------------------------------------------- Tag.ToString of a tag found on a line text *)

Definition str_ok (s : bytes) : Prop := exists t, s = utf8_encode t /\ Forall line_rune t /\ last t 0 <> 13.

Lemma good_sym_nonempty x : good_sym x -> snd x <> [].
Proof. intros [H _]. rewrite H. apply encode_rune_nonempty. Qed.

Lemma raw_nil_iff l : Forall good_sym l -> (raw l = [] <-> l = []).
Proof.
  intros H. split; [|intros ->; reflexivity]. destruct l as [|x l]; [reflexivity|]. rewrite raw_cons. intros E.
  apply app_eq_nil in E as [E _]. inversion H; subst. exfalso. exact (good_sym_nonempty x H2 E).
Qed.

Lemma good_syms_wf l : Forall good_sym l -> decode_syms (raw l) = l.
Proof.
  intros H. destruct (raw_good l H) as [E Hr]. rewrite E, decode_syms_encode by (eapply Forall_impl; [|exact Hr]; intros r [Hs _]; exact Hs).
  clear E Hr. induction H as [|x l [Hx _] _ IH]; [reflexivity|]. cbn [map]. rewrite IH, <- Hx. destruct x; reflexivity.
Qed.

Lemma encode_ascii_cons c t : c < 128 -> utf8_encode (c :: t) = c :: utf8_encode t.
Proof. intros H. apply encode_cons_ascii. apply N.ltb_lt. exact H. Qed.

Lemma last_app_ne {A} (a b : list A) d : b <> [] -> last (a ++ b) d = last b d.
Proof.
  intros Hb. induction a as [|x a IH]; [reflexivity|]. cbn [app].
  assert (Hne : a ++ b <> []) by (intros E; apply app_eq_nil in E as [_ E]; contradiction).
  destruct (a ++ b) as [|y r]; [contradiction|]. exact IH.
Qed.

Lemma last_map_name (l : list sym) : l <> [] -> forallb (name_char go_is_letter sym fst) l = true -> Forall good_sym l ->
  last (map go_to_lower (map fst l)) 0 <> 13 /\ Forall line_rune (map go_to_lower (map fst l)) /\ last (map fst l) 0 <> 13.
Proof.
  intros Hne Hn Hg.
  assert (A : forall x, In x l -> line_rune (go_to_lower (fst x)) /\ go_to_lower (fst x) <> 13 /\ fst x <> 13).
  { intros x Hx. rewrite forallb_forall in Hn. specialize (Hn x Hx). rewrite Forall_forall in Hg. destruct (Hg x Hx) as [_ [Hs _]].
    destruct (lower_name_rune (fst x) Hn Hs) as [L1 L2]. split; [exact L1|]. split; [exact L2|]. exact (proj2 (name_code_not_ctl _ Hn)). }
  destruct (list_snoc_cases l) as [->|(p & y & ->)]; [contradiction|].
  rewrite !map_app. cbn [map]. rewrite !last_app_ne by discriminate. cbn [last].
  destruct (A y ltac:(apply in_or_app; right; left; reflexivity)) as (_ & L2 & L3).
  split; [exact L2|]. split; [|exact L3].
  apply Forall_forall. intros r Hr. apply in_app_or in Hr as [Hr|[<-|[]]].
  - apply in_map_iff in Hr as (r0 & <- & Hr0). apply in_map_iff in Hr0 as (x & <- & Hx). apply (A x). apply in_or_app. left. exact Hx.
  - apply (A y). apply in_or_app. right. left. reflexivity.
Qed.

Theorem tag_string_ok (m : rmatch sym) s : Forall good_sym s ->
  incl (m_name m) s -> incl (m_val m) s -> m_name m <> [] -> forallb (name_char go_is_letter sym fst) (m_name m) = true ->
  str_ok (go_tag_to_string (tag_of_match go_to_lower m)).
Proof.
  intros Hs I1 I2 Hne Hn.
  pose proof (Forall_incl _ _ _ I1 Hs) as Gn.
  pose proof (Forall_incl _ _ _ (incl_tran (value_syms_incl (m_val m)) I2) Hs) as Gv.
  set (names := m_name m) in *. set (vals := value_syms sym fst (m_val m)) in *.
  destruct (raw_good names Gn) as [En Rn]. destruct (raw_good vals Gv) as [Ev Rv].
  destruct (last_map_name names Hne Hn Gn) as (Ln & Fn & _).
  set (lnames := map go_to_lower (map fst names)) in *.
  assert (Etn : t_name (tag_of_match go_to_lower m) = utf8_encode lnames).
  { unfold tag_of_match, mk_tag, str_to_lower. cbn [t_name]. fold names. rewrite En, utf8_decode_encode; [reflexivity|].
    eapply Forall_impl; [|exact Rn]. intros r [H _]. exact H. }
  assert (Etv : t_value (tag_of_match go_to_lower m) = raw vals) by reflexivity.
  assert (Hlne : lnames <> []) by (unfold lnames; destruct names; [contradiction|discriminate]).
  unfold go_tag_to_string, tag_to_string. rewrite Etn, Etv.
  destruct (raw vals) as [|v0 vr] eqn:Erv.
  - (* no value *)
    exists (35 :: lnames). rewrite app_nil_r. split; [rewrite encode_ascii_cons by lia; reflexivity|].
    split; [constructor; [split; [reflexivity|discriminate]|exact Fn]|].
    change (35 :: lnames) with ([35] ++ lnames). rewrite last_app_ne by exact Hlne. exact Ln.
  - rewrite <- Erv in Ev |- *.
    assert (Hvne : vals <> []) by (intros E; rewrite E in Erv; discriminate).
    set (q := if unquoted_ok go_is_letter (raw vals) then [] else if has_byte ch_dq (raw vals) then [ch_sq] else [ch_dq]).
    assert (Hq : (q = [] /\ unquoted_ok go_is_letter (raw vals) = true) \/ q = [ch_sq] \/ q = [ch_dq]).
    { unfold q. destruct (unquoted_ok go_is_letter (raw vals)); [left; auto|right]. destruct (has_byte ch_dq (raw vals)); auto. }
    exists (35 :: lnames ++ 61 :: q ++ map fst vals ++ q).
    assert (Aq : utf8_encode q = q) by (destruct Hq as [[-> _]|[-> | ->]]; reflexivity).
    assert (Fq : Forall line_rune q) by (destruct Hq as [[-> _]|[-> | ->]]; repeat constructor; discriminate).
    split; [|split].
    + rewrite encode_ascii_cons by lia. f_equal. rewrite utf8_encode_app. f_equal. rewrite encode_ascii_cons by (unfold ch_eq; lia). f_equal.
      rewrite !utf8_encode_app, Aq, Ev. reflexivity.
    + constructor; [split; [reflexivity|discriminate]|]. apply Forall_app. split; [exact Fn|].
      constructor; [split; [reflexivity|discriminate]|]. apply Forall_app. split; [exact Fq|]. apply Forall_app. split; [exact Rv|exact Fq].
    + assert (Hmv : map fst vals <> []) by (destruct vals; [contradiction|discriminate]).
      destruct Hq as [[-> Hu]|[-> | ->]].
      * cbn [app]. rewrite app_nil_r.
        replace (35 :: lnames ++ 61 :: map fst vals) with (([35] ++ lnames ++ [61]) ++ map fst vals) by (rewrite <- !app_assoc; reflexivity).
        rewrite last_app_ne by exact Hmv.
        unfold unquoted_ok in Hu. rewrite (good_syms_wf vals Gv) in Hu.
        destruct vals as [|x0 vals'] eqn:Evals; [contradiction|]. rewrite <- Evals in *.
        exact (proj2 (proj2 (last_map_name vals Hvne Hu Gv))).
      * replace (35 :: lnames ++ 61 :: [ch_sq] ++ map fst vals ++ [ch_sq]) with (([35] ++ lnames ++ [61] ++ [ch_sq] ++ map fst vals) ++ [ch_sq]) by (rewrite <- !app_assoc; reflexivity).
        rewrite last_app_ne by discriminate. discriminate.
      * replace (35 :: lnames ++ 61 :: [ch_dq] ++ map fst vals ++ [ch_dq]) with (([35] ++ lnames ++ [61] ++ [ch_dq] ++ map fst vals) ++ [ch_dq]) by (rewrite <- !app_assoc; reflexivity).
        rewrite last_app_ne by discriminate. discriminate.
Qed.

(* ---------------------------------------------------------------- joined with spaces *)

Lemma join_str_ok l : Forall str_ok l -> exists t, join [32] l = utf8_encode t /\ Forall line_rune t /\ last t 0 <> 13.
Proof.
  induction 1 as [|x l (tx & -> & Fx & Lx) Hl (t & Et & Ft & Lt)]; [exists []; split; [reflexivity|split; [constructor|discriminate]]|].
  destruct l as [|y l'].
  - exists tx. cbn [join]. auto.
  - exists (tx ++ 32 :: t). change (join [32] (utf8_encode tx :: y :: l')) with (utf8_encode tx ++ [32] ++ join [32] (y :: l')).
    rewrite Et. split; [rewrite utf8_encode_app, encode_ascii_cons by lia; reflexivity|].
    split; [apply Forall_app; split; [exact Fx|constructor; [split; [reflexivity|discriminate]|exact Ft]]|].
    rewrite last_app_ne by discriminate. destruct t as [|c t']; [discriminate|]. exact Lt.
Qed.

Lemma ends_in_cr_encode t : last t 0 <> 13 -> ends_in_cr (utf8_encode t) = false.
Proof.
  intros H. destruct (list_snoc_cases t) as [->|(p & r & ->)]; [reflexivity|].
  rewrite last_app_ne in H by discriminate. cbn [last] in H.
  rewrite utf8_encode_app. change (utf8_encode [r]) with (encode_rune r ++ []). rewrite app_nil_r.
  rewrite ends_in_cr_app by apply encode_rune_nonempty. apply ends_in_cr_none.
  destruct (encode_rune_bytes r) as [[_ ->]|[_ Hb]].
  - cbn [forallb]. apply N.eqb_neq in H. rewrite H. reflexivity.
  - rewrite forallb_forall. intros b Hb'. rewrite Forall_forall in Hb. specialize (Hb b Hb'). apply negb_true_iff, N.eqb_neq. lia.
Qed.

(* ---------------------------------------------------------------- the tags of summary lines that are line texts *)

Definition text_line (l : bytes) : Prop := exists t, l = utf8_encode t /\ text_ok t = true.

Theorem tags_text_ok lines : Forall text_line lines ->
  exists tgr, join [32] (go_tags_of lines) = utf8_encode tgr /\ text_ok tgr = true /\ no_cr (utf8_encode tgr) = true.
Proof.
  intros Hl.
  assert (Hs : Forall str_ok (go_tags_of lines)).
  { unfold go_tags_of, ts_to_strings. rewrite summary_original. unfold found_tags.
    apply Forall_forall. intros s Hs. apply in_map_iff in Hs as (tg & <- & Htg). apply in_flat_map in Htg as (line & Hline & Htg).
    unfold line_tags in Htg. apply in_map_iff in Htg as (m & <- & Hm).
    rewrite Forall_forall in Hl. destruct (Hl line Hline) as (t & -> & Tt).
    unfold find_all in Hm. destruct (find_all_fuel_incl go_is_letter _ _ m Hm) as (I1 & I2 & Hne & Hn).
    exact (tag_string_ok m _ (good_syms_of_text t Tt) I1 I2 Hne Hn). }
  destruct (join_str_ok _ Hs) as (t & Et & Ft & Lt). exists t. split; [exact Et|]. split; [apply text_ok_runes; exact Ft|].
  unfold no_cr. rewrite (ends_in_cr_encode t Lt). reflexivity.
Qed.

(* [tags_ok] holds of every specification-conforming file *)
Theorem tags_ok_conforming recs : forallb (fun rg => wf_record (fst rg)) recs = true -> tags_ok recs.
Proof.
  intros W rg Hrg. rewrite forallb_forall in W. specialize (W rg Hrg). destruct (wf_record_inv _ W) as (_ & _ & _ & _ & Wes & _).
  unfold a_tags. destruct (nth_error (rec_entries (denote_record (fst rg))) _) as [oe|] eqn:E.
  - apply tags_text_ok. apply nth_error_In in E. unfold denote_record in E. cbn [rec_entries] in E.
    apply in_map_iff in E as (se & <- & Hse). rewrite forallb_forall in Wes. specialize (Wes se Hse).
    unfold wf_entry in Wes. apply andb_true_iff in Wes as [W1 Wm]. apply andb_true_iff in W1 as [_ Wf].
    unfold denote_entry. cbn [e_summary]. constructor.
    + destruct (se_first se) as [t|]; [exists t; auto|exists []; auto].
    + apply Forall_forall. intros l Hl'. apply in_map_iff in Hl' as (t & <- & Ht). rewrite forallb_forall in Wm. specialize (Wm t Ht).
      apply andb_true_iff in Wm as [Tt _]. exists t. auto.
  - exists []. repeat split.
Qed.
