(* Lemmas about Model/Eval.v (C02): total, should-total and diff follow the specification's evaluation
   rules; closing open ranges at an instant. *)
From Klog Require Import Base.Prelude Model.Calendar Model.Values Model.Record Model.Eval Proofs.Values.
From Coq Require Import ZifyBool Permutation.
Open Scope Z_scope.

(* ================= 1. the property's own sentence ================= *)

(* "a `<` time lies on the previous and a `>` time on the next day" *)
Definition spec_offset (t : time) : Z := 1440 * shift_of t + 60 * t_hour t + t_min t.

(* "the signed duration; for a range the minutes from start to end; zero for an open range" *)
Definition spec_minutes (e : entry) : Z :=
  match e_value e with
  | VDuration d => d_mins d
  | VRange r => spec_offset (r_end r) - spec_offset (r_start r)
  | VOpen _ => 0
  end.

Lemma entry_minutes_spec e : entry_minutes e = spec_minutes e.
Proof.
  unfold entry_minutes, spec_minutes, range_minutes, spec_offset.
  destruct (e_value e) as [d|r|o]; [reflexivity| |reflexivity].
  rewrite !offset_spec. reflexivity.
Qed.

Definition zsum (xs : list Z) : Z := fold_right Z.add 0 xs.

Lemma zsum_app a b : zsum (a ++ b) = zsum a + zsum b.
Proof. unfold zsum. induction a as [|x a IH]; cbn [app fold_right] in *; lia. Qed.

Lemma zsum_perm a b : Permutation a b -> zsum a = zsum b.
Proof. unfold zsum. intros H; induction H; cbn [fold_right] in *; lia. Qed.

Definition spec_total (rs : list record) : Z := zsum (map spec_minutes (all_entries rs)).
Definition spec_should (rs : list record) : Z := zsum (map should_minutes rs).

(* ================= 2. the int64 guard, stated exactly ================= *)

(* safemath's range *)
Definition fits (z : Z) : Prop := - 9223372036854775807 <= z <= 9223372036854775807.

Lemma sm_ok_fits z : sm_ok z = true <-> fits z.
Proof. unfold sm_ok, sm_min, max_int64, fits. lia. Qed.

Lemma sm_ok_not_fits z : sm_ok z = false <-> ~ fits z.
Proof. unfold sm_ok, sm_min, max_int64, fits. lia. Qed.

(* the additions the Go code performs, in its order: acc + x1, (acc + x1) + x2, ...;
   safemath checks both operands and the result *)
Fixpoint sums_fit (acc : Z) (xs : list Z) : Prop :=
  match xs with
  | [] => True
  | x :: r => fits x /\ fits (acc + x) /\ sums_fit (acc + x) r
  end.

(* the same guard in closed form: every summand and every partial sum fits *)
Definition partial_sums_fit (xs : list Z) : Prop :=
  Forall fits xs /\ forall k : nat, fits (zsum (firstn k xs)).

Lemma sums_fit_closed_gen acc xs :
  sums_fit acc xs <->
  (Forall fits xs /\ forall k : nat, (1 <= k <= length xs)%nat -> fits (acc + zsum (firstn k xs))).
Proof.
  revert acc; induction xs as [|x r IH]; intros acc; cbn [sums_fit].
  - split; [intros _|tauto]. split; [constructor|]. cbn [length]. intros k Hk. lia.
  - rewrite IH. split.
    + intros (Hx & Hax & Hr & Hk). split; [constructor; assumption|].
      intros k Hlen. destruct k as [|k]; [lia|]. cbn [firstn zsum fold_right]. fold (zsum (firstn k r)).
      destruct k as [|k]; [cbn [firstn zsum fold_right]; replace (acc + (x + 0)) with (acc + x) by lia; exact Hax|].
      replace (acc + (x + zsum (firstn (S k) r))) with (acc + x + zsum (firstn (S k) r)) by lia.
      apply Hk. cbn [length] in Hlen. lia.
    + intros (Hall & Hk). inversion Hall as [|? ? Hx Hr]; subst.
      split; [exact Hx|]. split.
      * specialize (Hk 1%nat). cbn [firstn zsum fold_right length] in Hk.
        replace (acc + (x + 0)) with (acc + x) in Hk by lia. apply Hk. lia.
      * split; [exact Hr|]. intros k Hlen. specialize (Hk (S k)). cbn [firstn zsum fold_right length] in Hk.
        fold (zsum (firstn k r)) in Hk.
        replace (acc + x + zsum (firstn k r)) with (acc + (x + zsum (firstn k r))) by lia. apply Hk. lia.
Qed.

Lemma sums_fit_closed xs : sums_fit 0 xs <-> partial_sums_fit xs.
Proof.
  rewrite sums_fit_closed_gen. unfold partial_sums_fit. split; intros (Hall & Hk); (split; [exact Hall|]).
  - intros k. destruct (Nat.le_gt_cases k (length xs)) as [Hle|Hgt].
    + destruct k as [|k]; [cbn; unfold fits; lia|]. specialize (Hk (S k)). cbn [Z.add] in Hk. apply Hk. lia.
    + rewrite firstn_all2 by lia. destruct xs as [|x r]; [cbn; unfold fits; lia|].
      specialize (Hk (length (x :: r))). rewrite firstn_all in Hk. apply Hk. cbn [length]. lia.
  - intros k _. apply Hk.
Qed.

(* sum64 = the running addition; it succeeds exactly under the guard, and otherwise panics *)
Lemma sum64_ok acc xs : fits acc -> sums_fit acc xs -> sum64 acc xs = Ok (acc + zsum xs).
Proof.
  revert acc; induction xs as [|x r IH]; intros acc Ha H; cbn [sum64 zsum fold_right].
  - f_equal. lia.
  - destruct H as (Hx & Hax & Hr). unfold dur_plus, add64.
    apply sm_ok_fits in Ha, Hx. pose proof Hax as Hax'. apply sm_ok_fits in Hax. rewrite Ha, Hx, Hax. cbn [andb].
    rewrite (IH _ Hax' Hr). f_equal. fold (zsum r). lia.
Qed.

Lemma sum64_crash acc xs : fits acc -> ~ sums_fit acc xs -> sum64 acc xs = Crash CIntegerOverflow.
Proof.
  revert acc; induction xs as [|x r IH]; intros acc Ha H; cbn [sum64 sums_fit] in *.
  - tauto.
  - unfold dur_plus, add64. destruct (sm_ok acc && sm_ok x && sm_ok (acc + x)) eqn:E; [|reflexivity].
    apply andb_true_iff in E as [E E3]. apply andb_true_iff in E as [E1 E2].
    apply sm_ok_fits in E2, E3. apply IH; [exact E3|]. tauto.
Qed.

Lemma sums_fit_dec acc xs : sums_fit acc xs \/ ~ sums_fit acc xs.
Proof.
  revert acc; induction xs as [|x r IH]; intros acc; cbn [sums_fit]; [left; exact I|].
  destruct (IH (acc + x)) as [H|H]; [|right; tauto].
  assert (D : forall z, fits z \/ ~ fits z) by (intros z; unfold fits; lia).
  destruct (D x); [|right; tauto]. destruct (D (acc + x)); [|right; tauto]. left; tauto.
Qed.

Lemma sum64_cases acc xs : fits acc ->
  (sums_fit acc xs /\ sum64 acc xs = Ok (acc + zsum xs)) \/
  (~ sums_fit acc xs /\ sum64 acc xs = Crash CIntegerOverflow).
Proof.
  intros Ha. destruct (sums_fit_dec acc xs) as [H|H]; [left|right]; (split; [exact H|]).
  - apply sum64_ok; assumption.
  - apply sum64_crash; assumption.
Qed.

Lemma fits_0 : fits 0. Proof. unfold fits; lia. Qed.

(* ---- total ---- *)

Definition no_overflow (rs : list record) : Prop := sums_fit 0 (map spec_minutes (all_entries rs)).

Lemma map_entry_minutes es : map entry_minutes es = map spec_minutes es.
Proof. apply map_ext. exact entry_minutes_spec. Qed.

Theorem total_spec rs : no_overflow rs -> total rs = Ok (spec_total rs).
Proof.
  intros H. unfold total. rewrite map_entry_minutes. rewrite (sum64_ok 0 _ fits_0 H). reflexivity.
Qed.

Theorem total_crash_iff rs : (exists c, total rs = Crash c) <-> ~ no_overflow rs.
Proof.
  unfold total, no_overflow. rewrite map_entry_minutes.
  destruct (sum64_cases 0 (map spec_minutes (all_entries rs)) fits_0) as [[H E]|[H E]]; rewrite E.
  - split; [intros [c Hc]; discriminate|tauto].
  - split; [intros _; exact H|intros _; eexists; reflexivity].
Qed.

(* total is Ok with the specified sum, or panics with "Integer overflow": nothing else *)
Theorem total_dichotomy rs :
  (no_overflow rs /\ total rs = Ok (spec_total rs)) \/ (~ no_overflow rs /\ total rs = Crash CIntegerOverflow).
Proof.
  unfold total, no_overflow, spec_total. rewrite map_entry_minutes.
  exact (sum64_cases 0 (map spec_minutes (all_entries rs)) fits_0).
Qed.

(* the closed form of the guard *)
Theorem no_overflow_closed rs : no_overflow rs <-> partial_sums_fit (map spec_minutes (all_entries rs)).
Proof. apply sums_fit_closed. Qed.

(* K1: two entries of 9223372036854775807 minutes *)
Definition big_entry : entry := {| e_value := VDuration (mk_dur 9223372036854775807); e_summary := [] |}.
Definition k1_date : date := {| dt := {| c_year := 2020; c_month := 1; c_day := 1 |}; dt_dashes := true |}.
Definition k1_record : record :=
  {| rec_date := k1_date; rec_should := None; rec_summary := []; rec_entries := [big_entry; big_entry] |}.

Lemma total_overflow_witness : total [k1_record] = Crash CIntegerOverflow /\ Forall fits (map spec_minutes (all_entries [k1_record])).
Proof. split; [vm_compute; reflexivity|]. repeat constructor; cbn; unfold fits; lia. Qed.

Theorem total_overflow_refuted :
  exists rs, Forall fits (map spec_minutes (all_entries rs)) /\ total rs <> Ok (spec_total rs) /\ exists c, total rs = Crash c.
Proof.
  exists [k1_record]. destruct total_overflow_witness as [H1 H2]. split; [exact H2|]. rewrite H1.
  split; [discriminate|eexists; reflexivity].
Qed.

(* ================= 3. corollaries ================= *)

Lemma all_entries_app a b : all_entries (a ++ b) = all_entries a ++ all_entries b.
Proof. unfold all_entries. apply flat_map_app. Qed.

Lemma spec_total_app a b : spec_total (a ++ b) = spec_total a + spec_total b.
Proof. unfold spec_total. rewrite all_entries_app, map_app, zsum_app. reflexivity. Qed.

Lemma sums_fit_app acc a b : sums_fit acc (a ++ b) <-> sums_fit acc a /\ sums_fit (acc + zsum a) b.
Proof.
  revert acc; induction a as [|x a IH]; intros acc; cbn [app sums_fit zsum fold_right].
  - replace (acc + 0) with acc by lia. tauto.
  - rewrite IH. fold (zsum a). replace (acc + x + zsum a) with (acc + (x + zsum a)) by lia. tauto.
Qed.

Lemma no_overflow_app_l a b : no_overflow (a ++ b) -> no_overflow a.
Proof. unfold no_overflow. rewrite all_entries_app, map_app, sums_fit_app. tauto. Qed.

(* additivity over ++ of record lists *)
Theorem total_app a b : no_overflow (a ++ b) ->
  total (a ++ b) = Ok (spec_total a + spec_total b) /\ total a = Ok (spec_total a).
Proof.
  intros H. split.
  - rewrite (total_spec _ H), spec_total_app. reflexivity.
  - apply total_spec. exact (no_overflow_app_l _ _ H).
Qed.

(* a guard that does not depend on the order: the absolute values add up to at most 2^63-1 *)
Definition abs_sum (xs : list Z) : Z := zsum (map Z.abs xs).
Definition abs_fit (rs : list record) : Prop := abs_sum (map spec_minutes (all_entries rs)) <= 9223372036854775807.

Lemma abs_sum_nonneg xs : 0 <= abs_sum xs.
Proof. unfold abs_sum, zsum. induction xs as [|x r IH]; cbn [map fold_right]; lia. Qed.

Lemma abs_sum_app a b : abs_sum (a ++ b) = abs_sum a + abs_sum b.
Proof. unfold abs_sum. rewrite map_app, zsum_app. reflexivity. Qed.

Lemma abs_sum_perm a b : Permutation a b -> abs_sum a = abs_sum b.
Proof. intros H. unfold abs_sum. apply zsum_perm. apply Permutation_map. exact H. Qed.

Lemma abs_sums_fit acc xs : Z.abs acc + abs_sum xs <= 9223372036854775807 -> sums_fit acc xs.
Proof.
  revert acc; induction xs as [|x r IH]; intros acc H; cbn [sums_fit]; [exact I|].
  unfold abs_sum in *. cbn [map zsum fold_right] in H. fold (zsum (map Z.abs r)) in H.
  pose proof (abs_sum_nonneg r) as Hn. unfold abs_sum in Hn.
  split; [unfold fits; lia|]. split; [unfold fits; lia|]. apply IH. lia.
Qed.

Lemma abs_fit_no_overflow rs : abs_fit rs -> no_overflow rs.
Proof. intros H. apply abs_sums_fit. unfold abs_fit in H. cbn [Z.abs]. lia. Qed.

Lemma all_entries_perm a b : Permutation a b -> Permutation (all_entries a) (all_entries b).
Proof.
  intros H. unfold all_entries. induction H; cbn [flat_map].
  - constructor.
  - apply Permutation_app_head. assumption.
  - rewrite !app_assoc. apply Permutation_app_tail. apply Permutation_app_comm.
  - eapply Permutation_trans; eassumption.
Qed.

Lemma abs_fit_perm a b : Permutation a b -> abs_fit a -> abs_fit b.
Proof.
  intros H Ha. unfold abs_fit in *.
  rewrite <- (abs_sum_perm _ _ (Permutation_map spec_minutes (all_entries_perm _ _ H))). exact Ha.
Qed.

Lemma spec_total_perm a b : Permutation a b -> spec_total a = spec_total b.
Proof. intros H. apply zsum_perm, Permutation_map, all_entries_perm, H. Qed.

(* invariance under permutation of the records *)
Theorem total_perm a b : Permutation a b -> abs_fit a ->
  total b = total a /\ total a = Ok (spec_total a).
Proof.
  intros H Ha. rewrite (total_spec a (abs_fit_no_overflow _ Ha)).
  rewrite (total_spec b (abs_fit_no_overflow _ (abs_fit_perm _ _ H Ha))).
  rewrite (spec_total_perm _ _ H). split; reflexivity.
Qed.

(* ... and even of the entries across records *)
Theorem total_perm_entries a b : Permutation (all_entries a) (all_entries b) -> abs_fit a ->
  total b = total a.
Proof.
  intros H Ha.
  assert (Hb : abs_fit b).
  { unfold abs_fit in *. rewrite <- (abs_sum_perm _ _ (Permutation_map spec_minutes H)). exact Ha. }
  rewrite (total_spec a (abs_fit_no_overflow _ Ha)), (total_spec b (abs_fit_no_overflow _ Hb)).
  f_equal. symmetry. apply zsum_perm, Permutation_map, H.
Qed.

Lemma abs_fit_app a b : abs_fit (a ++ b) -> abs_fit a /\ abs_fit b.
Proof.
  unfold abs_fit. rewrite all_entries_app, map_app, abs_sum_app.
  pose proof (abs_sum_nonneg (map spec_minutes (all_entries a))).
  pose proof (abs_sum_nonneg (map spec_minutes (all_entries b))). lia.
Qed.

(* additivity with the three totals as klog computes them *)
Theorem total_additive a b : abs_fit (a ++ b) ->
  exists ta tb, total a = Ok ta /\ total b = Ok tb /\ total (a ++ b) = Ok (ta + tb).
Proof.
  intros H. destruct (abs_fit_app _ _ H) as [Ha Hb].
  exists (spec_total a), (spec_total b).
  rewrite (total_spec a (abs_fit_no_overflow _ Ha)), (total_spec b (abs_fit_no_overflow _ Hb)).
  rewrite (total_spec _ (abs_fit_no_overflow _ H)), spec_total_app. repeat split.
Qed.

(* the total does not look at dates, should-totals or summaries: records sharing a date stay separate *)
Theorem total_ignores_dates a b : map rec_entries a = map rec_entries b -> total a = total b.
Proof.
  intros H. unfold total, all_entries. rewrite !flat_map_concat_map. rewrite H. reflexivity.
Qed.

Theorem same_date_separate r1 r2 : rec_date r1 = rec_date r2 -> no_overflow [r1; r2] ->
  total [r1; r2] = Ok (spec_total [r1] + spec_total [r2]).
Proof. intros _ H. exact (proj1 (total_app [r1] [r2] H)). Qed.

(* overlapping ranges count fully: two ranges in one record, whatever their relative position *)
Lemma spec_offset_bounds t : valid_time t -> -1440 <= spec_offset t < 2880.
Proof. intros H. unfold spec_offset. rewrite <- offset_spec. apply offset_bounds, H. Qed.

Theorem overlapping_ranges_count_fully d sh sm r1 r2 s1 s2 :
  valid_time (r_start r1) -> valid_time (r_end r1) -> valid_time (r_start r2) -> valid_time (r_end r2) ->
  total [{| rec_date := d; rec_should := sh; rec_summary := sm;
            rec_entries := [{| e_value := VRange r1; e_summary := s1 |}; {| e_value := VRange r2; e_summary := s2 |}] |}]
  = Ok ((spec_offset (r_end r1) - spec_offset (r_start r1)) + (spec_offset (r_end r2) - spec_offset (r_start r2))).
Proof.
  intros H1 H2 H3 H4.
  apply spec_offset_bounds in H1, H2, H3, H4.
  rewrite total_spec.
  - unfold spec_total, all_entries. cbn [flat_map rec_entries app map spec_minutes e_value zsum fold_right]. f_equal. lia.
  - unfold no_overflow, all_entries. cbn [flat_map rec_entries app map spec_minutes e_value sums_fit]. unfold fits. lia.
Qed.

(* ---- should-total ---- *)

Definition should_no_overflow (rs : list record) : Prop := sums_fit 0 (map should_minutes rs).

Theorem should_total_spec rs :
  (should_no_overflow rs /\ should_total_sum rs = Ok (spec_should rs)) \/
  (~ should_no_overflow rs /\ should_total_sum rs = Crash CIntegerOverflow).
Proof. exact (sum64_cases 0 (map should_minutes rs) fits_0). Qed.

Theorem should_total_ok rs : should_no_overflow rs -> should_total_sum rs = Ok (spec_should rs).
Proof. intros H. exact (sum64_ok 0 _ fits_0 H). Qed.

Theorem should_total_app a b : should_no_overflow (a ++ b) ->
  should_total_sum (a ++ b) = Ok (spec_should a + spec_should b).
Proof.
  intros H. rewrite (should_total_ok _ H). unfold spec_should. rewrite map_app, zsum_app. reflexivity.
Qed.

Theorem should_total_perm a b : Permutation a b -> abs_sum (map should_minutes a) <= 9223372036854775807 ->
  should_total_sum b = should_total_sum a /\ should_total_sum a = Ok (spec_should a).
Proof.
  intros H Ha.
  assert (Hb : abs_sum (map should_minutes b) <= 9223372036854775807)
    by (rewrite <- (abs_sum_perm _ _ (Permutation_map should_minutes H)); exact Ha).
  rewrite (should_total_ok a), (should_total_ok b).
  - unfold spec_should. rewrite (zsum_perm _ _ (Permutation_map should_minutes H)). split; reflexivity.
  - apply abs_sums_fit. cbn [Z.abs]. lia.
  - apply abs_sums_fit. cbn [Z.abs]. lia.
Qed.

(* ---- diff ---- *)

Theorem diff_spec sh t :
  (fits t /\ fits sh /\ fits (t - sh) -> diff sh t = Ok (t - sh)) /\
  (~ (fits t /\ fits sh /\ fits (t - sh)) -> diff sh t = Crash CIntegerOverflow).
Proof.
  unfold diff, dur_plus, add64. replace (t + - sh) with (t - sh) by lia.
  destruct (sm_ok t && sm_ok (- sh) && sm_ok (t - sh)) eqn:E.
  - split; [reflexivity|]. intros H. exfalso. apply H.
    unfold sm_ok, sm_min, max_int64, fits in *. lia.
  - split; [|reflexivity]. intros H. exfalso. unfold sm_ok, sm_min, max_int64, fits in *. lia.
Qed.

(* the three numbers klog prints, together *)
Theorem total_should_diff rs :
  no_overflow rs -> should_no_overflow rs -> fits (spec_total rs - spec_should rs) ->
  exists t sh, total rs = Ok t /\ should_total_sum rs = Ok sh /\ diff sh t = Ok (t - sh) /\
               t = spec_total rs /\ sh = spec_should rs.
Proof.
  intros Ht Hs Hd. exists (spec_total rs), (spec_should rs).
  rewrite (total_spec _ Ht), (should_total_ok _ Hs). repeat split.
  apply (proj1 (diff_spec _ _)). split; [|split; [|exact Hd]].
  - pose proof (sum64_ok 0 _ fits_0 Ht) as H. unfold no_overflow in Ht.
    apply sums_fit_closed in Ht. destruct Ht as [_ Hk].
    specialize (Hk (length (map spec_minutes (all_entries rs)))). rewrite firstn_all in Hk. exact Hk.
  - unfold should_no_overflow in Hs. apply sums_fit_closed in Hs. destruct Hs as [_ Hk].
    specialize (Hk (length (map should_minutes rs))). rewrite firstn_all in Hk. exact Hk.
Qed.

(* ================= 4. closing open ranges at an instant (--now) ================= *)

Lemma cdate_eqb_iff a b : cdate_eqb a b = true <-> a = b.
Proof.
  unfold cdate_eqb. destruct a as [y1 m1 d1], b as [y2 m2 d2]; cbn [c_year c_month c_day]. split.
  - intros H. f_equal; lia.
  - intros [= -> -> ->]. lia.
Qed.

(* the clock reading h:m as a klog time, on the record's own day (s = 0) or the day after (s = 1) *)
Definition clock (h m s : Z) : time := {| t_hour := h; t_min := m; t_shift := s; t_24h := true |}.
Definition valid_clock (h m : Z) : Prop := 0 <= h <= 23 /\ 0 <= m <= 59.

Lemma clock_offset h m s : 0 <= s <= 1 -> time_offset (clock h m s) = 60 * h + m + 1440 * s.
Proof.
  intros Hs. rewrite offset_spec. unfold shift_of, clock; cbn [t_hour t_min t_shift].
  destruct (s <? 0) eqn:E1; [lia|]. destruct (0 <? s) eqn:E2; lia.
Qed.

Lemma new_time_clock h m : valid_clock h m -> new_time h m 0 true = Ok (clock h m 0).
Proof.
  intros [Hh Hm]. unfold new_time.
  destruct ((h =? 24) && (m =? 0) && (0 <=? 0)) eqn:E; [lia|].
  destruct ((0 <=? h) && (h <=? 23) && (0 <=? m) && (m <=? 59)) eqn:E2; [reflexivity|lia].
Qed.

Lemma time_plus_clock h m : valid_clock h m -> time_plus (clock h m 0) 1440 = Ok (clock h m 1).
Proof.
  intros [Hh Hm]. unfold time_plus. rewrite clock_offset by lia.
  unfold add64. replace (sm_ok (60 * h + m + 1440 * 0)) with true by (unfold sm_ok, sm_min, max_int64; lia).
  replace (sm_ok 1440) with true by reflexivity.
  replace (sm_ok (60 * h + m + 1440 * 0 + 1440)) with true by (unfold sm_ok, sm_min, max_int64; lia).
  cbn [andb]. set (mins := 60 * h + m + 1440 * 0 + 1440).
  destruct ((2 * 1440 <=? mins) || (mins <? -1440)) eqn:E1; [lia|].
  destruct (mins <? 0) eqn:E2; [lia|].
  destruct (1440 <? mins) eqn:E3.
  - destruct (quot_rem_nonneg (mins - 1440) ltac:(lia)) as (Hq & Hr & Hq0).
    assert (go_div (mins - 1440) 60 = h) by lia. assert (go_mod (mins - 1440) 60 = m) by lia.
    rewrite H, H0. unfold new_time, clock. cbn [t_24h].
    destruct ((h =? 24) && (m =? 0) && (1 <=? 0)) eqn:E4; [lia|].
    destruct ((0 <=? h) && (h <=? 23) && (0 <=? m) && (m <=? 59)) eqn:E5; [reflexivity|lia].
  - assert (Hm0 : mins = 1440) by lia. assert (h = 0) by lia. assert (m = 0) by lia. subst h m.
    rewrite Hm0. reflexivity.
Qed.

(* Record.OpenRange: None iff no entry is an open range *)
Definition no_open (es : list entry) : Prop := Forall (fun e => is_open e = false) es.

(* the entries up to and including the first open range *)
Inductive first_open : list entry -> list entry -> entry -> open_range -> list entry -> Prop :=
| FirstOpen pre e o post : no_open pre -> e_value e = VOpen o -> first_open (pre ++ e :: post) pre e o post.

Lemma first_open_cases es : no_open es \/ exists pre e o post, first_open es pre e o post.
Proof.
  induction es as [|e r IH]; [left; constructor|].
  destruct (e_value e) as [d|rg|o] eqn:E.
  - destruct IH as [IH|(pre & e' & o & post & IH)].
    + left. constructor; [unfold is_open; rewrite E; reflexivity|exact IH].
    + right. inversion IH; subst. exists (e :: pre), e', o, post.
      apply (FirstOpen (e :: pre)); [|assumption]. constructor; [unfold is_open; rewrite E; reflexivity|assumption].
  - destruct IH as [IH|(pre & e' & o & post & IH)].
    + left. constructor; [unfold is_open; rewrite E; reflexivity|exact IH].
    + right. inversion IH; subst. exists (e :: pre), e', o, post.
      apply (FirstOpen (e :: pre)); [|assumption]. constructor; [unfold is_open; rewrite E; reflexivity|assumption].
  - right. exists [], e, o, r. apply (FirstOpen []); [constructor|exact E].
Qed.

Lemma first_open_inv es pre e o post : first_open es pre e o post ->
  es = pre ++ e :: post /\ no_open pre /\ e_value e = VOpen o.
Proof. intros H. inversion H; subst. repeat split; assumption. Qed.

Lemma filter_no_open es : no_open es -> filter is_open es = [].
Proof. intros H. induction H as [|e r He Hr IH]; cbn [filter]; [reflexivity|]. rewrite He. exact IH. Qed.

Lemma open_range_of_none r : no_open (rec_entries r) -> open_range_of r = None.
Proof. intros H. unfold open_range_of. rewrite (filter_no_open _ H). reflexivity. Qed.

Lemma open_range_of_some r pre e o post : first_open (rec_entries r) pre e o post -> open_range_of r = Some o.
Proof.
  intros H. inversion H as [pre' e' o' post' Hpre He Heq]; subst. unfold open_range_of. rewrite <- Heq.
  rewrite filter_app, (filter_no_open _ Hpre). cbn [app filter]. unfold is_open. rewrite He. cbn. rewrite He. reflexivity.
Qed.

Lemma no_open_not_first es pre e o post : no_open es -> first_open es pre e o post -> False.
Proof.
  intros Hn H. inversion H as [pre' e' o' post' Hpre He Heq]; subst.
  unfold no_open in Hn. rewrite Forall_forall in Hn. specialize (Hn e ltac:(apply in_or_app; right; left; reflexivity)).
  unfold is_open in Hn. rewrite He in Hn. discriminate.
Qed.

Lemma first_open_unique es pre e o post pre' e' o' post' :
  first_open es pre e o post -> first_open es pre' e' o' post' -> pre = pre' /\ e = e' /\ o = o' /\ post = post'.
Proof.
  intros H H'. inversion H as [p1 e1 o1 q1 Hp1 He1 Heq1]; subst. inversion H' as [p2 e2 o2 q2 Hp2 He2 Heq2]; subst.
  clear H H'. revert pre' Hp2 Heq2. induction pre as [|x pre IH]; intros pre' Hp2 Heq2.
  - destruct pre' as [|y pre']; cbn [app] in Heq2.
    + injection Heq2 as -> ->. rewrite He1 in He2. injection He2 as ->. repeat split.
    + injection Heq2 as -> _. inversion Hp2 as [|? ? Hy _]; subst. unfold is_open in Hy. rewrite He1 in Hy. discriminate.
  - destruct pre' as [|y pre']; cbn [app] in Heq2.
    + injection Heq2 as <- _. inversion Hp1 as [|? ? Hx _]; subst. unfold is_open in Hx. rewrite He2 in Hx. discriminate.
    + injection Heq2 as -> Heq2. inversion Hp1; subst. inversion Hp2; subst.
      destruct (IH ltac:(assumption) pre' ltac:(assumption) Heq2) as (-> & -> & -> & ->). repeat split.
Qed.

(* what closing does to the entries: the first open range becomes a range ending at [end_] *)
Definition closed_entry (e : entry) (o : open_range) (end_ : time) : entry :=
  {| e_value := VRange {| r_start := o_start o; r_end := end_; r_spaces := true |}; e_summary := e_summary e |}.

Lemma end_open_range_spec es pre e o post end_ : first_open es pre e o post ->
  (time_offset (o_start o) <= time_offset end_ -> end_open_range es end_ = Some (pre ++ closed_entry e o end_ :: post)) /\
  (time_offset end_ < time_offset (o_start o) -> end_open_range es end_ = None).
Proof.
  intros H. inversion H as [pre' e' o' post' Hpre He Heq]; subst. clear H.
  induction Hpre as [|x pre Hx Hpre IH]; cbn [app end_open_range].
  - rewrite He. unfold new_range, time_geb. split; intros Hle.
    + destruct (time_offset end_ >=? time_offset (o_start o)) eqn:E; [reflexivity|lia].
    + destruct (time_offset end_ >=? time_offset (o_start o)) eqn:E; [lia|reflexivity].
  - unfold is_open in Hx. destruct (e_value x) eqn:Ex; try discriminate.
    + destruct IH as [IH1 IH2]. split; intros Hle; [rewrite (IH1 Hle)|rewrite (IH2 Hle)]; reflexivity.
    + destruct IH as [IH1 IH2]. split; intros Hle; [rewrite (IH1 Hle)|rewrite (IH2 Hle)]; reflexivity.
Qed.

(* the specification of closing one record at the instant (today, h:m); [before] is the day before today *)
Inductive close_rel (today before : cdate) (h m : Z) : record -> record -> Prop :=
| CloseNone r : no_open (rec_entries r) -> close_rel today before h m r r
| CloseSome r pre e o post s :
    first_open (rec_entries r) pre e o post ->
    (dt (rec_date r) = today /\ s = 0 \/ dt (rec_date r) <> today /\ dt (rec_date r) = before /\ s = 1) ->
    time_offset (o_start o) <= 60 * h + m + 1440 * s ->
    close_rel today before h m r
      {| rec_date := rec_date r; rec_should := rec_should r; rec_summary := rec_summary r;
         rec_entries := pre ++ closed_entry e o (clock h m s) :: post |}.

(* a record that cannot be closed at this instant *)
Definition uncloseable (today before : cdate) (h m : Z) (r : record) : Prop :=
  exists pre e o post, first_open (rec_entries r) pre e o post /\
    ((dt (rec_date r) <> today /\ dt (rec_date r) <> before) \/
     (dt (rec_date r) = today /\ 60 * h + m < time_offset (o_start o)) \/
     (dt (rec_date r) <> today /\ dt (rec_date r) = before /\ 60 * h + m + 1440 < time_offset (o_start o))).

Lemma close_one_cases today before h m r :
  (exists r', close_rel today before h m r r') \/ uncloseable today before h m r.
Proof.
  destruct (first_open_cases (rec_entries r)) as [Hn|(pre & e & o & post & Hf)].
  - left. exists r. constructor. exact Hn.
  - destruct (cdate_eqb (dt (rec_date r)) today) eqn:E1.
    + apply cdate_eqb_iff in E1.
      destruct (Z_le_gt_dec (time_offset (o_start o)) (60 * h + m + 1440 * 0)) as [Hle|Hgt].
      * left. eexists. eapply CloseSome; [exact Hf|left; split; [exact E1|reflexivity]|exact Hle].
      * right. exists pre, e, o, post. split; [exact Hf|]. right. left. split; [exact E1|lia].
    + assert (N1 : dt (rec_date r) <> today) by (intros X; apply cdate_eqb_iff in X; congruence).
      destruct (cdate_eqb (dt (rec_date r)) before) eqn:E2.
      * apply cdate_eqb_iff in E2.
        destruct (Z_le_gt_dec (time_offset (o_start o)) (60 * h + m + 1440 * 1)) as [Hle|Hgt].
        -- left. eexists. eapply CloseSome; [exact Hf|right; repeat split; assumption|exact Hle].
        -- right. exists pre, e, o, post. split; [exact Hf|]. right. right. repeat split; [assumption..|lia].
      * assert (N2 : dt (rec_date r) <> before) by (intros X; apply cdate_eqb_iff in X; congruence).
        right. exists pre, e, o, post. split; [exact Hf|]. left. split; assumption.
Qed.

Lemma close_rel_not_uncloseable today before h m r r' :
  close_rel today before h m r r' -> uncloseable today before h m r -> False.
Proof.
  intros Hc (pre & e & o & post & Hf & Hu). inversion Hc as [r0 Hn|r0 pre' e' o' post' s Hf' Hd Hle]; subst.
  - exact (no_open_not_first _ _ _ _ _ Hn Hf).
  - destruct (first_open_unique _ _ _ _ _ _ _ _ _ Hf Hf') as (-> & -> & -> & ->).
    destruct Hd as [[D1 ->]|(D1 & D2 & ->)], Hu as [[U1 U2]|[[U1 U2]|(U1 & U2 & U3)]]; try contradiction; lia.
Qed.

(* the loop, record by record *)
Lemma close_loop_step_ok today before h m r r' rest : valid_clock h m ->
  close_rel today before h m r r' ->
  close_loop today before (clock h m 0) (r :: rest) =
  (let* rest' := close_loop today before (clock h m 0) rest in Ok (r' :: rest')).
Proof.
  intros Hv Hc. cbn [close_loop]. inversion Hc as [r0 Hn|r0 pre e o post s Hf Hd Hle]; subst.
  - rewrite (open_range_of_none _ Hn). reflexivity.
  - rewrite (open_range_of_some _ _ _ _ _ Hf).
    destruct Hd as [[Hd ->]|(Hd1 & Hd2 & ->)].
    + rewrite (proj2 (cdate_eqb_iff _ _) Hd). cbn [bind].
      rewrite (proj1 (end_open_range_spec _ _ _ _ _ (clock h m 0) Hf)); [reflexivity|].
      rewrite clock_offset; lia.
    + destruct (cdate_eqb (dt (rec_date r)) today) eqn:E1; [apply cdate_eqb_iff in E1; contradiction|].
      rewrite (proj2 (cdate_eqb_iff _ _) Hd2). rewrite (time_plus_clock _ _ Hv). cbn [bind].
      rewrite (proj1 (end_open_range_spec _ _ _ _ _ (clock h m 1) Hf)); [reflexivity|].
      rewrite clock_offset; lia.
Qed.

Lemma close_loop_step_err today before h m r rest : valid_clock h m ->
  uncloseable today before h m r ->
  close_loop today before (clock h m 0) (r :: rest) = Err EUncloseable.
Proof.
  intros Hv (pre & e & o & post & Hf & Hu). cbn [close_loop].
  rewrite (open_range_of_some _ _ _ _ _ Hf).
  destruct Hu as [(N1 & N2)|[(E1 & Hlt)|(N1 & E2 & Hlt)]].
  - destruct (cdate_eqb (dt (rec_date r)) today) eqn:E1; [apply cdate_eqb_iff in E1; contradiction|].
    destruct (cdate_eqb (dt (rec_date r)) before) eqn:E2; [apply cdate_eqb_iff in E2; contradiction|]. reflexivity.
  - rewrite (proj2 (cdate_eqb_iff _ _) E1). cbn [bind].
    rewrite (proj2 (end_open_range_spec _ _ _ _ _ (clock h m 0) Hf)); [reflexivity|].
    rewrite clock_offset; lia.
  - destruct (cdate_eqb (dt (rec_date r)) today) eqn:E1; [apply cdate_eqb_iff in E1; contradiction|].
    rewrite (proj2 (cdate_eqb_iff _ _) E2). rewrite (time_plus_clock _ _ Hv). cbn [bind].
    rewrite (proj2 (end_open_range_spec _ _ _ _ _ (clock h m 1) Hf)); [reflexivity|].
    rewrite clock_offset; lia.
Qed.

Lemma close_loop_spec today before h m rs : valid_clock h m ->
  (exists rs', close_loop today before (clock h m 0) rs = Ok rs' /\ Forall2 (close_rel today before h m) rs rs') \/
  (close_loop today before (clock h m 0) rs = Err EUncloseable /\ Exists (uncloseable today before h m) rs).
Proof.
  intros Hv. induction rs as [|r rest IH].
  - left. exists []. split; [reflexivity|constructor].
  - destruct (close_one_cases today before h m r) as [[r' Hc]|Hu].
    + rewrite (close_loop_step_ok _ _ _ _ _ _ rest Hv Hc).
      destruct IH as [(rs' & E & HF)|(E & HE)]; rewrite E; cbn [bind].
      * left. exists (r' :: rs'). split; [reflexivity|constructor; assumption].
      * right. split; [reflexivity|apply Exists_cons_tl; exact HE].
    + right. split; [apply close_loop_step_err; assumption|apply Exists_cons_hd; exact Hu].
Qed.

Lemma Forall2_close_no_uncloseable today before h m rs rs' :
  Forall2 (close_rel today before h m) rs rs' -> ~ Exists (uncloseable today before h m) rs.
Proof.
  intros HF HE. induction HF as [|r r' rs rs' Hc HF IH]; inversion HE; subst.
  - eapply close_rel_not_uncloseable; eassumption.
  - apply IH. assumption.
Qed.

(* the full statement about close_open_ranges *)
Theorem close_open_ranges_spec today before h m rs : valid_clock h m -> plus_days today (-1) = Ok before ->
  (forall rs', close_open_ranges today h m rs = Ok rs' <-> Forall2 (close_rel today before h m) rs rs') /\
  ((exists e, close_open_ranges today h m rs = Err e) <-> Exists (uncloseable today before h m) rs) /\
  (forall e, close_open_ranges today h m rs = Err e -> e = EUncloseable) /\
  (forall c, close_open_ranges today h m rs <> Crash c).
Proof.
  intros Hv Hb. unfold close_open_ranges. rewrite Hb, (new_time_clock _ _ Hv). cbn [bind].
  destruct (close_loop_spec today before h m rs Hv) as [(rs0 & E & HF)|(E & HE)]; rewrite E.
  - split; [|split; [|split]].
    + intros rs'. split.
      * intros [= <-]. exact HF.
      * intros HF'. f_equal. clear E. revert rs' HF'. induction HF as [|r r0 rs rs0 Hc HF IH]; intros rs' HF'.
        -- inversion HF'. reflexivity.
        -- inversion HF' as [|? r1 ? rs1 Hc' HF'']; subst. f_equal; [|apply IH; exact HF''].
           inversion Hc as [? Hn|? pre e o post s Hf Hd Hle]; inversion Hc' as [? Hn'|? pre' e' o' post' s' Hf' Hd' Hle']; subst; try reflexivity.
           ++ exfalso. eapply no_open_not_first; eassumption.
           ++ exfalso. eapply no_open_not_first; eassumption.
           ++ destruct (first_open_unique _ _ _ _ _ _ _ _ _ Hf Hf') as (-> & -> & -> & ->).
              assert (s = s') by (destruct Hd as [[? ->]|(? & ? & ->)], Hd' as [[? ->]|(? & ? & ->)]; try reflexivity; contradiction).
              subst s'. reflexivity.
    + split; [intros [e He]; discriminate|]. intros HE. exfalso. exact (Forall2_close_no_uncloseable _ _ _ _ _ _ HF HE).
    + intros e He. discriminate.
    + intros c Hc. discriminate.
  - split; [|split; [|split]].
    + intros rs'. split; [intros H; discriminate|]. intros HF. exfalso. exact (Forall2_close_no_uncloseable _ _ _ _ _ _ HF HE).
    + split; [intros _; exact HE|intros _; eexists; reflexivity].
    + intros e [= <-]. reflexivity.
    + intros c Hc. discriminate.
Qed.

(* ---- the total after closing ---- *)

(* minutes gained by closing the record's first open range at the instant *)
Definition closing_gain (today : cdate) (h m : Z) (r : record) : Z :=
  match open_range_of r with
  | None => 0
  | Some o => (60 * h + m + (if cdate_eqb (dt (rec_date r)) today then 0 else 1440)) - spec_offset (o_start o)
  end.

Lemma zsum_spec_app a b : zsum (map spec_minutes (a ++ b)) = zsum (map spec_minutes a) + zsum (map spec_minutes b).
Proof. rewrite map_app, zsum_app. reflexivity. Qed.

Lemma close_rel_minutes today before h m r r' : close_rel today before h m r r' ->
  zsum (map spec_minutes (rec_entries r')) = zsum (map spec_minutes (rec_entries r)) + closing_gain today h m r.
Proof.
  intros Hc. inversion Hc as [r0 Hn|r0 pre e o post s Hf Hd Hle]; subst.
  - unfold closing_gain. rewrite (open_range_of_none _ Hn). lia.
  - unfold closing_gain. rewrite (open_range_of_some _ _ _ _ _ Hf). cbn [rec_entries].
    destruct (first_open_inv _ _ _ _ _ Hf) as (Heq & Hpre & He). rewrite Heq. rewrite !zsum_spec_app.
    cbn [map]. unfold zsum at 2 4. cbn [fold_right]. fold (zsum (map spec_minutes post)).
    assert (He0 : spec_minutes e = 0) by (unfold spec_minutes; rewrite He; reflexivity). rewrite He0.
    unfold spec_minutes at 2. cbn [closed_entry e_value r_start r_end].
    assert (Hs : 0 <= s <= 1) by (destruct Hd as [[_ ->]|(_ & _ & ->)]; lia).
    pose proof (clock_offset h m s Hs) as Hco. rewrite offset_spec in Hco. fold (spec_offset (clock h m s)) in Hco.
    rewrite Hco.
    destruct Hd as [[Hd ->]|(Hd1 & Hd2 & ->)].
    + rewrite (proj2 (cdate_eqb_iff _ _) Hd). lia.
    + destruct (cdate_eqb (dt (rec_date r)) today) eqn:E1; [apply cdate_eqb_iff in E1; contradiction|]. lia.
Qed.

Lemma spec_total_cons r rs : spec_total (r :: rs) = zsum (map spec_minutes (rec_entries r)) + spec_total rs.
Proof. unfold spec_total, all_entries. cbn [flat_map]. apply zsum_spec_app. Qed.

Lemma close_rel_total today before h m rs rs' : Forall2 (close_rel today before h m) rs rs' ->
  spec_total rs' = spec_total rs + zsum (map (closing_gain today h m) rs).
Proof.
  intros HF. induction HF as [|r r' rs rs' Hc HF IH]; [reflexivity|].
  rewrite !spec_total_cons, IH, (close_rel_minutes _ _ _ _ _ _ Hc). cbn [map zsum fold_right].
  fold (zsum (map (closing_gain today h m) rs)). lia.
Qed.

Theorem total_now_spec today before h m rs rs' : valid_clock h m -> plus_days today (-1) = Ok before ->
  close_open_ranges today h m rs = Ok rs' -> no_overflow rs' ->
  total rs' = Ok (spec_total rs + zsum (map (closing_gain today h m) rs)) /\
  (forall t, total rs = Ok t -> total rs' = Ok (t + zsum (map (closing_gain today h m) rs))).
Proof.
  intros Hv Hb Hc Hno.
  apply (proj1 (close_open_ranges_spec today before h m rs Hv Hb)) in Hc.
  rewrite (total_spec _ Hno), (close_rel_total _ _ _ _ _ _ Hc). split; [reflexivity|].
  intros t Ht. destruct (total_dichotomy rs) as [[_ E]|[_ E]]; rewrite E in Ht; [|discriminate].
  injection Ht as <-. reflexivity.
Qed.

(* records from the parser have at most one open range; then closing leaves no open range behind,
   i.e. EVERY open range is evaluated as closed at the instant *)
Definition at_most_one_open (r : record) : Prop :=
  forall pre e o post, first_open (rec_entries r) pre e o post -> no_open post.

Lemma no_open_app a b : no_open a -> no_open b -> no_open (a ++ b).
Proof. intros Ha Hb. apply Forall_app. split; assumption. Qed.

Theorem close_leaves_no_open today before h m rs rs' :
  Forall2 (close_rel today before h m) rs rs' -> Forall at_most_one_open rs ->
  Forall (fun r' => no_open (rec_entries r')) rs'.
Proof.
  intros HF. induction HF as [|r r' rs rs' Hc HF IH]; intros Hone; [constructor|].
  inversion Hone as [|? ? H1 Hrest]; subst. constructor; [|exact (IH Hrest)].
  inversion Hc as [r0 Hn|r0 pre e o post s Hf Hd Hle]; subst; [exact Hn|].
  cbn [rec_entries]. specialize (H1 _ _ _ _ Hf). inversion Hf; subst.
  apply no_open_app; [assumption|]. constructor; [reflexivity|exact H1].
Qed.

(* a record without an open range is returned unchanged *)
Theorem close_rel_unchanged today before h m r r' :
  close_rel today before h m r r' -> no_open (rec_entries r) -> r' = r.
Proof.
  intros Hc Hn. inversion Hc as [r0 _|r0 pre e o post s Hf Hd Hle]; subst; [reflexivity|].
  exfalso. exact (no_open_not_first _ _ _ _ _ Hn Hf).
Qed.

(* non-vacuity material: 2020-01-01 with 8:00-?, 2019-12-31 with 23:00-? and a duration, closed at 2020-01-01 9:30 *)
Definition ex_today : cdate := {| c_year := 2020; c_month := 1; c_day := 1 |}.
Definition ex_before : cdate := {| c_year := 2019; c_month := 12; c_day := 31 |}.
Definition ex_open (h : Z) : entry :=
  {| e_value := VOpen {| o_start := clock h 0 0; o_spaces := true; o_extra := 0 |}; e_summary := [] |}.
Definition ex_dur (m : Z) : entry := {| e_value := VDuration (mk_dur m); e_summary := [] |}.
Definition ex_records : list record :=
  [ {| rec_date := {| dt := ex_today; dt_dashes := true |}; rec_should := Some 480; rec_summary := [];
       rec_entries := [ex_dur 30; ex_open 8] |};
    {| rec_date := {| dt := ex_before; dt_dashes := true |}; rec_should := None; rec_summary := [];
       rec_entries := [ex_open 23; ex_dur (-15)] |};
    {| rec_date := {| dt := ex_before; dt_dashes := true |}; rec_should := Some (-60); rec_summary := [];
       rec_entries := [ex_dur 45] |} ].

(* the hypothesis "today has a day before" is needed: on 0000-01-01 Date.PlusDays(-1) panics, whatever the records *)
Theorem close_first_day_crash h m rs :
  close_open_ranges {| c_year := 0; c_month := 1; c_day := 1 |} h m rs = Crash CUnrepresentableDate.
Proof. reflexivity. Qed.

Theorem close_first_day_refuted :
  exists today h m rs, valid_clock h m /\ exists c, close_open_ranges today h m rs = Crash c.
Proof.
  exists {| c_year := 0; c_month := 1; c_day := 1 |}, 0, 0, []. split; [unfold valid_clock; lia|].
  eexists. apply close_first_day_crash.
Qed.
