(* Lemmas about Model/Parallel.v (C07): the parallel batch parser returns what the serial parser returns,
   for every worker count and every arrival order of the workers' results. *)
From Klog Require Import Base.Prelude Base.Utf8 Model.Values Model.Record Model.Lines Model.Parser Model.Parallel
  Proofs.Lines.
From Coq Require Import ZifyBool Permutation.
Open Scope nat_scope.

(* ================= 1. collecting results by index: the arrival order cannot matter ================= *)

Lemma set_nth_length {A} i (x : A) l : length (set_nth i x l) = length l.
Proof.
  revert i; induction l as [|y l IH]; intros i; [destruct i; reflexivity|].
  destruct i as [|i]; cbn [set_nth length]; [reflexivity|]. rewrite IH. reflexivity.
Qed.

Lemma nth_set_nth_eq {A} i (x d : A) l : i < length l -> nth i (set_nth i x l) d = x.
Proof.
  revert i; induction l as [|y l IH]; intros i H; [cbn in H; lia|].
  destruct i as [|i]; cbn [set_nth nth]; [reflexivity|]. apply IH. cbn in H. lia.
Qed.

Lemma nth_set_nth_neq {A} i j (x d : A) l : i <> j -> nth j (set_nth i x l) d = nth j l d.
Proof.
  revert i j; induction l as [|y l IH]; intros i j H; [destruct i; reflexivity|].
  destruct i as [|i], j as [|j]; cbn [set_nth nth]; try reflexivity; [lia|]. apply IH. lia.
Qed.

Definition arrive {A} (acc : list A) (ia : nat * A) : list A := set_nth (fst ia) (snd ia) acc.

Lemma fold_arrive_length {A} (arr : list (nat * A)) acc : length (fold_left arrive arr acc) = length acc.
Proof.
  revert acc; induction arr as [|ia arr IH]; intros acc; [reflexivity|].
  cbn [fold_left]. rewrite IH. apply set_nth_length.
Qed.

Lemma fold_arrive_nth {A} (d : A) rs (arr : list (nat * A)) acc j :
  length acc = length rs -> (forall i x, In (i, x) arr -> x = nth i rs d) -> j < length rs ->
  (In j (map fst arr) \/ nth j acc d = nth j rs d) ->
  nth j (fold_left arrive arr acc) d = nth j rs d.
Proof.
  revert acc; induction arr as [|[i x] arr IH]; intros acc Hlen Hval Hj Hin.
  - cbn [fold_left]. destruct Hin as [[]|H]. exact H.
  - cbn [fold_left]. apply IH.
    + unfold arrive. rewrite set_nth_length. exact Hlen.
    + intros i' x' H'. apply Hval. right. exact H'.
    + exact Hj.
    + unfold arrive; cbn [fst snd].
      destruct (Nat.eq_dec i j) as [->|Hne].
      * right. rewrite nth_set_nth_eq by lia. apply Hval. left. reflexivity.
      * cbn [map fst] in Hin. destruct Hin as [[H|H]|H]; [contradiction|left; exact H|].
        right. rewrite nth_set_nth_neq by exact Hne. exact H.
Qed.

(* any arrival list that delivers every index 0..n-1 (at least once) with the right value *)
Theorem collect_any_arrivals {A} (d : A) n rs (arr : list (nat * A)) :
  length rs = n -> (forall j, j < n -> In j (map fst arr)) -> (forall i x, In (i, x) arr -> x = nth i rs d) ->
  collect d n arr = rs.
Proof.
  intros Hlen Hall Hval. unfold collect. change (fun acc ia => set_nth (fst ia) (snd ia) acc) with (@arrive A).
  apply (nth_ext _ _ d d).
  - rewrite fold_arrive_length, repeat_length. symmetry. exact Hlen.
  - intros j Hj. rewrite fold_arrive_length, repeat_length in Hj.
    apply fold_arrive_nth; [rewrite repeat_length; symmetry; exact Hlen|exact Hval|lia|].
    left. apply Hall. exact Hj.
Qed.

Theorem collect_any_order {A} (d : A) n rs order :
  length rs = n -> Permutation order (seq 0 n) ->
  collect d n (map (fun i => (i, nth i rs d)) order) = rs.
Proof.
  intros Hlen Hp. apply collect_any_arrivals; [exact Hlen| |].
  - intros j Hj. rewrite map_map. cbn [fst]. rewrite map_id.
    apply (Permutation_in _ (Permutation_sym Hp)). apply in_seq. lia.
  - intros i x Hin. apply in_map_iff in Hin as (k & [= <- <-] & _). reflexivity.
Qed.

(* ================= 2. splitIntoChunks ================= *)

(* the cut between a and b tears a CRLF apart *)
Definition tear (a b : bytes) : Prop := last a 0%N = 13%N /\ hd 0%N b = 10%N.

(* a cut between a and b as splitIntoChunks makes them: at the start or the end of the text, or
   before a rune start and not inside a CRLF *)
Definition good_cut (a b : bytes) : Prop :=
  a = [] \/ b = [] \/ (rune_start (hd 0%N b) = true /\ ~ tear a b).

(* P holds at every chunk boundary: (text before the chunk, text from the chunk on) *)
Fixpoint cuts (P : bytes -> bytes -> Prop) (p : bytes) (chunks : list bytes) : Prop :=
  match chunks with
  | [] => True
  | c :: R => P p (c ++ List.concat R) /\ cuts P (p ++ c) R
  end.

Lemma cuts_weaken (P Q : bytes -> bytes -> Prop) p chunks :
  (forall a b, P a b -> Q a b) -> cuts P p chunks -> cuts Q p chunks.
Proof.
  intros H. revert p; induction chunks as [|c R IH]; intros p; cbn [cuts]; [trivial|].
  intros [H1 H2]. split; [apply H; exact H1|apply IH; exact H2].
Qed.

Lemma skip_le prev s : skip_continuation prev s <= length s.
Proof.
  revert prev; induction s as [|c r IH]; intros prev; cbn [skip_continuation length]; [lia|].
  destruct (negb (rune_start c) || ((c =? 10) && (prev =? 13))%N); [specialize (IH c)|]; lia.
Qed.

(* where skip_continuation stops: at the end, or before a rune start that is not the LF of a CRLF *)
Lemma skip_spec prev s c r : skipn (skip_continuation prev s) s = c :: r ->
  rune_start c = true /\ ~ (last (prev :: firstn (skip_continuation prev s) s) 0%N = 13%N /\ c = 10%N).
Proof.
  revert prev; induction s as [|c0 r0 IH]; intros prev; cbn [skip_continuation].
  - cbn [skipn]. discriminate.
  - destruct (negb (rune_start c0) || ((c0 =? 10) && (prev =? 13))%N) eqn:E.
    + cbn [skipn firstn]. intros H. specialize (IH c0 H). cbn [last] in *.
      destruct (firstn (skip_continuation c0 r0) r0); exact IH.
    + cbn [skipn firstn last]. intros [= <- <-].
      apply orb_false_iff in E as [E1 E2]. apply negb_false_iff in E1. split; [exact E1|].
      intros [H1 H2]. subst. rewrite N.eqb_refl in E2. cbn in E2. discriminate.
Qed.

Lemma firstn_add {A} a b (l : list A) : firstn (a + b) l = firstn a l ++ firstn b (skipn a l).
Proof.
  revert l; induction a as [|a IH]; intros l; [reflexivity|].
  destruct l as [|x l]; cbn [Nat.add firstn skipn app]; [destruct b; reflexivity|]. rewrite IH. reflexivity.
Qed.

Lemma skipn_add {A} a b (l : list A) : skipn (a + b) l = skipn b (skipn a l).
Proof.
  revert l; induction a as [|a IH]; intros l; [reflexivity|].
  destruct l as [|x l]; cbn [Nat.add skipn]; [destruct b; reflexivity|]. apply IH.
Qed.

Lemma last_app_ne {A} (a b : list A) d : b <> [] -> last (a ++ b) d = last b d.
Proof.
  intros Hb. induction a as [|x a IH]; [reflexivity|].
  cbn [app last]. destruct (a ++ b) eqn:E; [|exact IH].
  apply app_eq_nil in E as [_ E]. contradiction.
Qed.

Lemma last_cons_app {A} (a b : list A) d : a <> [] -> last (a ++ b) d = last (last a d :: b) d.
Proof.
  intros Ha. destruct b as [|y b].
  - rewrite app_nil_r. reflexivity.
  - rewrite last_app_ne by discriminate. reflexivity.
Qed.

Lemma last_firstn {A} n (l : list A) d : 1 <= n <= length l -> last (firstn n l) d = nth (n - 1) l d.
Proof.
  revert l; induction n as [|n IH]; intros l H; [lia|].
  destruct l as [|x l]; [cbn in H; lia|]. cbn [firstn length] in *.
  destruct n as [|n]; [reflexivity|].
  replace (S (S n) - 1) with (S n) by lia. cbn [nth].
  specialize (IH l ltac:(lia)). replace (S n - 1) with n in IH by lia.
  destruct l as [|y l]; [cbn in H; lia|]. cbn [firstn last] in *. exact IH.
Qed.

Lemma chunks_from_done fuel size p :
  List.concat (chunks_from fuel size [] true) = [] /\ cuts good_cut p (chunks_from fuel size [] true).
Proof.
  revert p; induction fuel as [|k IH]; intros p; cbn [chunks_from]; [split; [reflexivity|exact I]|].
  destruct (IH (p ++ [])) as [H1 H2]. cbn [List.concat cuts app]. rewrite H1.
  split; [reflexivity|]. split; [right; left; reflexivity|exact H2].
Qed.

Lemma chunks_from_length fuel size rest flag : length (chunks_from fuel size rest flag) = fuel.
Proof.
  revert rest flag; induction fuel as [|k IH]; intros rest flag; cbn [chunks_from]; [reflexivity|].
  destruct flag; [cbn [length]; rewrite IH; reflexivity|].
  destruct (Nat.ltb (length rest) size); cbn [length]; rewrite IH; reflexivity.
Qed.

Lemma chunks_from_spec fuel size rest p :
  length rest <= fuel * size -> good_cut p rest ->
  List.concat (chunks_from fuel size rest false) = rest /\ cuts good_cut p (chunks_from fuel size rest false).
Proof.
  revert rest p; induction fuel as [|k IH]; intros rest p Hlen Hgood.
  - destruct rest; [|cbn in Hlen; lia]. split; [reflexivity|exact I].
  - cbn [chunks_from]. destruct (Nat.ltb (length rest) size) eqn:E.
    + destruct (chunks_from_done k size (p ++ rest)) as [H1 H2]. cbn [List.concat cuts]. rewrite H1, app_nil_r.
      split; [reflexivity|]. split; [exact Hgood|exact H2].
    + apply Nat.ltb_ge in E.
      set (sk := skip_continuation (nth (size - 1) rest 0%N) (skipn size rest)).
      pose proof (skip_le (nth (size - 1) rest 0%N) (skipn size rest)) as Hsk. fold sk in Hsk.
      rewrite skipn_length in Hsk.
      assert (Hlen' : length (skipn (size + sk) rest) <= k * size) by (rewrite skipn_length; lia).
      assert (Hgood' : good_cut (p ++ firstn (size + sk) rest) (skipn (size + sk) rest)).
      { destruct (skipn (size + sk) rest) as [|c r] eqn:Es; [right; left; reflexivity|].
        right. right. rewrite skipn_add in Es. unfold sk in Es.
        destruct (skip_spec _ _ _ _ Es) as [Hr Hn]. fold sk in Hn. cbn [hd]. split; [exact Hr|].
        intros [Ht1 Ht2]. cbn [hd] in Ht2. apply Hn. split; [|exact Ht2].
        destruct size as [|size'].
        { (* size = 0: the text is empty *) destruct rest; [|cbn in Hlen; lia]. destruct sk; discriminate Es. }
        rewrite firstn_add in Ht1.
        assert (Hne : firstn (S size') rest <> []).
        { intros X. apply (f_equal (@length _)) in X. rewrite firstn_length in X. cbn [length] in X. lia. }
        rewrite last_app_ne in Ht1.
        2:{ intros X. apply app_eq_nil in X as [X _]. contradiction. }
        rewrite last_cons_app in Ht1 by exact Hne.
        rewrite last_firstn in Ht1 by lia. exact Ht1. }
      destruct (IH _ _ Hlen' Hgood') as [H1 H2]. cbn [List.concat cuts]. rewrite H1, firstn_skipn.
      split; [reflexivity|]. split; [exact Hgood|exact H2].
Qed.

Lemma batch_size_enough len n : 1 <= n -> len <= n * batch_size len n.
Proof.
  intros Hn. unfold batch_size.
  pose proof (Nat.div_mod (len + n - 1) n ltac:(lia)) as H.
  pose proof (Nat.mod_upper_bound (len + n - 1) n ltac:(lia)) as H2. lia.
Qed.

(* n >= 1 workers: n chunks that concatenate to the text; every cut is at the start or the end of the text, or
   before a rune start (never inside a UTF-8 sequence) and never between a CR and its LF *)
Theorem chunks_partition s n : 1 <= n ->
  List.concat (split_into_chunks s n) = s /\ length (split_into_chunks s n) = n /\
  cuts good_cut [] (split_into_chunks s n).
Proof.
  intros Hn. unfold split_into_chunks.
  destruct (chunks_from_spec n (batch_size (length s) n) s []) as [H1 H2].
  - apply batch_size_enough. exact Hn.
  - left. reflexivity.
  - split; [exact H1|]. split; [apply chunks_from_length|exact H2].
Qed.

(* ================= 3. lines of a concatenation ================= *)

Definition LF : N := 10%N.
Definition CR : N := 13%N.

(* a line that is complete (has its LF) and canonical (an LF ending is not preceded by CR) *)
Definition term_wf (l : line) : Prop :=
  ~ In 10%N (l_text l) /\
  ((l_ending l = [10%N] /\ ~ ends_with (l_text l) 13%N) \/ l_ending l = [13; 10]%N).

(* a last line without line ending *)
Definition open_line (l : line) : Prop := l_ending l = [] /\ l_text l <> [] /\ ~ In 10%N (l_text l).

Inductive wf_lines : list line -> Prop :=
| wf_nil : wf_lines []
| wf_last l : open_line l -> wf_lines [l]
| wf_cons l L : term_wf l -> wf_lines L -> wf_lines (l :: L).

Lemma lines_of_wf s : wf_lines (lines_of s).
Proof.
  unfold lines_of, raw_lines. pose proof (raw_lines_acc_shape s [] (fun H => H)) as Hrl.
  induction Hrl as [|r Hr|r rl Hr Hrl IH]; cbn [map].
  - constructor.
  - apply wf_last. rewrite (new_line_open r Hr). destruct Hr as [Hne Hr]. repeat split; assumption.
  - apply wf_cons; [|exact IH]. exact (new_line_terminated r Hr).
Qed.

Lemma wf_lines_app_inv A B : wf_lines (A ++ B) -> B <> [] -> Forall term_wf A /\ wf_lines B.
Proof.
  intros H HB. induction A as [|l A IH]; cbn [app] in *; [split; [constructor|exact H]|].
  inversion H as [|l0 Ho Heq|l0 L0 Ht Hw]; subst.
  - destruct A; [cbn in *; subst; contradiction|discriminate].
  - destruct (IH Hw) as [H1 H2]. split; [constructor; assumption|exact H2].
Qed.

Lemma wf_lines_tail l L : wf_lines (l :: L) -> wf_lines L.
Proof. intros H. inversion H; subst; [constructor|assumption]. Qed.

(* --- cutting after an LF --- *)

Lemma raw_lines_acc_app_lf a b cur :
  raw_lines_acc (a ++ 10%N :: b) cur = raw_lines_acc (a ++ [10%N]) cur ++ raw_lines b.
Proof.
  revert cur; induction a as [|c a IH]; intros cur; cbn [app raw_lines_acc].
  - rewrite N.eqb_refl. reflexivity.
  - destruct (c =? 10)%N; [cbn [app]; f_equal; apply IH|apply IH].
Qed.

Definition ends_lf (a : bytes) : Prop := exists a', a = a' ++ [10%N].

Lemma lines_of_app_lf a b : a = [] \/ ends_lf a -> lines_of (a ++ b) = lines_of a ++ lines_of b.
Proof.
  intros [->|[a' ->]]; [reflexivity|].
  unfold lines_of, raw_lines. rewrite <- app_assoc. cbn [app].
  rewrite raw_lines_acc_app_lf, map_app. reflexivity.
Qed.

Lemma raw_lines_acc_nolf t X cur : ~ In 10%N t -> raw_lines_acc (t ++ X) cur = raw_lines_acc X (rev t ++ cur).
Proof.
  revert cur; induction t as [|c t IH]; intros cur Ht; cbn [app raw_lines_acc rev]; [reflexivity|].
  destruct (c =? 10)%N eqn:E; [apply N.eqb_eq in E; subst; elim Ht; left; reflexivity|].
  rewrite IH by (intros H; apply Ht; right; exact H). rewrite <- app_assoc. reflexivity.
Qed.

Lemma new_line_crlf t : new_line (t ++ [13; 10]%N) = {| l_text := t; l_ending := [13; 10]%N |}.
Proof.
  rewrite new_line_spec, rev_app_distr. cbn [rev app]. rewrite !N.eqb_refl. rewrite rev_involutive. reflexivity.
Qed.

Lemma rev_cons_last {A} (t : list A) b r d : rev t = b :: r -> t = rev r ++ [b] /\ last t d = b.
Proof.
  intros H. assert (E : t = rev r ++ [b]) by (rewrite <- (rev_involutive t), H; reflexivity).
  split; [exact E|]. rewrite E. apply last_last.
Qed.

Lemma new_line_lf t : ~ ends_with t 13%N -> new_line (t ++ [10%N]) = {| l_text := t; l_ending := [10%N] |}.
Proof.
  intros Ht. rewrite new_line_spec, rev_app_distr. cbn [rev app]. rewrite N.eqb_refl.
  destruct (rev t) as [|b r] eqn:E.
  - apply (f_equal (@rev _)) in E. rewrite rev_involutive in E. subst t. reflexivity.
  - destruct (rev_cons_last t b r 0%N E) as [Et _].
    destruct (b =? 13)%N eqn:Eb.
    + apply N.eqb_eq in Eb. subst b. elim Ht. exists (rev r). exact Et.
    + change (rev (b :: r)) with (rev r ++ [b]). rewrite <- Et. reflexivity.
Qed.

Lemma lines_of_original l : term_wf l -> lines_of (original l) = [l].
Proof.
  intros [Hn He]. destruct l as [t e]; cbn [l_text l_ending] in *. unfold original; cbn [l_text l_ending].
  unfold lines_of, raw_lines. destruct He as [[-> Hcr]| ->].
  - rewrite raw_lines_acc_nolf by exact Hn. cbn [raw_lines_acc]. rewrite N.eqb_refl. cbn [map].
    rewrite app_nil_r. cbn [rev]. rewrite rev_involutive. rewrite (new_line_lf t Hcr). reflexivity.
  - rewrite raw_lines_acc_nolf by exact Hn. cbn [raw_lines_acc]. change (13 =? 10)%N with false. cbn iota.
    rewrite N.eqb_refl. cbn [map]. rewrite app_nil_r. cbn [rev]. rewrite rev_involutive.
    rewrite <- app_assoc. cbn [app]. rewrite new_line_crlf. reflexivity.
Qed.

Lemma original_ends_lf l : term_wf l -> ends_lf (original l).
Proof.
  intros [_ [[He _]|He]]; unfold original; rewrite He.
  - exists (l_text l). reflexivity.
  - exists (l_text l ++ [13%N]). rewrite <- app_assoc. reflexivity.
Qed.

(* complete lines followed by any text: the lines come back unchanged *)
Lemma lines_of_text_wf L Y : Forall term_wf L -> lines_of (text_of_lines L ++ Y) = L ++ lines_of Y.
Proof.
  intros H. induction H as [|l L Hl HL IH]; [reflexivity|].
  unfold text_of_lines in *. cbn [flat_map]. rewrite <- app_assoc.
  rewrite lines_of_app_lf by (right; apply original_ends_lf; exact Hl).
  rewrite (lines_of_original l Hl), IH. reflexivity.
Qed.

Lemma text_ends_lf L : Forall term_wf L -> L <> [] -> ends_lf (text_of_lines L).
Proof.
  intros H Hne. induction H as [|l L Hl HL IH]; [contradiction|].
  unfold text_of_lines in *. cbn [flat_map]. destruct L as [|l' L'].
  - cbn [flat_map]. rewrite app_nil_r. apply original_ends_lf. exact Hl.
  - destruct (IH ltac:(discriminate)) as [a' Ha]. rewrite Ha. exists (original l ++ a'). rewrite app_assoc. reflexivity.
Qed.

(* --- cutting inside a line --- *)

Lemma raw_lines_acc_cur X : X <> [] ->
  exists r rest, r <> [] /\ forall cur, raw_lines_acc X cur = (rev cur ++ r) :: rest.
Proof.
  induction X as [|c X IH]; intros Hne; [contradiction|].
  destruct (c =? 10)%N eqn:E.
  - exists [c], (raw_lines_acc X []). split; [discriminate|]. intros cur. cbn [raw_lines_acc]. rewrite E. reflexivity.
  - destruct X as [|c' X'].
    + exists [c], []. split; [discriminate|]. intros cur. cbn [raw_lines_acc]. rewrite E. reflexivity.
    + destruct (IH ltac:(discriminate)) as (r & rest & Hr & H).
      exists (c :: r), rest. split; [discriminate|]. intros cur.
      change (raw_lines_acc (c :: c' :: X') cur) with (if (c =? 10)%N then rev (c :: cur) :: raw_lines_acc (c' :: X') [] else raw_lines_acc (c' :: X') (c :: cur)).
      rewrite E. rewrite H. cbn [rev]. rewrite <- app_assoc. reflexivity.
Qed.

Lemma tear_iff t X : tear t X <-> (exists t', t = t' ++ [13%N]) /\ (exists X', X = 10%N :: X').
Proof.
  unfold tear. split.
  - intros [H1 H2]. split.
    + destruct t as [|x t] using rev_ind; [cbn in H1; discriminate|]. rewrite last_last in H1. subst. exists t. reflexivity.
    + destruct X as [|x X]; [cbn in H2; discriminate|]. cbn in H2. subst. exists X. reflexivity.
  - intros [[t' ->] [X' ->]]. split; [apply last_last|reflexivity].
Qed.

(* the first line of X glued to an unfinished line t *)
Lemma new_line_merge t r : ~ In 10%N t -> ~ tear t r -> raw_terminated r \/ raw_open r ->
  new_line (t ++ r) = {| l_text := t ++ l_text (new_line r); l_ending := l_ending (new_line r) |}.
Proof.
  intros Ht Hno [(u & -> & Hu)|Hr].
  - rewrite app_assoc. rewrite (new_line_spec ((t ++ u) ++ [10%N])), (new_line_spec (u ++ [10%N])).
    rewrite !rev_app_distr. cbn [rev app]. rewrite N.eqb_refl.
    destruct (rev u) as [|b r'] eqn:Eu.
    + apply (f_equal (@rev _)) in Eu. rewrite rev_involutive in Eu. cbn in Eu. subst u. cbn [app l_text l_ending rev].
      destruct (rev t) as [|b r''] eqn:Et.
      * apply (f_equal (@rev _)) in Et. rewrite rev_involutive in Et. cbn in Et. subst t. reflexivity.
      * destruct (rev_cons_last t b r'' 0%N Et) as [Et' Hl].
        destruct (b =? 13)%N eqn:Eb.
        -- apply N.eqb_eq in Eb. elim Hno. split; [rewrite Hl; exact Eb|reflexivity].
        -- change (rev (b :: r'')) with (rev r'' ++ [b]). rewrite <- Et', app_nil_r. reflexivity.
    + cbn [app]. destruct (b =? 13)%N; cbn [l_text l_ending].
      * rewrite rev_app_distr, rev_involutive. reflexivity.
      * change (b :: r' ++ rev t) with ((b :: r') ++ rev t). rewrite rev_app_distr, rev_involutive. reflexivity.
  - rewrite (new_line_open r Hr). cbn [l_text l_ending]. apply new_line_open.
    destruct Hr as [Hne Hr]. split.
    + intros E. apply app_eq_nil in E as [_ E]. contradiction.
    + intros Hin. apply in_app_or in Hin as [Hin|Hin]; contradiction.
Qed.

Lemma raw_list_head r rest : raw_list (r :: rest) -> raw_terminated r \/ raw_open r.
Proof. intros H. inversion H; subst; [right|left]; assumption. Qed.

Lemma lines_of_merge t X lx rest : ~ In 10%N t -> ~ tear t X -> lines_of X = lx :: rest ->
  lines_of (t ++ X) = {| l_text := t ++ l_text lx; l_ending := l_ending lx |} :: rest.
Proof.
  intros Ht Hno HX.
  assert (HXne : X <> []) by (intros ->; discriminate HX).
  destruct (raw_lines_acc_cur X HXne) as (r & rrest & Hr & Hacc).
  pose proof (raw_lines_acc_shape X [] (fun H => H)) as Hshape. rewrite (Hacc []) in Hshape. cbn [rev app] in Hshape.
  unfold lines_of, raw_lines in *. rewrite (Hacc []) in HX. cbn [rev app map] in HX. injection HX as <- <-.
  rewrite raw_lines_acc_nolf by exact Ht. rewrite Hacc, app_nil_r, rev_involutive. cbn [map]. f_equal.
  apply new_line_merge; [exact Ht| |exact (raw_list_head _ _ Hshape)].
  intros [H1 H2]. apply Hno. split; [exact H1|].
  pose proof (raw_lines_acc_concat X []) as Hc. rewrite (Hacc []) in Hc. cbn [rev app List.concat] in Hc.
  rewrite <- Hc. destruct r; [contradiction|exact H2].
Qed.

(* every text is complete lines followed by an unfinished last line (possibly empty) *)
Lemma split_last_line s : exists a t, s = a ++ t /\ (a = [] \/ ends_lf a) /\ ~ In 10%N t.
Proof.
  induction s as [|x s IH] using rev_ind.
  - exists [], []. split; [reflexivity|]. split; [left; reflexivity|intros []].
  - destruct (N.eq_dec x 10%N) as [->|Hx].
    + exists (s ++ [10%N]), []. split; [rewrite app_nil_r; reflexivity|]. split; [right; exists s; reflexivity|intros []].
    + destruct IH as (a & t & -> & Ha & Ht). exists a, (t ++ [x]). split; [rewrite app_assoc; reflexivity|].
      split; [exact Ha|]. intros Hin. apply in_app_or in Hin as [Hin|[Hin|[]]]; [contradiction|congruence].
Qed.

(* ================= 4. block splitting is compositional at true block starts ================= *)

Notation BL := block_lines_of.

Lemma parse_block_nil : parse_block [] = (None, []).
Proof. reflexivity. Qed.

Lemma parse_block_some2 ls bl rest : parse_block ls = (Some bl, rest) ->
  ls = bl ++ rest /\ head_signif rest /\
  exists head sig tail, shape bl head sig tail /\ (rest <> [] -> tail <> []).
Proof.
  unfold parse_block. intros H.
  destruct (take_blank ls) as [head r1] eqn:E1.
  destruct (take_significant r1) as [sig r2] eqn:E2.
  destruct sig as [|s sig]; [discriminate|].
  destruct (take_blank r2) as [tail r3] eqn:E3.
  injection H as <- <-.
  apply take_blank_spec in E1 as (-> & Hh & _).
  apply take_significant_spec in E2 as (-> & Hs & Hb2).
  apply take_blank_spec in E3 as (-> & Ht & Hr).
  split; [repeat (cbn [app]; rewrite <- app_assoc); reflexivity|]. split; [exact Hr|].
  exists head, (s :: sig), tail. split.
  - repeat split; try assumption. discriminate.
  - intros Hne ->. cbn [app] in Hb2. destruct r3 as [|l r3]; [contradiction|].
    cbn in Hr, Hb2. unfold signif, blank in *. congruence.
Qed.

Lemma blocks_fuel_lines_indep f1 : forall f2 p q ls, length ls <= f1 -> length ls <= f2 ->
  map b_lines (blocks_fuel f1 p ls) = map b_lines (blocks_fuel f2 q ls).
Proof.
  induction f1 as [|k IH]; intros f2 p q ls H1 H2.
  - destruct ls; [|cbn in H1; lia]. destruct f2; reflexivity.
  - destruct f2 as [|k2].
    + destruct ls; [|cbn in H2; lia]. reflexivity.
    + cbn [blocks_fuel]. destruct (parse_block ls) as [[bl|] rest] eqn:E; [|reflexivity].
      cbn [map b_lines]. f_equal.
      apply parse_block_some in E as (-> & _ & head & sig & tail & Hsh).
      pose proof (shape_nonempty _ _ _ _ Hsh) as Hn. rewrite app_length in H1, H2.
      apply IH; lia.
Qed.

Lemma BL_unfold ls :
  BL ls = match parse_block ls with (Some bl, rest) => bl :: BL rest | (None, _) => [] end.
Proof.
  unfold block_lines_of, blocks_of_lines. destruct ls as [|l ls]; [reflexivity|].
  cbn [length blocks_fuel]. destruct (parse_block (l :: ls)) as [[bl|] rest] eqn:E; [|reflexivity].
  cbn [map b_lines]. f_equal.
  apply parse_block_some in E as (E & _ & head & sig & tail & Hsh).
  pose proof (shape_nonempty _ _ _ _ Hsh) as Hn.
  apply (f_equal (@length _)) in E. rewrite app_length in E. cbn [length] in E.
  apply blocks_fuel_lines_indep; lia.
Qed.

Lemma BL_nil : BL [] = [].
Proof. reflexivity. Qed.

(* blank* sig+ blank* followed by a significant line (or by nothing) is one block *)
Lemma parse_block_app h sig t Y :
  Forall blank h -> sig <> [] -> Forall signif sig -> Forall blank t -> head_signif Y -> (t <> [] \/ Y = []) ->
  parse_block (h ++ sig ++ t ++ Y) = (Some (h ++ sig ++ t), Y).
Proof.
  intros Hh Hne Hs Ht HY Hor. unfold parse_block.
  rewrite (take_blank_app h (sig ++ t ++ Y) Hh).
  2:{ destruct sig as [|s sig]; [contradiction|]. cbn. inversion Hs; assumption. }
  rewrite (take_significant_app sig (t ++ Y) Hs).
  2:{ destruct t as [|l t]; [|cbn; inversion Ht; assumption]. destruct Hor as [Hor| ->]; [contradiction|exact I]. }
  destruct sig as [|s sig]; [contradiction|].
  rewrite (take_blank_app t Y Ht HY). reflexivity.
Qed.

Definition dline : line := {| l_text := []; l_ending := [] |}.
Definition ends_blank (L : list line) : Prop := L <> [] /\ blank (last L dline).

Lemma has_signif_head ls : head_signif ls -> ls <> [] -> has_signif ls.
Proof. intros H Hne. destruct (head_signif_cases ls H); [contradiction|assumption]. Qed.

Lemma head_signif_app a b : head_signif a -> (a = [] -> head_signif b) -> head_signif (a ++ b).
Proof. destruct a as [|l a]; cbn [app]; [intros _ H; exact (H eq_refl)|intros H _; exact H]. Qed.

Lemma Forall_last {A} (P : A -> Prop) l d : Forall P l -> l <> [] -> P (last l d).
Proof.
  intros H Hne. induction H as [|x l Hx Hl IH]; [contradiction|].
  destruct l as [|y l]; [exact Hx|]. apply IH. discriminate.
Qed.

(* a true block start: the lines before contain a significant line and end blank; the line itself is significant *)
Lemma BL_app_len n : forall L1 L2, length L1 <= n -> has_signif L1 -> ends_blank L1 -> head_signif L2 ->
  BL (L1 ++ L2) = BL L1 ++ BL L2.
Proof.
  induction n as [|n IH]; intros L1 L2 Hlen Hs He H2.
  - destruct L1; [|cbn in Hlen; lia]. destruct He as [He _]. contradiction.
  - destruct (parse_block L1) as [[g|] r1] eqn:E.
    2:{ apply parse_block_none in E. exfalso. exact (not_all_blank _ Hs E). }
    pose proof E as E'. apply parse_block_some2 in E' as (HL1 & Hr1 & h & sig & t & Hsh & Ht).
    destruct Hsh as (Hg & Hsne & Hh & Hsig & Htl).
    assert (Htne : t <> []).
    { destruct r1 as [|l r1]; [|apply Ht; discriminate].
      intros ->. rewrite app_nil_r in HL1. destruct He as [_ He]. rewrite HL1, Hg, app_nil_r in He.
      rewrite last_app_ne in He by exact Hsne.
      pose proof (Forall_last _ _ dline Hsig Hsne) as Hl. unfold signif, blank in *. congruence. }
    assert (Hpb : parse_block (L1 ++ L2) = (Some g, r1 ++ L2)).
    { rewrite HL1, Hg.
      replace (((h ++ sig ++ t) ++ r1) ++ L2) with (h ++ sig ++ t ++ (r1 ++ L2)) by (rewrite <- !app_assoc; reflexivity).
      apply parse_block_app; try assumption.
      - apply head_signif_app; [exact Hr1|intros _; exact H2].
      - left. exact Htne. }
    rewrite (BL_unfold (L1 ++ L2)), Hpb, (BL_unfold L1), E. cbn [app]. f_equal.
    destruct r1 as [|l r1]; [reflexivity|].
    apply IH.
    + apply (f_equal (@length _)) in HL1. rewrite app_length in HL1.
      assert (1 <= length g) by (rewrite Hg, !app_length; destruct sig; [contradiction|cbn [length]; lia]). lia.
    + apply has_signif_head; [exact Hr1|discriminate].
    + split; [discriminate|]. destruct He as [_ He]. rewrite HL1 in He. rewrite last_app_ne in He by discriminate. exact He.
    + exact H2.
Qed.

Lemma BL_app L1 L2 : has_signif L1 -> ends_blank L1 -> head_signif L2 -> BL (L1 ++ L2) = BL L1 ++ BL L2.
Proof. apply (BL_app_len (length L1)). lia. Qed.

(* a closed group: sig+ blank+ *)
Definition grp (g : list line) : Prop :=
  exists sig tail, g = sig ++ tail /\ sig <> [] /\ Forall signif sig /\ Forall blank tail /\ tail <> [].

Lemma grp_head_signif g : grp g -> head_signif g /\ g <> [].
Proof.
  intros (sig & tail & -> & Hne & Hs & _). destruct sig as [|s sig]; [contradiction|].
  split; [cbn; inversion Hs; assumption|discriminate].
Qed.

Lemma head_signif_concat gs Y : Forall grp gs -> head_signif Y -> head_signif (List.concat gs ++ Y).
Proof.
  intros Hg HY. destruct Hg as [|g gs Hg _]; [exact HY|].
  cbn [List.concat]. destruct (grp_head_signif g Hg) as [H1 H2]. rewrite <- app_assoc.
  apply head_signif_app; [exact H1|intros; contradiction].
Qed.

Lemma BL_grps gs Y : Forall grp gs -> head_signif Y -> BL (List.concat gs ++ Y) = gs ++ BL Y.
Proof.
  intros Hg HY. induction Hg as [|g gs Hg Hgs IH]; [reflexivity|].
  cbn [List.concat]. rewrite <- app_assoc. rewrite BL_unfold.
  destruct Hg as (sig & tail & -> & Hne & Hs & Ht & Htne).
  pose proof (parse_block_app [] sig tail (List.concat gs ++ Y) (Forall_nil _) Hne Hs Ht
                (head_signif_concat gs Y Hgs HY) (or_introl Htne)) as Hpb.
  cbn [app] in Hpb. rewrite <- app_assoc. rewrite Hpb. cbn [app]. f_equal. exact IH.
Qed.

(* the groups of a text that starts with a significant line: all but the last are closed *)
Lemma BL_struct gs : forall ls bt, head_signif ls -> BL ls = gs ++ [bt] ->
  ls = List.concat gs ++ bt /\ Forall grp gs /\ head_signif bt /\ bt <> [].
Proof.
  induction gs as [|g1 gs IH]; intros ls bt Hhs HBL; rewrite BL_unfold in HBL;
    destruct (parse_block ls) as [[g|] r1] eqn:E; try (destruct gs; discriminate HBL); try discriminate HBL;
    apply parse_block_some2 in E as (HL & Hr1 & h & sig & t & Hsh & Ht);
    destruct Hsh as (Hg & Hsne & Hh & Hsig & Htl);
    (assert (Hh0 : h = []);
     [destruct h as [|l h]; [reflexivity|]; rewrite HL, Hg in Hhs; cbn in Hhs; inversion Hh; subst;
      unfold signif, blank in *; congruence|]); subst h; cbn [app] in Hg.
  - cbn [app] in HBL. injection HBL as -> HBL.
    assert (r1 = []).
    { unfold block_lines_of in HBL. apply map_eq_nil in HBL. apply no_blocks_iff_all_blank in HBL. destruct r1 as [|l r1]; [reflexivity|].
      cbn in Hr1. inversion HBL; subst. unfold signif in *. congruence. }
    subst r1. rewrite app_nil_r in HL. cbn [List.concat app]. split; [exact HL|]. split; [constructor|].
    rewrite Hg. destruct sig as [|s sig]; [contradiction|]. split; [cbn; inversion Hsig; assumption|discriminate].
  - cbn [app] in HBL. injection HBL as -> HBL.
    assert (Hr1ne : r1 <> []) by (intros ->; destruct gs; discriminate HBL).
    destruct (IH r1 bt Hr1 HBL) as (H1 & H2 & H3 & H4).
    cbn [List.concat]. rewrite <- app_assoc, <- H1. split; [exact HL|]. split; [|split; assumption].
    constructor; [|exact H2]. exists sig, t. repeat split; try assumption. apply Ht. exact Hr1ne.
Qed.

(* renumbering the line groups gives back the blocks *)
Lemma renumber_consecutive bs p : consecutive p bs -> renumber (map b_lines bs) p = bs.
Proof.
  revert p; induction bs as [|b bs IH]; intros p H; [reflexivity|].
  cbn [consecutive] in H. destruct H as [H1 H2]. cbn [map renumber]. rewrite (IH _ H2).
  destruct b as [bp bl]; cbn [b_preceding b_lines] in *. subst. reflexivity.
Qed.

Lemma renumber_BL ls : renumber (BL ls) 0 = blocks_of_lines ls.
Proof. apply renumber_consecutive. apply blocks_fuel_consecutive. Qed.

(* ================= 5. one worker ================= *)

Lemma text_of_lines_app a b : text_of_lines (a ++ b) = text_of_lines a ++ text_of_lines b.
Proof. unfold text_of_lines. apply flat_map_app. Qed.

Lemma text_concat gs : text_of_lines (List.concat gs) = List.concat (map text_of_lines gs).
Proof. induction gs as [|g gs IH]; [reflexivity|]. cbn [List.concat map]. rewrite text_of_lines_app, IH. reflexivity. Qed.

(* what a worker reports: either no complete middle block (then head ++ tail is its whole chunk), or
   head = first block, middle blocks, tail = last block of its chunk, at least one middle block *)
Lemma worker_cases c :
  (br_blocks (worker c) = [] /\ br_head (worker c) ++ br_tail (worker c) = c) \/
  (exists b0 mid bt, mid <> [] /\ c <> [] /\ BL (lines_of c) = b0 :: mid ++ [bt] /\
     worker c = {| br_head := text_of_lines b0; br_blocks := mid; br_tail := text_of_lines bt |}).
Proof.
  destruct c as [|x c]; [left; split; reflexivity|].
  unfold worker. set (ls := lines_of (x :: c)).
  assert (Hls : text_of_lines ls = x :: c) by apply lines_lossless.
  destruct (parse_block ls) as [[bl|] rest] eqn:E.
  - pose proof E as E'. apply parse_block_some2 in E' as (HL & Hr & _).
    destruct rest as [|r0 rest'].
    + left. cbn [br_blocks br_head br_tail]. split; [reflexivity|]. rewrite app_nil_r in *. rewrite <- HL. exact Hls.
    + set (rest := r0 :: rest') in *.
      assert (Hlossless : flatten_blocks (blocks_of_lines rest) = rest).
      { apply blocks_lossless. exists r0. split; [left; reflexivity|exact Hr]. }
      assert (Hflat : List.concat (BL rest) = rest).
      { unfold block_lines_of. rewrite <- flat_map_concat_map. exact Hlossless. }
      destruct (BL rest) as [|g bs'] eqn:EB.
      * left. cbn [br_blocks br_head br_tail]. split; [reflexivity|]. rewrite <- text_of_lines_app, <- HL. exact Hls.
      * destruct (@exists_last _ (g :: bs') ltac:(discriminate)) as (mid & bt & Hsplit).
        rewrite Hsplit. rewrite removelast_last, last_last.
        destruct mid as [|m1 mid'].
        -- left. cbn [br_blocks br_head br_tail]. split; [reflexivity|].
           rewrite Hsplit in Hflat. cbn [app List.concat] in Hflat. rewrite app_nil_r in Hflat. subst bt.
           rewrite <- text_of_lines_app, <- HL. exact Hls.
        -- right. exists bl, (m1 :: mid'), bt. split; [discriminate|]. split; [discriminate|].
           split; [|reflexivity].
           rewrite BL_unfold. fold ls. rewrite E. fold rest. rewrite EB, Hsplit. reflexivity.
  - left. cbn [br_blocks br_head br_tail]. split; [reflexivity|]. rewrite app_nil_r. exact Hls.
Qed.

(* the structure of a chunk whose worker reports middle blocks *)
Lemma worker_struct c b0 mid bt : mid <> [] -> BL (lines_of c) = b0 :: mid ++ [bt] ->
  c = text_of_lines b0 ++ text_of_lines (List.concat mid) ++ text_of_lines bt /\
  Forall term_wf b0 /\ has_signif b0 /\ ends_blank b0 /\
  Forall term_wf (List.concat mid) /\ Forall grp mid /\
  wf_lines bt /\ head_signif bt /\ bt <> [].
Proof.
  intros Hmid HBL. rewrite BL_unfold in HBL.
  destruct (parse_block (lines_of c)) as [[g|] rest] eqn:E; [|discriminate].
  injection HBL as -> HBL.
  apply parse_block_some2 in E as (HL & Hr & h & sig & t & Hsh & Ht).
  destruct (BL_struct mid rest bt Hr HBL) as (Hrest & Hgrp & Hbt & Hbtne).
  assert (Hrne : rest <> []).
  { rewrite Hrest. intros X. apply app_eq_nil in X as [_ X]. contradiction. }
  specialize (Ht Hrne). destruct Hsh as (Hg & Hsne & Hh & Hsig & Htl).
  pose proof (lines_of_wf c) as Hwf. rewrite HL, Hrest in Hwf.
  rewrite app_assoc in Hwf. apply wf_lines_app_inv in Hwf as [Hwf1 Hwf2]; [|exact Hbtne].
  apply Forall_app in Hwf1 as [Hwf0 HwfM].
  split.
  { rewrite <- (lines_lossless c), HL, Hrest, !text_of_lines_app. reflexivity. }
  split; [exact Hwf0|]. split.
  { destruct sig as [|s sig]; [contradiction|]. exists s. split.
    - rewrite Hg. apply in_or_app. right. left. reflexivity.
    - inversion Hsig; assumption. }
  split.
  { split.
    - rewrite Hg. intros X. apply app_eq_nil in X as [_ X]. apply app_eq_nil in X as [X _]. contradiction.
    - rewrite Hg, app_assoc. rewrite last_app_ne by exact Ht. exact (Forall_last _ _ dline Htl Ht). }
  repeat split; assumption.
Qed.

Lemma is_blank_text_app a b : is_blank_text (a ++ b) = is_blank_text a && is_blank_text b.
Proof. unfold is_blank_text. apply forallb_app. Qed.

Lemma tear_nil_l X : ~ tear [] X.
Proof. intros [H _]. cbn in H. discriminate. Qed.

Lemma tear_nil_r a : ~ tear a [].
Proof. intros [_ H]. cbn in H. discriminate. Qed.

Lemma tear_app_l a b X : b <> [] -> (tear (a ++ b) X <-> tear b X).
Proof. intros Hb. unfold tear. rewrite last_app_ne by exact Hb. tauto. Qed.

Lemma tear_app_r a X Y : X <> [] -> (tear a (X ++ Y) <-> tear a X).
Proof. intros HX. unfold tear. destruct X; [contradiction|]. cbn [app hd]. tauto. Qed.

Lemma text_nonempty L : Forall term_wf L -> L <> [] -> text_of_lines L <> [].
Proof.
  intros H Hne. destruct (text_ends_lf L H Hne) as [a' Ha]. rewrite Ha. intros X.
  apply app_eq_nil in X as [_ X]. discriminate.
Qed.

(* (1) the carried text followed by a worker's head block: contains a significant line and ends blank *)
Lemma carry_head_facts carry B :
  Forall term_wf B -> has_signif B -> ends_blank B -> ~ tear carry (text_of_lines B) ->
  has_signif (lines_of (carry ++ text_of_lines B)) /\ ends_blank (lines_of (carry ++ text_of_lines B)).
Proof.
  intros Hwf Hs He Hno.
  destruct (split_last_line carry) as (a & tl & -> & Ha & Htl).
  rewrite <- app_assoc. rewrite (lines_of_app_lf a _ Ha).
  destruct B as [|f B']; [destruct He as [He _]; contradiction|].
  assert (HB : lines_of (text_of_lines (f :: B')) = f :: B').
  { rewrite <- (app_nil_r (text_of_lines (f :: B'))). rewrite (lines_of_text_wf _ [] Hwf). apply app_nil_r. }
  assert (Hno' : ~ tear tl (text_of_lines (f :: B'))).
  { destruct tl as [|y tl']; [apply tear_nil_l|]. intros X. apply Hno. apply tear_app_l; [discriminate|exact X]. }
  rewrite (lines_of_merge tl _ f B' Htl Hno' HB).
  set (f' := {| l_text := tl ++ l_text f; l_ending := l_ending f |}).
  destruct He as [_ He]. split.
  - destruct Hs as (l & [<-|Hin] & Hl).
    + exists f'. split; [apply in_or_app; right; left; reflexivity|].
      unfold is_blank, f'; cbn [l_text]. rewrite is_blank_text_app. unfold is_blank in Hl. rewrite Hl. apply andb_false_r.
    + exists l. split; [apply in_or_app; right; right; exact Hin|exact Hl].
  - split; [intros X; apply app_eq_nil in X as [_ X]; discriminate|].
    rewrite last_app_ne by discriminate.
    destruct B' as [|g B''].
    + exfalso. destruct Hs as (l & [<-|[]] & Hl). cbn [last] in He. unfold blank in He. congruence.
    + change (last (f' :: g :: B'') dline) with (last (g :: B'') dline).
      change (last (f :: g :: B'') dline) with (last (g :: B'') dline) in He. exact He.
Qed.

Lemma lines_of_nonempty X : X <> [] -> lines_of X <> [].
Proof.
  intros HX. destruct (raw_lines_acc_cur X HX) as (r & rest & _ & H).
  unfold lines_of, raw_lines. rewrite (H []). discriminate.
Qed.

Lemma lines_of_open t : t <> [] -> ~ In 10%N t -> lines_of t = [{| l_text := t; l_ending := [] |}].
Proof.
  intros Hne Ht. unfold lines_of, raw_lines. rewrite <- (app_nil_r t) at 1.
  rewrite raw_lines_acc_nolf by exact Ht. cbn [raw_lines_acc]. rewrite app_nil_r.
  destruct (rev t) eqn:E.
  - apply (f_equal (@rev _)) in E. rewrite rev_involutive in E. contradiction.
  - rewrite <- E, rev_involutive. cbn [map]. rewrite new_line_open; [reflexivity|]. split; assumption.
Qed.

(* (2) a worker's tail block followed by the rest of the text: starts with a significant line *)
Lemma tail_facts bt X : wf_lines bt -> head_signif bt -> bt <> [] -> ~ tear (text_of_lines bt) X ->
  head_signif (lines_of (text_of_lines bt ++ X)).
Proof.
  intros Hwf Hhs Hne Hno. destruct bt as [|l bt']; [contradiction|]. cbn in Hhs.
  inversion Hwf as [|l0 Ho Heq|l0 L0 Ht Hw]; subst.
  - destruct Ho as (He & Htne & Htn). destruct l as [t e]; cbn [l_text l_ending] in *. subst e.
    unfold text_of_lines in *. cbn [flat_map] in *. unfold original in *; cbn [l_text l_ending] in *.
    rewrite !app_nil_r in *.
    destruct X as [|x X'].
    + rewrite app_nil_r. rewrite (lines_of_open t Htne Htn). exact Hhs.
    + destruct (lines_of (x :: X')) as [|lx rest] eqn:EX; [exfalso; exact (lines_of_nonempty (x :: X') ltac:(discriminate) EX)|].
      rewrite (lines_of_merge t (x :: X') lx rest Htn Hno EX). cbn.
      unfold signif, is_blank in *; cbn [l_text] in *. rewrite is_blank_text_app, Hhs. reflexivity.
  - unfold text_of_lines. cbn [flat_map]. rewrite <- app_assoc.
    rewrite lines_of_app_lf by (right; apply original_ends_lf; exact Ht).
    rewrite (lines_of_original l Ht). exact Hhs.
Qed.

(* the step of the merge loop for a worker with middle blocks *)
Lemma step_blocks carry c X b0 mid bt :
  mid <> [] -> c <> [] -> BL (lines_of c) = b0 :: mid ++ [bt] ->
  ~ tear carry (c ++ X) -> ~ tear c X ->
  BL (lines_of (carry ++ c ++ X)) =
  BL (lines_of (carry ++ text_of_lines b0)) ++ mid ++ BL (lines_of (text_of_lines bt ++ X)).
Proof.
  intros Hmid Hc HBL Hno1 Hno2.
  destruct (worker_struct c b0 mid bt Hmid HBL) as (Hceq & Hwf0 & Hs0 & He0 & HwfM & Hgrp & Hwft & Hhst & Hbtne).
  assert (Hb0ne : b0 <> []) by (destruct He0; assumption).
  assert (Ht0 : text_of_lines b0 <> []) by (apply text_nonempty; assumption).
  assert (Htt : text_of_lines bt <> []).
  { intros X0. pose proof (lines_lossless c) as Hl.
    destruct bt as [|l bt']; [contradiction|]. unfold text_of_lines in X0. cbn [flat_map] in X0.
    apply app_eq_nil in X0 as [X0 _]. unfold original in X0. apply app_eq_nil in X0 as [X1 X2].
    inversion Hwft as [|l0 Ho Heq|l0 L0 Ht Hw]; subst.
    - destruct Ho as (_ & Ho & _). contradiction.
    - destruct Ht as [_ [[Ht _]|Ht]]; rewrite Ht in X2; discriminate. }
  assert (Hno1' : ~ tear carry (text_of_lines b0)).
  { intros T. apply Hno1. rewrite Hceq, <- app_assoc. apply tear_app_r; assumption. }
  assert (Hno2' : ~ tear (text_of_lines bt) X).
  { intros T. apply Hno2. rewrite Hceq, !app_assoc. apply tear_app_l; assumption. }
  destruct (carry_head_facts carry b0 Hwf0 Hs0 He0 Hno1') as [HsL1 HeL1].
  pose proof (tail_facts bt X Hwft Hhst Hbtne Hno2') as HL3.
  rewrite Hceq at 1.
  replace (carry ++ (text_of_lines b0 ++ text_of_lines (List.concat mid) ++ text_of_lines bt) ++ X)
    with ((carry ++ text_of_lines b0) ++ (text_of_lines (List.concat mid) ++ (text_of_lines bt ++ X)))
    by (rewrite <- !app_assoc; reflexivity).
  rewrite lines_of_app_lf.
  2:{ right. destruct (text_ends_lf b0 Hwf0 Hb0ne) as [a' Ha]. exists (carry ++ a'). rewrite Ha, app_assoc. reflexivity. }
  rewrite (lines_of_text_wf _ _ HwfM).
  rewrite BL_app; [|exact HsL1|exact HeL1|apply head_signif_concat; assumption].
  rewrite (BL_grps mid _ Hgrp HL3). reflexivity.
Qed.

(* ================= 6. the merge loop ================= *)

Definition no_tear (a b : bytes) : Prop := ~ tear a b.

Lemma cuts_suffix x p R : cuts no_tear (x ++ p) R -> cuts no_tear p R.
Proof.
  revert x p; induction R as [|c R IH]; intros x p; cbn [cuts]; [trivial|].
  intros [H1 H2]. split.
  - destruct p as [|y p']; [apply tear_nil_l|]. intros T. apply H1. apply tear_app_l; [discriminate|exact T].
  - rewrite <- app_assoc in H2. exact (IH _ _ H2).
Qed.

Lemma cuts_first p R : cuts no_tear p R -> no_tear p (List.concat R).
Proof. destruct R as [|c R]; cbn [cuts List.concat]; [intros _; apply tear_nil_r|intros [H _]; exact H]. Qed.

Lemma merge_spec R : forall carry acc, cuts no_tear carry R ->
  merge (map worker R) carry acc = acc ++ BL (lines_of (carry ++ List.concat R)).
Proof.
  induction R as [|c R IH]; intros carry acc Hc.
  - cbn [map merge List.concat]. rewrite app_nil_r. reflexivity.
  - cbn [cuts] in Hc. destruct Hc as [Hc1 Hc2]. cbn [map merge List.concat].
    destruct (worker_cases c) as [[Hb Hht]|(b0 & mid & bt & Hmid & Hcne & HBL & Hw)].
    + rewrite Hb. rewrite <- app_assoc, Hht. rewrite (IH _ _ Hc2). rewrite <- app_assoc. reflexivity.
    + rewrite Hw. cbn [br_head br_blocks br_tail].
      destruct mid as [|m1 mid']; [contradiction|].
      assert (Hceq : c = text_of_lines b0 ++ text_of_lines (List.concat (m1 :: mid')) ++ text_of_lines bt)
        by exact (proj1 (worker_struct c b0 _ bt Hmid HBL)).
      assert (Hc2' : cuts no_tear (text_of_lines bt) R).
      { rewrite Hceq in Hc2. rewrite !app_assoc in Hc2. exact (cuts_suffix _ _ _ Hc2). }
      rewrite (IH _ _ Hc2').
      rewrite (step_blocks carry c (List.concat R) b0 (m1 :: mid') bt Hmid Hcne HBL Hc1).
      * rewrite <- !app_assoc. reflexivity.
      * pose proof (cuts_first _ _ Hc2) as Hf. intros T. apply Hf. apply tear_app_l; assumption.
Qed.

(* ================= 7. parallel = serial ================= *)

(* for every partition of the text into chunks that never separates a CR from its LF *)
Theorem par_blocks_eq chunks : cuts no_tear [] chunks ->
  par_blocks_of_chunks chunks = blocks_of (List.concat chunks).
Proof.
  intros H. unfold par_blocks_of_chunks. rewrite (merge_spec chunks [] [] H). cbn [app].
  unfold blocks_of. apply renumber_BL.
Qed.

Theorem par_parse_chunks_eq chunks : cuts no_tear [] chunks ->
  par_parse_chunks chunks = parse_text (List.concat chunks).
Proof. intros H. unfold par_parse_chunks, parse_text. rewrite (par_blocks_eq _ H). reflexivity. Qed.

Lemma good_cut_no_tear a b : good_cut a b -> no_tear a b.
Proof.
  intros [->|[->|[_ H]]]; [apply tear_nil_l|apply tear_nil_r|exact H].
Qed.

Theorem split_no_tear s n : 1 <= n -> cuts no_tear [] (split_into_chunks s n).
Proof.
  intros Hn. destruct (chunks_partition s n Hn) as (_ & _ & H).
  exact (cuts_weaken _ _ _ _ good_cut_no_tear H).
Qed.

(* every index 0..n-1 arrives (in any order, possibly repeated, possibly with stray indices) *)
Theorem parallel_eq_serial_arrivals s n order : 1 <= n -> (forall j, j < n -> In j order) ->
  par_parse s n order = parse_text s.
Proof.
  intros Hn Hall. unfold par_parse. destruct n as [|n']; [lia|]. set (n := S n') in *.
  destruct (chunks_partition s n Hn) as (Hcat & Hlen & _).
  set (empty := {| br_head := []; br_blocks := []; br_tail := [] |}).
  rewrite (collect_any_arrivals empty (length (split_into_chunks s n)) (map worker (split_into_chunks s n))).
  - fold (par_blocks_of_chunks (split_into_chunks s n)). fold (par_parse_chunks (split_into_chunks s n)).
    rewrite (par_parse_chunks_eq _ (split_no_tear s n Hn)), Hcat. reflexivity.
  - apply map_length.
  - intros j Hj. rewrite map_map. cbn [fst]. rewrite map_id. apply Hall. lia.
  - intros i x Hin. apply in_map_iff in Hin as (k & [= <- <-] & _). reflexivity.
Qed.

Theorem parallel_eq_serial s n order : 1 <= n -> Permutation order (seq 0 n) ->
  par_parse s n order = parse_text s.
Proof.
  intros Hn Hp. apply parallel_eq_serial_arrivals; [exact Hn|].
  intros j Hj. apply (Permutation_in _ (Permutation_sym Hp)). apply in_seq. lia.
Qed.

Theorem par_parse_zero_workers s order : par_parse s 0 order = Crash CExplicitPanic.
Proof. reflexivity. Qed.

(* whatever the worker counts and arrival orders: the same result *)
Corollary parallel_deterministic s n1 n2 o1 o2 :
  1 <= n1 -> 1 <= n2 -> Permutation o1 (seq 0 n1) -> Permutation o2 (seq 0 n2) ->
  par_parse s n1 o1 = par_parse s n2 o2.
Proof. intros. rewrite !parallel_eq_serial by assumption. reflexivity. Qed.

(* ---- the hypothesis "no cut between CR and LF" is needed (defect F11, fixed in splitIntoChunks) ---- *)
(* "2020-01-01\r\n\r\n2020-01-02\r\n\r\n \r" | "\n2020-01-03\r\n": the first worker takes " \r" for a significant line
   and reports it as the start of its tail block; serially the line " \r\n" is blank and belongs to the second block *)
Definition torn_chunks : list bytes :=
  [ b!"2020-01-01" ++ [13;10;13;10] ++ b!"2020-01-02" ++ [13;10;13;10;32;13] ; [10] ++ b!"2020-01-03" ++ [13;10] ]%N.

Lemma torn_chunks_differ :
  map (fun b => (b_preceding b, length (b_lines b))) (par_blocks_of_chunks torn_chunks) = [(0, 2); (2, 2); (4, 2)] /\
  map (fun b => (b_preceding b, length (b_lines b))) (blocks_of (List.concat torn_chunks)) = [(0, 2); (2, 3); (5, 1)].
Proof. split; vm_compute; reflexivity. Qed.

Theorem arbitrary_partition_refuted :
  exists chunks, par_parse_chunks chunks <> parse_text (List.concat chunks).
Proof.
  exists torn_chunks. intros H.
  assert (E : match par_parse_chunks torn_chunks with Ok (Parsed _ bs) => map b_preceding bs | _ => [] end = [0; 2; 4])
    by (vm_compute; reflexivity).
  rewrite H in E. vm_compute in E. discriminate E.
Qed.

(* non-vacuity material: CRLF text with a multi-byte character; 14 bytes per chunk with 5 workers *)
Definition ex_par_text : bytes :=
  (b!"2020-01-01" ++ [13;10] ++ b!"    1h " ++ [195;164] ++ [13;10] ++ [32;13;10] ++ [13;10]
   ++ b!"2020-01-02" ++ [13;10] ++ b!"    8:00-9:00" ++ [13;10;13;10] ++ b!"2020-01-03" ++ [13;10])%N.
