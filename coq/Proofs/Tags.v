(* Lemmas about Model/Tags.v (stub). *)
From Klog Require Import Base.Prelude Model.Tags.
