(* ShowRecord: canonical printing of parsed records, blocks and parse errors for the correspondence. *)
From Klog Require Import Base.Prelude Base.Utf8 Model.Calendar Model.Values Model.Record Model.Lines Model.Parser Model.Show.
Open Scope Z_scope.

Definition colon : bytes := [58%N].
Definition comma : bytes := [44%N].
Definition fields (l : list bytes) : bytes := join colon l.

Definition show_hexlines (ls : list bytes) : bytes :=
  match ls with [] => b!"_" | _ => join comma (map hex_of_bytes ls) end.

Definition show_t (t : time) : bytes :=
  join b!"." [dec (t_hour t); dec (t_min t); dec (t_shift t); show_bool (t_24h t)].

Definition show_entry (e : entry) : bytes :=
  match e_value e with
  | VDuration d => fields [b!"D"; dec (d_mins d); hex_of_bytes (print_duration d); show_hexlines (e_summary e)]
  | VRange r => fields [b!"G"; show_t (r_start r); show_t (r_end r); show_bool (r_spaces r); show_hexlines (e_summary e)]
  | VOpen o => fields [b!"O"; show_t (o_start o); show_bool (o_spaces o); dec (Z.of_nat (o_extra o)); show_hexlines (e_summary e)]
  end.

Definition show_record (r : record) : bytes :=
  words ([b!"R"; hex_of_bytes (print_date (rec_date r));
          match rec_should r with Some m => dec m | None => b!"_" end;
          show_hexlines (rec_summary r);
          dec (Z.of_nat (length (rec_entries r)))] ++ map show_entry (rec_entries r)).

Definition show_code (c : ecode) : bytes :=
  match c with
  | ErrorInvalidDate => b!"ErrorInvalidDate"
  | ErrorIllegalIndentation => b!"ErrorIllegalIndentation"
  | ErrorMalformedShouldTotal => b!"ErrorMalformedShouldTotal"
  | ErrorUnrecognisedProperty => b!"ErrorUnrecognisedProperty"
  | ErrorMalformedPropertiesSyntax => b!"ErrorMalformedPropertiesSyntax"
  | ErrorUnrecognisedTextInHeadline => b!"ErrorUnrecognisedTextInHeadline"
  | ErrorMalformedSummary => b!"ErrorMalformedSummary"
  | ErrorMalformedEntry => b!"ErrorMalformedEntry"
  | ErrorDuplicateOpenRange => b!"ErrorDuplicateOpenRange"
  | ErrorIllegalRange => b!"ErrorIllegalRange"
  end.

(* line numbers are printed 1-based, like Error.LineNumber() *)
Definition show_rerr (e : rerr) : bytes :=
  fields [dec (Z.of_nat (S (re_line e))); dec (re_pos e); dec (re_len e); show_code (re_code e); hex_of_bytes (re_text e)].

Definition show_ending (e : bytes) : bytes :=
  match e with [] => b!"n" | [_] => b!"l" | _ => b!"c" end.

Definition show_line (l : line) : bytes := hex_of_bytes (l_text l) ++ b!"/" ++ show_ending (l_ending l).

Definition show_block (b : block) : bytes :=
  fields [dec (Z.of_nat (b_preceding b)); join comma (map show_line (b_lines b))].

Definition show_blocks (bs : list block) : bytes := words (dec (Z.of_nat (length bs)) :: map show_block bs).

Definition show_parse_result (r : outcome parse_result) : bytes :=
  match r with
  | Ok (Parsed rs bs) => words ([b!"ok"; dec (Z.of_nat (length rs))] ++ map show_record rs)
  | Ok (Failed es) => words ([b!"errors"; dec (Z.of_nat (length es))] ++ map show_rerr es)
  | Err _ => b!"err"
  | Crash _ => b!"crash"
  end.
