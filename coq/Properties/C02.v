(* C02 — property theorems (being built). *)
From Klog Require Import Base.Prelude Model.Eval.
